# /verif top-level: `make setup` builds the Coq development (full .vo build,
# no -vos) and the extracted OCaml driver from files on disk only.
.PHONY: setup gen coq driver lint clean
setup: gen coq driver
gen:
	python3 tools/gen_all.py
coq:
	cd coq && coq_makefile -f _CoqProject -o Makefile $$(find . -name '*.v' | sort) && timeout 3000 $(MAKE) -k -j16
driver:
	python3 -c "import sys; sys.path.insert(0,'lib'); import common; print(common.build_driver())"
lint:
	python3 -c "import sys; sys.path.insert(0,'lib'); import common; b=common.coq_lint(); print('\n'.join(b)); sys.exit(1 if b else 0)"
clean:
	rm -rf build; cd coq && find . -name '*.vo' -o -name '*.vok' -o -name '*.vos' -o -name '*.glob' -o -name '.*.aux' | xargs rm -f
