#!/bin/bash
# usage: tools/seedall.sh <name>...   : confirm (if needed), copy into /verif/seeded/<name>, run the property's quick check against it
cd /verif
for s in "$@"; do
  src=/work/seed/out/$s
  [ -d "$src" ] || continue
  [ -f "$src/confirm.json" ] || python3 tools/seedconfirm.py "$src"
  if python3 -c "import json,sys; sys.exit(0 if json.load(open('$src/confirm.json'))['confirmed'] else 1)"; then
    mkdir -p seeded/$s && cp -r $src/* seeded/$s/
    python3 tools/seedtest.py seeded/$s
  else
    echo "$s NOT-CONFIRMED"
  fi
done
