#!/usr/bin/env python3
"""(T) translator for C11, layer 1, masked part: the masked AEAD functions, the masked-key functions and the masked
kernels under the non-default container sizes, symbolically executed from the CURRENT source with the stuck semantics
of tools/kern_ct.py (a branch / select / switch condition, pointer offset, shift amount or copy length that is not a
constant raises Stuck; a run that finishes has a leakage trace - jumps taken, (region, offset, size) of every access,
callees with their public arguments - that is the same for every value of the data).

Targets (group "masked"), each for the share configurations KEY/DATA/MAX = 4/2/4 (default), 4/1/4, 3/3/3, 2/2/2:
    ascon{128,128a,80pq}_masked_aead_{encrypt,decrypt}     control tuple (adlen, mlen) over L(rate) x L(rate),
                                                           L(r) = 0, 1, r-1, r, r+1, 2r+3 (as the unmasked AEAD rows)
    ascon_masked_key_{128,160}_{init,randomize,extract,free}   control tuple ()
  secret (symbolic in mode sym): every byte of the masked key object / the key, the plaintext / ciphertext and tag, and
  EVERY word returned by ascon_trng_generate_64 / _32 (fresh symbolic word per call); the nonce and the associated
  data are symbolic too (stronger than the property needs); public (concrete): the lengths.
  configurations (column `cfg` of the table):
    c64_KDM   -DASCON_FORCE_C64: ascon-aead-masked-*.c + ascon-aead-masked-common.c + ascon-aead-common.c +
              ascon-masked-state.c + ascon-masked-key.c + ascon-masked-word-c64.c + ascon-sliced64.c + ascon-clean.c linked
              (calls inlined); external: the masked permutations ascon_x{2,3,4}_permute (a call replaces the 5*8*MAX state
              bytes and the 8*(n-1) preserved random bytes by fresh data; first_round must be a constant) and
              ascon_permute (40 state bytes); their own rows are in group "permutation".
    c32_KDM   the same over ascon-masked-word-c32.c / ascon-sliced32.c with -DASCON_FORCE_C32
    x86_KDM   the default x86-64 selection: the mode-level C and ascon-masked-state.c / ascon-masked-key.c linked; the
              assembly word toolkit (ascon-word-asm-x86-64.S) and the assembly permutations are external with CONTRACTS
              (every integer argument - size, offset, first round - must be a constant of the run, the pointers must be
              in bounds for the bytes the routine reads / writes, written bytes become fresh data); the assembly
              routines' own rows: masked_word_reqs "x86_64_asm" / ascon_x{n}_permute "x86_64_asm" of Gen/CtKernels.v
              (MAX_SHARES = 4) and the rows below (MAX_SHARES = 2, 3).
  r_perms of a row lists the permutation calls in order, 100 * shares + first_round (shares = 1: ascon_permute);
  Obl/CtMaskedObl.v predicts that list from (alg, KEY, DATA, adlen, mlen) by a hand-written function.

Targets (group "permutation" / "kernel") for the container sizes kern_ct.py does not run (it uses 160-byte states):
    ascon_x{n}_permute, first_round 0..12, for (n, MAX) = (2,2), (2,3), (3,3) on c64, c32 and the x86-64 assembly
    (cfg c64_maxK, c32_maxK, x86_64_asm_maxK), state region of exactly 40*MAX bytes
    the masked-word toolkit (zero, load, load_partial 0..7, load_32, store, store_partial 0..7, randomize, xor,
    replace 1..7, xN_from_xM, pad 0..7, separator) for n, m <= MAX, MAX = 2, 3, words of exactly 8*MAX bytes

Every target runs in three modes that differ only in which inputs are symbolic (sym: all; mixed: every second data region
concrete; conc1: all concrete, random words concrete) and the three trace hashes must agree (re-checked in Coq).
Output: coq/Gen/CtMasked.v + CtMasked_p<k>.v (k < NPARTS).  Content-hash caching as kern_ct.py: with --if-stale the run
is skipped when the `source-digest` in the header equals the digest of src/ of the tree + the executor + this file;
the MISSING lines of the run that produced the table are replayed from CtMasked.v.missing.

Usage: kern_ct_masked.py [repo] [--out file.v] [--only substring] [--jobs n] [--if-stale]"""
import os, sys, re, json, time, random, hashlib
sys.path.insert(0, os.path.dirname(os.path.abspath(__file__)))
import symx, llvmx, symx_arith
import kern_ct as K
from kern_ct import Data, L, nz, run_once, trace_hash
from symx import Stuck, V

SHARES = [(4, 2, 4), (4, 1, 4), (3, 3, 3), (2, 2, 2)]
TRNG = ("@ascon_trng_generate_64", "@ascon_trng_generate_32")
NPARTS = 8
MODES = ("sym", "mixed", "conc1")


class Target:
    def __init__(self, name, cfg, be, srcs, fn, ctl_names, ctl_values, setup, defs=(), maxs=4, group="masked", contracts=False):
        self.name, self.cfg, self.be, self.srcs, self.fn = name, cfg, be, srcs, fn
        self.ctl_names, self.ctl_values, self.setup = ctl_names, ctl_values, setup
        self.defs, self.maxs, self.group, self.contracts = tuple(defs), maxs, group, contracts


TARGETS = []


# ------------------------------------------------------------------ external functions
def conc_arg(ex, x, what):
    v = x[1]
    if isinstance(v, V):
        if not v.is_conc():
            raise Stuck("data-dependent %s" % what)
        return v.conc
    raise Stuck("pointer where an integer is expected: %s" % what)


def fill(ex, p, n, fresh, what):
    if p.region is None:
        raise Stuck("null pointer passed to %s" % what)
    r = ex.mem.regions[p.region]
    r.check(p.off, n, "write")
    for i in range(n):
        r.cells[p.off + i] = ("v", fresh(ex, 8))


def touch(ex, p, n, what):
    if n:
        if p.region is None:
            raise Stuck("null pointer passed to %s" % what)
        ex.mem.regions[p.region].check(p.off, n, "read")


def masked_cb(maxs, contracts):
    """callbacks for one run: masked permutations (always external), TRNG open/close, and - when `contracts` - the
    assembly word toolkit"""
    wb = 8 * maxs

    def mk(fresh):
        cb = {}

        def perm(n):
            name = "@ascon_x%d_permute" % n

            def f(ex, a):
                st, fr, pr = a[0][1], conc_arg(ex, a[1], "first_round of " + name), a[2][1]
                ex.b.leak.append(("C", name, st.region, st.off, (fr,), pr.region, pr.off))
                touch(ex, st, 5 * wb, name); touch(ex, pr, 8 * (n - 1), name)
                fill(ex, st, 5 * wb, fresh, name)
                fill(ex, pr, 8 * (n - 1), fresh, name)
                return None
            return f
        for n in (2, 3, 4):
            cb["@ascon_x%d_permute" % n] = perm(n)

        def trng_init(ex, a):
            p = a[0][1]
            ex.b.leak.append(("C", "@ascon_trng_init", p.region, p.off))
            return ex.b.const(32, 1)

        def trng_free(ex, a):
            p = a[0][1]
            ex.b.leak.append(("C", "@ascon_trng_free", p.region, p.off))
            return None
        cb["@ascon_trng_init"], cb["@ascon_trng_free"] = trng_init, trng_free
        if contracts:
            # (name suffix, [(arg index, 'r'|'w'|'rw', size | ('arg', k))], [integer arg indices])
            def word_fn(name, ptrs, ints):
                def f(ex, a):
                    iv = [conc_arg(ex, a[i], "argument %d of %s" % (i, name)) for i in ints]
                    ev = ["C", name, tuple(iv)]
                    for (i, mode, size) in ptrs:
                        n = iv[ints.index(size[1])] if isinstance(size, tuple) else size
                        p = a[i][1]
                        ev += [p.region, p.off, n]
                        if "r" in mode:
                            touch(ex, p, n, name)
                    ex.b.leak.append(tuple(ev))
                    for (i, mode, size) in ptrs:
                        n = iv[ints.index(size[1])] if isinstance(size, tuple) else size
                        if "w" in mode and n:
                            fill(ex, a[i][1], n, fresh, name)
                    return None
                return f
            for n in (2, 3, 4):
                p = "@ascon_masked_word_x%d_" % n
                cb[p + "zero"] = word_fn(p + "zero", [(0, "w", wb)], [])
                cb[p + "load"] = word_fn(p + "load", [(0, "w", wb), (1, "r", 8)], [])
                cb[p + "load_partial"] = word_fn(p + "load_partial", [(0, "w", wb), (1, "r", ("arg", 2))], [2])
                cb[p + "load_32"] = word_fn(p + "load_32", [(0, "w", wb), (1, "r", 4), (2, "r", 4)], [])
                cb[p + "store"] = word_fn(p + "store", [(0, "w", 8), (1, "r", wb)], [])
                cb[p + "store_partial"] = word_fn(p + "store_partial", [(0, "w", ("arg", 1)), (2, "r", wb)], [1])
                cb[p + "randomize"] = word_fn(p + "randomize", [(0, "w", wb), (1, "r", wb)], [])
                cb[p + "xor"] = word_fn(p + "xor", [(0, "rw", wb), (1, "r", wb)], [])
                cb[p + "replace"] = word_fn(p + "replace", [(0, "rw", wb), (1, "r", wb)], [2])
                for m in (2, 3, 4):
                    if m != n:
                        cb[p + "from_x%d" % m] = word_fn(p + "from_x%d" % m, [(0, "w", wb), (1, "r", wb)], [])
            cb["@ascon_masked_word_pad"] = word_fn("@ascon_masked_word_pad", [(0, "rw", wb)], [1])
            cb["@ascon_masked_word_separator"] = word_fn("@ascon_masked_word_separator", [(0, "rw", wb)], [])
        return cb
    return mk


# ------------------------------------------------------------------ targets: masked AEAD and masked keys
BE = {"c64": ("c64", ["masking/ascon-masked-word-c64.c", "core/ascon-sliced64.c"], False),
      "c32": ("c32", ["masking/ascon-masked-word-c32.c", "core/ascon-sliced32.c"], False),
      "x86": ("default", ["core/ascon-sliced64.c"], True)}
COMMON = ["aead/ascon-aead-masked-common.c", "aead/ascon-aead-common.c", "masking/ascon-masked-state.c", "masking/ascon-masked-key.c", "core/ascon-clean.c"]


def share_defs(s):
    return ["ASCON_MASKED_KEY_SHARES=%d" % s[0], "ASCON_MASKED_DATA_SHARES=%d" % s[1], "ASCON_MASKED_MAX_SHARES=%d" % s[2]]


def enc_setup(kbytes):
    def f(c):
        adl, ml = c
        return ([("ptr", "c", 0), ("ptr", "clen", 0), ("ptr", "m", 0), ("int", ml), ("ptr", "ad", 0), ("int", adl), ("ptr", "npub", 0), ("ptr", "k", 0)],
                [Data("c", ml + 16, out=True), Data("clen", 8, out=True), Data("m", nz(ml)), Data("ad", nz(adl)), Data("npub", 16), Data("k", kbytes)])
    return f


def dec_setup(kbytes):
    def f(c):
        adl, ml = c
        return ([("ptr", "m", 0), ("ptr", "mlen", 0), ("ptr", "c", 0), ("int", ml + 16), ("ptr", "ad", 0), ("int", adl), ("ptr", "npub", 0), ("ptr", "k", 0)],
                [Data("m", nz(ml), out=True), Data("mlen", 8, out=True), Data("c", ml + 16), Data("ad", nz(adl)), Data("npub", 16), Data("k", kbytes)])
    return f


def masked_targets(be, shares_list):
    cfg0, besrcs, contracts = BE[be]
    for s in shares_list:
        cfg = "%s_%d%d%d" % (be, s[0], s[1], s[2])
        defs = share_defs(s)
        for alg, kobj, rate in (("ascon128", 64, 8), ("ascon128a", 64, 16), ("ascon80pq", 192, 8)):
            shapes = [(a, m) for a in L(rate) for m in L(rate)]
            srcs = ["aead/ascon-aead-masked-%s.c" % alg[5:]] + COMMON + besrcs
            TARGETS.append(Target(alg + "_masked_aead_encrypt", cfg, cfg0, srcs, "@" + alg + "_masked_aead_encrypt", ["adlen", "mlen"], shapes, enc_setup(kobj), defs, s[2], contracts=contracts))
            TARGETS.append(Target(alg + "_masked_aead_decrypt", cfg, cfg0, srcs, "@" + alg + "_masked_aead_decrypt", ["adlen", "mlen"], shapes, dec_setup(kobj), defs, s[2], contracts=contracts))
        srcs = ["masking/ascon-masked-key.c", "core/ascon-clean.c"] + besrcs
        for bits, kobj in ((128, 64), (160, 192)):
            p = "ascon_masked_key_%d_" % bits
            TARGETS.append(Target(p + "init", cfg, cfg0, srcs, "@" + p + "init", [], [()],
                                  (lambda ko, kb: lambda c: ([("ptr", "masked", 0), ("ptr", "key", 0)], [Data("masked", ko, out=True), Data("key", kb)]))(kobj, bits // 8), defs, s[2], contracts=contracts))
            TARGETS.append(Target(p + "randomize", cfg, cfg0, srcs, "@" + p + "randomize", [], [()],
                                  (lambda ko: lambda c: ([("ptr", "masked", 0)], [Data("masked", ko)]))(kobj), defs, s[2], contracts=contracts))
            TARGETS.append(Target(p + "free", cfg, cfg0, srcs, "@" + p + "free", [], [()],
                                  (lambda ko: lambda c: ([("ptr", "masked", 0)], [Data("masked", ko)]))(kobj), defs, s[2], contracts=contracts))
            TARGETS.append(Target(p + "extract", cfg, cfg0, srcs, "@" + p + "extract", [], [()],
                                  (lambda ko, kb: lambda c: ([("ptr", "masked", 0), ("ptr", "key", 0)], [Data("masked", ko), Data("key", kb, out=True)]))(kobj, bits // 8), defs, s[2], contracts=contracts))


masked_targets("c64", SHARES)
masked_targets("x86", SHARES)
masked_targets("c32", SHARES)


# ------------------------------------------------------------------ targets: kernels under MAX_SHARES = 2, 3
def perm_targets():
    for (n, maxs) in ((2, 2), (2, 3), (3, 3)):
        D = ["ASCON_MASKED_MAX_SHARES=%d" % maxs]
        setup = (lambda nn, mm: lambda c: ([("ptr", "state", 0), ("int", c[0]), ("ptr", "preserve", 0)], [Data("state", 40 * mm), Data("preserve", 8 * (nn - 1))]))(n, maxs)
        rounds = [(r,) for r in range(13)]
        for be, cfg0, src in (("c64", "c64", "masking/ascon-x%d-c64.c" % n), ("c32", "c32", "masking/ascon-x%d-c32.c" % n), ("x86_64_asm", "default", "masking/ascon-x%d-asm-x86-64.S" % n)):
            TARGETS.append(Target("ascon_x%d_permute" % n, "%s_max%d" % (be, maxs), cfg0, [src], "@ascon_x%d_permute" % n, ["first_round"], rounds, setup, D, maxs, group="permutation"))


def mw_targets():
    for maxs in (2, 3):
        D = ["ASCON_MASKED_MAX_SHARES=%d" % maxs]
        W = 8 * maxs
        for be, cfg0, src in (("c64", "c64", "masking/ascon-masked-word-c64.c"), ("c32", "c32", "masking/ascon-masked-word-c32.c"), ("x86_64_asm", "default", "masking/ascon-word-asm-x86-64.S")):
            cfg = "%s_max%d" % (be, maxs)

            def t(fn, ctl_names, ctl_values, setup):
                TARGETS.append(Target(fn, cfg, cfg0, [src], "@" + fn, ctl_names, ctl_values, setup, D, maxs, group="kernel"))
            for n in range(2, maxs + 1):
                p = "ascon_masked_word_x%d_" % n
                t(p + "zero", [], [()], lambda c, W=W: ([("ptr", "word", 0), ("ptr", "trng", 0)], [Data("word", W, out=True), Data("trng", 64)]))
                t(p + "load", [], [()], lambda c, W=W: ([("ptr", "word", 0), ("ptr", "data", 0), ("ptr", "trng", 0)], [Data("word", W, out=True), Data("data", 8), Data("trng", 64)]))
                t(p + "load_partial", ["size"], [(s,) for s in range(8)],
                  lambda c, W=W: ([("ptr", "word", 0), ("ptr", "data", 0), ("int", c[0]), ("ptr", "trng", 0)], [Data("word", W, out=True), Data("data", max(c[0], 1)), Data("trng", 64)]))
                t(p + "load_32", [], [()], lambda c, W=W: ([("ptr", "word", 0), ("ptr", "d1", 0), ("ptr", "d2", 0), ("ptr", "trng", 0)],
                                                          [Data("word", W, out=True), Data("d1", 4), Data("d2", 4), Data("trng", 64)]))
                t(p + "store", [], [()], lambda c, W=W: ([("ptr", "data", 0), ("ptr", "word", 0)], [Data("data", 8, out=True), Data("word", W)]))
                t(p + "store_partial", ["size"], [(s,) for s in range(8)],
                  lambda c, W=W: ([("ptr", "data", 0), ("int", c[0]), ("ptr", "word", 0)], [Data("data", max(c[0], 1), out=True), Data("word", W)]))
                t(p + "randomize", [], [()], lambda c, W=W: ([("ptr", "dest", 0), ("ptr", "src", 0), ("ptr", "trng", 0)], [Data("dest", W), Data("src", W), Data("trng", 64)]))
                t(p + "xor", [], [()], lambda c, W=W: ([("ptr", "dest", 0), ("ptr", "src", 0)], [Data("dest", W), Data("src", W)]))
                t(p + "replace", ["size"], [(s,) for s in range(1, 8)],
                  lambda c, W=W: ([("ptr", "dest", 0), ("ptr", "src", 0), ("int", c[0])], [Data("dest", W), Data("src", W)]))
                for m in range(2, maxs + 1):
                    if m != n:
                        t(p + "from_x%d" % m, [], [()], lambda c, W=W: ([("ptr", "dest", 0), ("ptr", "src", 0), ("ptr", "trng", 0)], [Data("dest", W), Data("src", W), Data("trng", 64)]))
            t("ascon_masked_word_pad", ["offset"], [(o,) for o in range(8)], lambda c, W=W: ([("ptr", "word", 0), ("int", c[0])], [Data("word", W)]))
            t("ascon_masked_word_separator", [], [()], lambda c, W=W: ([("ptr", "word", 0)], [Data("word", W)]))


perm_targets()
mw_targets()


# ------------------------------------------------------------------ driver
_asmcache = {}


def load_asm(repo, src, defs):
    key = (repo, src, tuple(defs))
    if key not in _asmcache:
        import asm_x86
        path = os.path.join(repo, "src", src)
        text = asm_x86.preprocess(path, incs=[os.path.join(repo, "src"), os.path.join(repo, "src", "core"), os.path.join(repo, "src", "masking")], defs=list(defs))
        _asmcache[key] = asm_x86.parse(text)
    return _asmcache[key]


def load_mod(repo, t):
    if t.srcs[0].endswith(".S"):
        return load_asm(repo, t.srcs[0], t.defs)
    return K.load(repo, t.srcs, t.be, t.defs)


def perm_code(e):
    """leak event -> 100 * shares + first_round for a permutation call, else None"""
    if e[0] != "C":
        return None
    if e[1] == "@ascon_permute":
        return 100 + e[4][0]
    m = re.match(r"^@ascon_x([234])_permute$", e[1])
    return 100 * int(m.group(1)) + e[4][0] if m else None


def run_chunk(job):
    repo, ti, lo, hi = job
    t_start = time.time()
    t = TARGETS[ti]
    rows, errors = [], []
    is_asm = t.srcs[0].endswith(".S")
    try:
        mod = load_mod(repo, t)
    except Stuck as ex:
        return ti, lo, [], (["%s [%s]: %s" % (t.name, t.cfg, str(ex)[:300])] if lo == 0 else []), 0.0
    if is_asm and not any(it[0] == "label" and it[1] == t.fn.lstrip("@") for it in mod[0]):
        return ti, lo, [], (["%s [%s]: label not found in %s" % (t.name, t.cfg, t.srcs[0])] if lo == 0 else []), 0.0
    if not is_asm and t.fn not in mod.funcs:
        return ti, lo, [], (["%s [%s]: function not found in the LLVM IR of %s" % (t.name, t.cfg, ",".join(t.srcs))] if lo == 0 else []), 0.0
    for ctl in t.ctl_values[lo:hi]:
        hashes, info = [], None
        try:
            for mode in MODES:
                args, datas = t.setup(ctl)
                if is_asm:
                    ex, leak = K.run_once_asm(mod, t.fn, args, datas, mode, rand_fns=TRNG)
                else:
                    ex, leak = run_once(mod, t.fn, args, datas, mode, rand_fns=TRNG, havoc=K.PERM, extra_cb=masked_cb(t.maxs, t.contracts))
                hashes.append(trace_hash(leak))
                if mode == "sym":
                    perms = [c for c in (perm_code(e) for e in leak) if c is not None]
                    info = (ex.steps, len(leak), len(ex.b.in_widths), len(ex.b.body), perms)
        except Stuck as ex:
            errors.append("%s [%s] %s: %s" % (t.name, t.cfg, dict(zip(t.ctl_names, ctl)), str(ex)[:300]))
            rows.append((ctl, None, []))
            continue
        except (KeyError, AttributeError, TypeError, IndexError, ValueError, RecursionError) as ex:
            errors.append("%s [%s] %s: executor error %s: %s" % (t.name, t.cfg, dict(zip(t.ctl_names, ctl)), type(ex).__name__, str(ex)[:200]))
            rows.append((ctl, None, []))
            continue
        rows.append((ctl, info, hashes))
    return ti, lo, rows, errors, time.time() - t_start


def source_digest(repo):
    h = hashlib.sha256()
    top = os.path.join(repo, "src")
    for root, dirs, files in sorted(os.walk(top)):
        dirs.sort()
        for f in sorted(files):
            if f.endswith((".c", ".h", ".S")):
                p = os.path.join(root, f)
                h.update(os.path.relpath(p, top).encode()); h.update(open(p, "rb").read())
    here = os.path.dirname(os.path.abspath(__file__))
    for f in ("kern_ct_masked.py", "kern_ct.py", "symx.py", "symx_arith.py", "llvmx.py", "asm_x86.py"):
        h.update(open(os.path.join(here, f), "rb").read())
    return h.hexdigest()


def emit(results, out, stats, digest):
    hdr = ["(* GENERATED by tools/kern_ct_masked.py from /repo's current source: leakage traces of the symbolic executor (C11 layer 1),",
           "   masked AEAD, masked keys and the masked kernels under MAX_SHARES = 2, 3.  Row format as Gen/CtKernels.v; r_perms lists the",
           "   permutation calls in order as 100 * shares + first_round (shares = 1: ascon_permute).",
           "   source-digest: %s *)" % digest,
           "From Coq Require Import List NArith String.", "From AsconV Require Import Sym.CtTable.", "Import ListNotations.",
           "Local Open Scope N_scope.", "Local Open Scope string_scope.", ""]
    parts = [[] for _ in range(NPARTS)]
    load_ = [0] * NPARTS
    order = sorted(range(len(results)), key=lambda i: -len(results[i][1]))
    where = {}
    for i in order:
        k = load_.index(min(load_))
        where[i] = k
        load_[k] += len(results[i][1]) + 5
    for i, (t, rows) in enumerate(results):
        body = ";\n    ".join(("mkRun [%s] %d %d %d 0x%s [%s] [%s]" % ("; ".join(str(c) for c in ctl), info[0], info[1], info[2], hs[0], "; ".join("0x" + h for h in hs[1:]),
                                                                           "; ".join(str(x) for x in info[4])))
                              if info is not None else ("mkRun [%s] 0 0 0 0 [] []" % "; ".join(str(c) for c in ctl))       # stuck: fails ct_run_ok
                              for ctl, info, hs in rows)
        parts[where[i]].append((i, "Definition ctm_e%d : ct_entry := mkEntry \"%s\" \"%s\" \"%s\" [\n    %s]." % (i, t.name, t.cfg, t.group, body)))
    base = out[:-2]
    for k in range(NPARTS):
        Ls = list(hdr) + [d for _, d in parts[k]]
        Ls.append("Definition ctm_part%d : list ct_entry := [%s]." % (k, "; ".join("ctm_e%d" % i for i, _ in parts[k])))
        symx.write_if_changed("%s_p%d.v" % (base, k), "\n".join(Ls) + "\n")
    Ls = list(hdr)
    Ls[[i for i, x in enumerate(Ls) if x.startswith("From AsconV")][0]] = \
        "From AsconV Require Import Sym.CtTable %s." % " ".join("Gen.%s_p%d" % (os.path.basename(base), k) for k in range(NPARTS))
    Ls.append("Definition ctm_entries : list ct_entry := %s." % " ++ ".join("ctm_part%d" % k for k in range(NPARTS)))
    Ls.append("(* stats: %s *)" % json.dumps(stats))
    open(out, "w").write("\n".join(Ls) + "\n")


def main():
    import multiprocessing
    argv = sys.argv[1:]
    repo = os.environ.get("VERIF_REPO", "/repo")
    V_ = os.path.dirname(os.path.dirname(os.path.abspath(__file__)))
    out = os.path.join(V_, "coq", "Gen", "CtMasked.v")
    only, if_stale, jobs = None, False, 16
    i = 0
    while i < len(argv):
        if argv[i] == "--out":
            out = argv[i + 1]; i += 2
        elif argv[i] == "--only":
            only = argv[i + 1]; i += 2
        elif argv[i] == "--jobs":
            jobs = int(argv[i + 1]); i += 2
        elif argv[i] == "--if-stale":
            if_stale = True; i += 1
        else:
            repo = argv[i]; i += 1
    t0 = time.time()
    digest = source_digest(repo)
    if if_stale and os.path.exists(out):
        head = open(out).read(2000)
        if "source-digest: " + digest in head:
            tail = open(out).read().rstrip().split("\n")[-1]
            print("kern_ct_masked: coq/Gen/CtMasked.v is up to date with the source (digest %s) %s" % (digest[:12], tail))
            side = out + ".missing"
            if os.path.exists(side):
                sys.stdout.write(open(side).read())
            return
    sel = [ti for ti, t in enumerate(TARGETS) if not only or only in t.name or only in t.cfg]
    for ti in sel:           # compile every (sources, configuration) once, before forking
        try:
            load_mod(repo, TARGETS[ti])
        except Stuck:
            pass
    work = []
    for ti in sel:
        n = len(TARGETS[ti].ctl_values)
        step = max(1, min(8, (n + jobs - 1) // jobs))
        for lo in range(0, n, step):
            work.append((repo, ti, lo, lo + step))
    got, cpu = {}, {}
    if jobs > 1 and len(work) > 1:
        with multiprocessing.Pool(jobs) as pool:
            for ti, lo, rows, errors, dt in pool.imap_unordered(run_chunk, work):
                got[(ti, lo)] = (rows, errors)
                cpu[ti] = cpu.get(ti, 0) + dt
    else:
        for w in work:
            ti, lo, rows, errors, dt = run_chunk(w)
            got[(ti, lo)] = (rows, errors)
            cpu[ti] = cpu.get(ti, 0) + dt
    results, nrows, missing, per_group = [], 0, [], {}
    for ti in sel:
        t = TARGETS[ti]
        rows = []
        for (a, lo) in sorted(k for k in got if k[0] == ti):
            r, e = got[(a, lo)]
            rows += r
            missing += e
        nrows += len([r for r in rows if r[1] is not None])
        g = per_group.setdefault(t.group, [0, 0])
        g[0] += 1; g[1] += len([r for r in rows if r[1] is not None])
        results.append((t, rows))
    os.makedirs(os.path.dirname(out), exist_ok=True)
    stats = {"functions": len(results), "rows": nrows, "modes": len(MODES), "stuck": len(missing), "groups": per_group, "wall_s": round(time.time() - t0, 1)}
    emit(results, out, stats, digest)
    # same line format as kern_ct.py so that lib/p_c11.py turns every stuck run into one ct-stuck finding per function
    open(out + ".missing", "w").write("".join("MISSING kern_ct " + e + "\n" for e in missing))
    for e in missing:
        print("MISSING kern_ct " + e)
    if os.environ.get("KERN_CT_PROFILE"):
        for ti in sorted(cpu, key=lambda k: -cpu[k])[:40]:
            print("  cpu %6.1fs  %s [%s] %d tuples" % (cpu[ti], TARGETS[ti].name, TARGETS[ti].cfg, len(TARGETS[ti].ctl_values)))
    print("kern_ct_masked: %d functions, %d control tuples x %d modes executed, %d stuck (%.1fs); %s" %
          (len(results), nrows, len(MODES), len(missing), time.time() - t0, ", ".join("%s %d/%d" % (g, v[0], v[1]) for g, v in sorted(per_group.items()))))


if __name__ == "__main__":
    main()
