#!/usr/bin/env python3
"""(T) translator for the masked permutation kernels of the 32-bit backend (C10): ascon_x{2,3,4}_permute of
src/masking/ascon-x{2,3,4}-c32.c as clang -O1 LLVM IR (-DASCON_FORCE_C32), executed symbolically for every
first_round 0..12 with ALL share halves and ALL preserved random words symbolic, cut at the loop head.

A masked word of this backend is uint32_t W[2*MAX_SHARES]: W[2j] holds the even bits and W[2j+1] the odd
bits of share j, each half rotated right by 5j bits.  The *value program* of an interface therefore rebuilds
each of the five 64-bit words as
      WInterleave (XOR_j rotl_{5j} even_j) (XOR_j rotl_{5j} odd_j)
and the obligation is the one of the 64-bit kernels (Sym/VKernel.check_vseg, rounds stated on the joined
64-bit value, layout KL64): value_out(segment v) = round(value_in v) for all v.

Emits, per kernel, coq/Gen/Masked_mx{n}_c32_if.v (interfaces with their value programs), Masked_mx{n}_c32_p<i>.v
(the segments, in PARTS[n] files), MaskedObl_mx{n}_c32_p<i>.v (`forallb (check_vseg ifs) part = true` by vm_compute:
the expensive step, one file per part so that make checks them in parallel), Masked_mx{n}_c32.v (concatenation,
entry/exit interface, chains) and MaskedObl_mx{n}_c32.v (`vbackend_ok ... = true` from the parts by
Obl/KernMaskedParts.vbackend_ok_parts).  The programs are twice as long as the 64-bit ones, hence the split."""
import os, sys, random, hashlib, json, time
sys.path.insert(0, os.path.dirname(os.path.abspath(__file__)))
import llvmx
from symx import Stuck, write_if_changed

M32 = (1 << 32) - 1
MAXS = 4
WB = 8 * MAXS            # bytes of one masked word


def le32(base):
    e = "(WIn %d)" % base
    for b in range(1, 4):
        e = "(WConcat (WIn %d) %s)" % (base + b, e)
    return e


def unrot32(e, j):
    """logical half of share j from the stored half (stored = rotr_{5j} logical)"""
    return e if j == 0 else "(WRotr %d %s)" % (32 - 5 * j, e)


def xor_all(terms):
    v = terms[0]
    for t in terms[1:]:
        v = "(WXor %s %s)" % (v, t)
    return v


def var_value_prog(n, posmap):
    """posmap: (i, j, h) -> (position | [4 byte positions], inverted); h = 0 even half, 1 odd half"""
    outs = []
    for i in range(5):
        halves = []
        for h in (0, 1):
            terms = []
            for j in range(n):
                pos, inv = posmap[(i, j, h)]
                if isinstance(pos, list):
                    e = "(WIn %d)" % pos[0]
                    for p in pos[1:]:
                        e = "(WConcat (WIn %d) %s)" % (p, e)
                else:
                    e = "(WIn %d)" % pos
                if inv:
                    e = "(WNot %s)" % e
                terms.append(unrot32(e, j))
            halves.append(xor_all(terms))
        outs.append("(WInterleave %s %s)" % (halves[0], halves[1]))
    return "{| p_body := []; p_outs := [%s] |}" % "; ".join(outs)


def llvm_provider(repo, n, maxs=MAXS):
    src = os.path.join(repo, "src", "masking", "ascon-x%d-c32.c" % n)
    defs = ["ASCON_FORCE_C32"] + (["ASCON_MASKED_MAX_SHARES=%d" % maxs] if maxs != 4 else [])
    txt = llvmx.compile_ll(src, defs=defs, incs=[os.path.join(repo, "src"), os.path.join(repo, "src", "ascon"), os.path.join(repo, "src", "masking")])
    mod = llvmx.Module(txt)
    fname = "@ascon_x%d_permute" % n
    if fname not in mod.funcs:
        raise Stuck("%s is not defined when compiling %s with -DASCON_FORCE_C32 (backend selection changed?)" % (fname, src))

    def one(k):
        e = llvmx.Exec(mod, fname, [("ptr", "state", 0), ("int", k), ("ptr", "preserve", 0)],
                       {"state": {"size": 5 * 8 * maxs, "symbolic": True}, "preserve": {"size": 8 * (n - 1), "symbolic": True}},
                       cut=True, cut_exits=False)
        return e.run()
    return one


def run_kernel(name, n, one, maxs=MAXS):
    rng = random.Random(7)
    wb = 8 * maxs
    ifaces, iface_ids, segtab, chains, errors = [], {}, {}, {}, []

    def iface_id(widths, vprog):
        key = (tuple(widths), vprog)
        if key not in iface_ids:
            iface_ids[key] = len(ifaces)
            ifaces.append(key)
        return iface_ids[key]

    def memprog():
        outs = []
        for i in range(5):
            ev = xor_all([unrot32(le32(wb * i + 8 * j), j) for j in range(n)])
            od = xor_all([unrot32(le32(wb * i + 8 * j + 4), j) for j in range(n)])
            outs.append("(WInterleave %s %s)" % (ev, od))
        return "{| p_body := []; p_outs := [%s] |}" % "; ".join(outs)

    mem_total = 5 * wb + 8 * (n - 1)
    mem_if = iface_id([8] * mem_total, memprog())
    keys = [(i, j, h) for i in range(5) for j in range(n) for h in (0, 1)]
    for k in range(13):
        try:
            segs = one(k)
        except Stuck as ex:
            errors.append("first_round=%d: %s" % (k, ex)); continue
        halves = {key: rng.getrandbits(32) for key in keys}
        mem = [rng.getrandbits(8) for _ in range(5 * wb)]          # surplus shares: arbitrary
        for (i, j, h), v in halves.items():
            off = wb * i + 8 * j + 4 * h
            mem[off:off + 4] = [(v >> (8 * b)) & 255 for b in range(4)]
        mem += [rng.getrandbits(8) for _ in range(8 * (n - 1))]
        extra = segs[0].b.in_widths[mem_total:]
        entry_if = iface_id([8] * mem_total + list(extra), memprog())
        vals = mem + [rng.getrandbits(wd) for wd in extra]
        mapping_by_name = None
        cur_if = entry_if
        ids, ok = [], True
        for si, s in enumerate(segs):
            last = si == len(segs) - 1
            if any(o is None for o in s.outs):
                errors.append("first_round=%d: output memory left uninitialised" % k); ok = False; break
            vals = s.b.evaluate(vals, s.outs)
            if not last:
                widths = [8 if d[0] == "mem" else d[2] for d in s.out_desc]
                if mapping_by_name is None:
                    mapping_by_name = {}
                    memvals = {(d[1], d[2]): v for v, d in zip(vals, s.out_desc) if d[0] == "mem"}
                    for key in keys:
                        want = halves[key]
                        for pos, (v, d) in enumerate(zip(vals, s.out_desc)):
                            if d[0] not in ("phi", "reg") or d[2] != 32:
                                continue
                            if v == want:
                                mapping_by_name[key] = (d[0], d[1], False); break
                            if v == (~want & M32):
                                mapping_by_name[key] = (d[0], d[1], True); break
                        if key not in mapping_by_name:
                            i, j, h = key
                            off = wb * i + 8 * j + 4 * h
                            if all(("state", off + b) in memvals for b in range(4)):
                                mv = sum(memvals[("state", off + b)] << (8 * b) for b in range(4))
                                if mv == want:
                                    mapping_by_name[key] = ("memgroup", off, False)
                                elif mv == (~want & M32):
                                    mapping_by_name[key] = ("memgroup", off, True)
                    if len(mapping_by_name) != len(keys):
                        errors.append("first_round=%d: cannot identify the share halves at the loop head (%d of %d found)" % (k, len(mapping_by_name), len(keys))); ok = False; break
                posmap = {}
                names = {(d[0], d[1]): pos for pos, d in enumerate(s.out_desc)}
                mempos = {(d[1], d[2]): pos for pos, d in enumerate(s.out_desc) if d[0] == "mem"}
                for key, (kind, nm, inv) in mapping_by_name.items():
                    if kind == "memgroup":
                        if not all(("state", nm + b) in mempos for b in range(4)):
                            errors.append("first_round=%d: share bytes at state+%d not symbolic at cut %d" % (k, nm, si)); ok = False; break
                        posmap[key] = ([mempos[("state", nm + b)] for b in range(4)], inv)
                        continue
                    if (kind, nm) not in names:
                        errors.append("first_round=%d: share variable %s missing at cut %d" % (k, nm, si)); ok = False; break
                    posmap[key] = (names[(kind, nm)], inv)
                if not ok:
                    break
                out_if = iface_id(widths, var_value_prog(n, posmap))
                outs = s.outs
                rounds = [k + si - 1] if si >= 1 else []
            else:
                out_if = mem_if
                outs = s.outs[:mem_total]
                rounds = [k + si - 1] if (si >= 1 and k + si - 1 < 12) else []
            text = "{| vs_prog := %s; vs_in := %d; vs_out := %d; vs_rounds := [%s] |}" % (s.b.coq_prog(outs), cur_if, out_if, "; ".join(map(str, rounds)))
            h = hashlib.sha1(text.encode()).hexdigest()[:12]
            if h not in segtab:
                segtab[h] = (len(segtab), text)
            ids.append(segtab[h][0])
            cur_if = out_if
        if ok:
            chains[k] = ids
    return ifaces, segtab, chains, errors, (entry_if if chains else 0), mem_if


PARTS = {2: 1, 3: 2, 4: 4}      # number of segment files per kernel (they compile in parallel)
HDR = "(* GENERATED by tools/kern_masked_c32.py from /repo's current source (%s: 32-bit masked backend, clang -O1 LLVM IR, -DASCON_FORCE_C32) *)"
PRE = ["From Coq Require Import List NArith.", "From AsconV Require Import Sym.Wexpr Sym.VKernel.", "Import ListNotations.", "Local Open Scope nat_scope.", ""]


def emit(name, ifaces, segtab, chains, gen, entry_if, exit_if, nparts, std=None):
    """Gen/Masked_<name>_if.v (interfaces), Gen/Masked_<name>_p<i>.v (segments, contiguous chunks),
    Gen/MaskedObl_<name>_p<i>.v (per-chunk reflective check), Gen/Masked_<name>.v (concatenation, entry/exit, chains),
    Gen/MaskedObl_<name>.v (vbackend_ok from the parts, Obl/KernMaskedParts.vbackend_ok_parts)"""
    L = [HDR % name] + PRE
    for idx, (widths, vprog) in enumerate(ifaces):
        L.append("Definition %s_if%d : viface := {| vi_w := [%s]; vi_val := %s |}." % (name, idx, "; ".join(map(str, widths)), vprog))
    L.append("Definition %s_ifaces : list viface := [%s]." % (name, "; ".join("%s_if%d" % (name, i) for i in range(len(ifaces)))))
    write_if_changed(os.path.join(gen, "Masked_%s_if.v" % name), "\n".join(L) + "\n")
    items = sorted(segtab.values())
    per = max(1, -(-len(items) // nparts))
    chunks = [items[i * per:(i + 1) * per] for i in range(nparts)]
    for pi, chunk in enumerate(chunks):
        L = [HDR % name] + PRE
        for idx, text in chunk:
            L.append("Definition %s_seg%d : vseg := %s." % (name, idx, text))
        L.append("Definition %s_segs_p%d : list vseg := [%s]." % (name, pi, "; ".join("%s_seg%d" % (name, idx) for idx, _ in chunk)))
        write_if_changed(os.path.join(gen, "Masked_%s_p%d.v" % (name, pi)), "\n".join(L) + "\n")
        write_if_changed(os.path.join(gen, "MaskedObl_%s_p%d.v" % (name, pi)),
            "(* GENERATED: part %d of the obligation for %s (every segment: value_out (segment v) = round (value_in v) for all v) *)\n"
            "From Coq Require Import List.\nFrom AsconV Require Import Sym.VKernel Gen.Masked_%s_if Gen.Masked_%s_p%d.\n"
            "Lemma %s_p%d_ok : forallb (check_vseg %s_ifaces) %s_segs_p%d = true. Proof. vm_compute. reflexivity. Qed.\n"
            % (pi, name, name, name, pi, name, pi, name, name, pi))
    L = [HDR % name, "From Coq Require Import List NArith.",
         "From AsconV Require Import Sym.Wexpr Sym.VKernel Gen.Masked_%s_if %s." % (name, " ".join("Gen.Masked_%s_p%d" % (name, pi) for pi in range(nparts))),
         "From AsconV Require Export Gen.Masked_%s_if." % name,
         "Import ListNotations.", "Local Open Scope nat_scope.", ""]
    L.append("Definition %s_parts : list (list vseg) := [%s]." % (name, "; ".join("%s_segs_p%d" % (name, pi) for pi in range(nparts))))
    L.append("Definition %s_segs : list vseg := concat %s_parts." % (name, name))
    L.append("Definition %s_entry : nat := %d." % (name, entry_if))
    L.append("Definition %s_exit : nat := %d." % (name, exit_if))
    L.append("Definition %s_chains : list (nat * list nat) := [%s]." % (name, "; ".join("(%d, [%s])" % (k, "; ".join(map(str, chains[k]))) for k in sorted(chains))))
    write_if_changed(os.path.join(gen, "Masked_%s.v" % name), "\n".join(L) + "\n")
    conj = " ".join("(conj %s_p%d_ok" % (name, pi) for pi in range(nparts)) + " I" + ")" * nparts
    write_if_changed(os.path.join(gen, "MaskedObl_%s.v" % name),
        "(* GENERATED: the obligation for %s, assembled from its parts (which make checks in parallel) *)\n"
        "From Coq Require Import List.\nFrom AsconV Require Import Sym.VKernel Obl.KernMaskedDefs Obl.KernMaskedParts Gen.Masked_%s %s.\n"
        "Lemma %s_struct_ok : vstruct_ok %s_entry %s_exit (concat %s_parts) %s_chains = true. Proof. vm_compute. reflexivity. Qed.\n"
        "Lemma %s_ok : vbackend_ok %s_ifaces %s_entry %s_exit %s_segs %s_chains = true.\n"
        "Proof. exact (vbackend_ok_parts %s_ifaces %s_entry %s_exit %s_parts %s_chains %s %s_struct_ok). Qed.\n"
        % (name, name, " ".join("Gen.MaskedObl_%s_p%d" % (name, pi) for pi in range(nparts)),
           name, name, name, name, name,
           name, name, name, name, name, name,
           name, name, name, name, name, conj, name) +
        # std = (shares, MAX_SHARES): the entry / exit value programs are the hand-written Obl/MWordSpec.state_val (syntactic check)
        ("Lemma %s_std_ok : vstd_ok MWordSpec.B32 %d %d %s_ifaces %s_entry %s_exit = true. Proof. vm_compute. reflexivity. Qed.\n"
         % (name, std[0], std[1], name, name, name) if std else ""))
    # stale part files of an earlier run with more parts
    pi = nparts
    while os.path.exists(os.path.join(gen, "Masked_%s_p%d.v" % (name, pi))):
        for f in ("Masked_%s_p%d" % (name, pi), "MaskedObl_%s_p%d" % (name, pi)):
            for ext in (".v", ".vo", ".vok", ".vos", ".glob"):
                try:
                    os.remove(os.path.join(gen, f + ext))
                except OSError:
                    pass
        pi += 1


def main(repo, gen):
    report = {}
    for n in (2, 3, 4):
        name = "mx%d_c32" % n
        t0 = time.time()
        try:
            ifaces, segtab, chains, errors, ein, eout = run_kernel(name, n, llvm_provider(repo, n))
        except Stuck as ex:
            ifaces, segtab, chains, errors, ein, eout = [], {}, {}, [str(ex)], 0, 0
        emit(name, ifaces, segtab, chains, gen, ein, eout, PARTS[n], std=(n, MAXS))
        for e in errors:
            print("MISSING kern_masked_c32 %s: %s" % (name, e))
        print("kern_masked_c32 %s: %d interfaces, %d segments in %d files, %d chains (%.1f s)" % (name, len(ifaces), len(segtab), PARTS[n], len(chains), time.time() - t0))
        report[name] = {"file": "src/masking/ascon-x%d-c32.c" % n, "function": "ascon_x%d_permute" % n, "interfaces": len(ifaces),
                        "segments": len(segtab), "chains": len(chains), "errors": errors, "seconds": round(time.time() - t0, 2)}
    kd = os.path.join(os.path.dirname(gen), "..", "build", "kern")
    os.makedirs(kd, exist_ok=True)
    json.dump(report, open(os.path.join(kd, "masked_c32.json"), "w"), indent=1)


if __name__ == "__main__":
    repo = sys.argv[1] if len(sys.argv) > 1 else os.environ.get("VERIF_REPO", "/repo")
    gen = os.path.join(os.path.dirname(os.path.dirname(os.path.abspath(__file__))), "coq", "Gen")
    os.makedirs(gen, exist_ok=True)
    main(repo, gen)
