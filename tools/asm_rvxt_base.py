"""Shared machinery of the RISC-V and Xtensa front ends of the symbolic
executor (tools/asm_riscv.py, tools/asm_xtensa.py; same method as
tools/asm_x86.py): preprocessing, a line parser, and a register machine over
symx values whose runs are cut into llvmx.Segment chains at local labels.

Every function is executed twice for each first_round:

  pass 1 ("trace")  no cuts.  Records, per executed instruction, the set of
         locations read and written (registers, memory bytes) and where the
         cut labels were passed; checks the ABI/frame facts at the return
         (callee-saved registers are opaque `Init` objects that can only be
         moved, spilled and reloaded, so "holds its entry value" is object
         identity); a backward liveness pass gives the live set at each cut.
  pass 2 ("cut")    cuts at the labels.  Only locations live at the cut become
         interface variables of the segment; every other symbolic register or
         memory byte is poisoned (DEAD / uninitialised), so a later read of it
         is Stuck: a wrong liveness result cannot produce a wrong chain, only a
         missing one.  Memory words (XLEN bits, aligned) that are live are
         exported as one variable; register pairs named by the front end
         (Xtensa: a 64-bit state word lives in two 32-bit registers) are
         exported as the concatenation hi:lo and split again on the other
         side.  These two re-encodings are identities applied by the
         translator at the cut (trusted like the cut itself).

Control flow, addresses, shift counts must be concrete (else Stuck); loads
and stores must hit a declared region; stack accesses must lie in
[sp, entry sp) and be naturally aligned."""
import re, subprocess, hashlib, json, os
from symx import Builder, Memory, V, Stuck, mask
from llvmx import Ptr, Segment


class RetAddr:
    """the return address the caller passed (ra / a0)"""
    def __repr__(self):
        return "<return address>"


class Init:
    """entry value of a register the callee must preserve: opaque, can only be moved / spilled / reloaded"""
    def __init__(self, reg):
        self.reg = reg

    def __repr__(self):
        return "<entry value of %s>" % self.reg


class _Dead:
    def __repr__(self):
        return "<dead>"


DEAD = _Dead()


def preprocess(path, incs=(), defs=()):
    """gcc -E with -undef: no host (x86-64, linux, GNUC) macros, only the target macros in defs"""
    cmd = ["gcc", "-E", "-undef", "-D__ELF__", "-x", "assembler-with-cpp"] + ["-I" + i for i in incs] + ["-D" + d for d in defs] + [path]
    p = subprocess.run(cmd, stdout=subprocess.PIPE, stderr=subprocess.PIPE)
    if p.returncode != 0:
        raise Stuck("gcc -E failed: " + p.stderr.decode()[-500:])
    return p.stdout.decode()


def split_ops(s):
    out, depth, cur = [], 0, ""
    for ch in s:
        if ch == "(":
            depth += 1
        elif ch == ")":
            depth -= 1
        if ch == "," and depth == 0:
            out.append(cur.strip()); cur = ""
        else:
            cur += ch
    if cur.strip():
        out.append(cur.strip())
    return out


def is_text_section(name):
    return name == ".text" or name.startswith(".text.") or name == ".irom0.text"


DATA_DIRECTIVES = (".byte", ".half", ".short", ".word", ".long", ".quad", ".dword", ".2byte", ".4byte", ".8byte", ".ascii", ".asciz", ".string", ".zero", ".space", ".fill", ".literal")


def parse(text):
    """-> items: ('label', name) | ('ins', mnemonic, [operands]) of the text sections; directives: [(name, args)].
    Data emitted into a text section is refused (the files have none: a literal in the instruction stream would
    be executed by this model as nothing)."""
    items, directives = [], []
    section = ".text"
    for raw in text.split("\n"):
        line = raw.strip()
        if not line or line.startswith("#"):           # cpp line markers; '#' starts a comment for both assemblers
            continue
        line = line.split("#")[0].strip()
        for part in line.split(";"):
            part = part.strip()
            while part:
                m = re.match(r"^([.\w$]+):\s*(.*)$", part)
                if not m:
                    break
                if is_text_section(section):
                    items.append(("label", m.group(1)))
                part = m.group(2).strip()
            if not part:
                continue
            toks = part.split(None, 1)
            head, rest = toks[0], (toks[1] if len(toks) > 1 else "")
            if head.startswith("."):
                directives.append((head, rest))
                if head == ".text":
                    section = ".text"
                elif head in (".data", ".rodata", ".bss"):
                    section = head
                elif head == ".section":
                    section = rest.split(",")[0].strip()
                elif head in DATA_DIRECTIVES and is_text_section(section):
                    raise Stuck("data directive %s inside a text section" % head)
                continue
            if is_text_section(section):
                items.append(("ins", head, split_ops(rest)))
    return items, directives


def histogram(items):
    h = {}
    for it in items:
        if it[0] == "ins":
            h[it[1]] = h.get(it[1], 0) + 1
    return h


def function_items(items, entry):
    """mnemonic histogram of one function: from its label to the next non-local label"""
    out, on = [], False
    for it in items:
        if it[0] == "label" and not it[1].startswith(".L"):
            on = it[1] == entry
            continue
        if on:
            out.append(it)
    return out


def sx(n, bits):
    n &= mask(bits)
    return n - (1 << bits) if n >> (bits - 1) else n


class Machine:
    """Register machine.  Subclasses give XLEN, REGS, SP, default_spec(), step(), at_return facts."""
    XLEN = 32
    REGS = []
    SP = "sp"

    def __init__(self, items, entry, regs_init, regions, cut=None, mode="cut", live=None, pairs=(), stack_size=256):
        self.items = items
        self.labels = {}
        for i, it in enumerate(items):
            if it[0] == "label":
                if it[1] in self.labels:
                    raise Stuck("label defined twice: " + it[1])
                self.labels[it[1]] = i
        if entry not in self.labels:
            raise Stuck("function %s is not defined in the preprocessed file (wrong target macros?)" % entry)
        self.b = Builder()
        self.mem = Memory(self.b)
        self.region_order = []
        self.seg_in_desc = []
        for name, spec in regions.items():
            self.mem.add(name, spec["size"], init=spec.get("init"), symbolic=spec.get("symbolic", False), writable=spec.get("writable", True))
            self.region_order.append(name)
            if spec.get("symbolic"):
                self.seg_in_desc += [("mem", name, i) for i in range(spec["size"])]
        self.mem.add("stack", stack_size)
        self.stack_size = stack_size
        self.entry_sp = stack_size
        self.regs, self.init_regs = {}, {}
        for r in self.REGS:
            spec = regs_init.get(r) or self.default_spec(r)
            if spec[0] == "ptr":
                v = Ptr(spec[1], spec[2])
            elif spec[0] == "int":
                v = self.b.const(self.XLEN, spec[1])
            elif spec[0] == "init":
                v = Init(r)
            elif spec[0] == "ret":
                v = RetAddr()
            elif spec[0] == "sp":
                v = Ptr("stack", stack_size)
            else:
                v = self.b.inp(self.XLEN)
                self.seg_in_desc.append(("reg", r, self.XLEN))
            self.regs[r] = v
            self.init_regs[r] = v
        self.objs = {}              # stack offset -> non-bit-vector object stored there (pointer, Init, RetAddr)
        self.cut, self.mode = cut, mode
        self.live_sets = live or []
        self.pairs = list(pairs)
        self.ncut = 0
        self.segments = []
        self.pc = self.labels[entry]
        self.min_sp = stack_size
        self.steps = 0
        self.done = False
        self.trace = []             # pass 1: ('ins', uses, defs) | ('cut', label)
        self.uses, self.defs = set(), set()
        self.cut_labels_seen = []
        self.snap = None            # register snapshot at the first cut label (pass 1), for the pairing discovery
        self.executed = {}

    # ---- registers
    def default_spec(self, r):
        return ("sym",)

    def canon(self, name):
        return name

    def get(self, name):
        r = self.canon(name)
        self.uses.add(("r", r))
        v = self.regs[r]
        if v is DEAD:
            raise Stuck("register %s is read but was classified dead at the previous cut (translator liveness error)" % r)
        return v

    def put(self, name, v):
        r = self.canon(name)
        self.defs.add(("r", r))
        if r == self.SP:
            if not isinstance(v, Ptr) or v.region != "stack":
                raise Stuck("stack pointer set to something that is not a stack address")
            if v.off < 0:
                raise Stuck("stack overflow in the model (frame larger than %d bytes)" % self.stack_size)
            if v.off > self.entry_sp:
                raise Stuck("stack pointer raised above its entry value")
            self.min_sp = min(self.min_sp, v.off)
        self.regs[r] = v

    def val(self, name, what="operand"):
        v = self.get(name)
        if not isinstance(v, V):
            raise Stuck("bit operation on %s held in %s (%s)" % (v, name, what))
        return v

    def conc(self, v, what):
        if not isinstance(v, V) or not v.is_conc():
            raise Stuck("data-dependent " + what)
        return v.conc

    # ---- memory
    def _resolve(self, base, disp, n, what):
        if not isinstance(base, Ptr):
            raise Stuck("data-dependent address (base of a %s is %s, not a pointer)" % (what, base))
        if base.region is None:
            raise Stuck("null pointer dereference")
        off = base.off + disp
        if off % n:
            raise Stuck("misaligned %d-byte %s at %s+%d" % (n, what, base.region, off))
        if base.region == "stack":
            sp = self.regs[self.SP]
            if off < sp.off:
                raise Stuck("stack %s below the stack pointer (outside the function's frame)" % what)
            if off + n > self.entry_sp:
                raise Stuck("stack %s at or above the entry stack pointer (the caller's frame)" % what)
        return base.region, off

    def load(self, base, disp, n):
        region, off = self._resolve(base, disp, n, "load")
        for i in range(n):
            self.uses.add(("m", region, off + i))
        if region == "stack":
            hit = [k for k in self.objs if self.objs[k] is not None and k < off + n and off < k + self.XLEN // 8]
            if hit:
                if hit == [off] and n == self.XLEN // 8:
                    self.b.leak.append(("R", region, off, n))
                    return self.objs[off]
                raise Stuck("partial load of a spilled pointer / saved register")
        return self.mem.load(region, off, n)

    def store(self, base, disp, v, n):
        region, off = self._resolve(base, disp, n, "store")
        for i in range(n):
            self.defs.add(("m", region, off + i))
        if v is DEAD:
            raise Stuck("store of a dead value")
        if not isinstance(v, V):
            if region != "stack":
                raise Stuck("pointer / saved register stored outside the stack")
            if n != self.XLEN // 8:
                raise Stuck("narrow store of a pointer / saved register")
            self.mem.regions[region].check(off, n, "write")
            self.b.leak.append(("W", region, off, n))
            for k in list(self.objs):
                if k < off + n and off < k + n:
                    self.objs[k] = None
            for i in range(n):
                self.mem.regions[region].cells[off + i] = None
            self.objs[off] = v
            return
        if region == "stack":
            for k in list(self.objs):
                if self.objs[k] is not None and k < off + n and off < k + self.XLEN // 8:
                    self.objs[k] = None
        if v.w != 8 * n:
            v = self.b.trunc(v, 8 * n)
        self.mem.store(region, off, v)

    # ---- cut
    def _word(self, rn, off, n):
        keep = len(self.b.leak)
        v = self.mem.load(rn, off, n)
        del self.b.leak[keep:]
        return v

    def do_cut(self, label):
        if self.ncut >= len(self.live_sets):
            raise Stuck("cut %d has no liveness information (pass 1 and pass 2 took different paths)" % self.ncut)
        lab1, live = self.live_sets[self.ncut]
        if lab1 != label:
            raise Stuck("pass 1 and pass 2 disagree on the cut label (%s vs %s)" % (lab1, label))
        self.ncut += 1
        vals, desc, binds, kill_regs, kill_cells = [], [], [], [], []

        def symb(v):
            return isinstance(v, V) and not v.is_conc()
        paired = set()
        for hi, lo in self.pairs:
            vh, vl = self.regs[hi], self.regs[lo]
            if symb(vh) and symb(vl) and ("r", hi) in live and ("r", lo) in live and hi not in paired and lo not in paired:
                vals.append(self.b.concat(vh, vl)); desc.append(("reg", hi + ":" + lo, 2 * self.XLEN)); binds.append(("pair", hi, lo))
                paired |= {hi, lo}
        for r in self.REGS:
            v = self.regs[r]
            if r in paired or not symb(v):
                continue
            if ("r", r) in live:
                vals.append(v); desc.append(("reg", r, self.XLEN)); binds.append(("reg", r))
            else:
                kill_regs.append(r)
        wb = self.XLEN // 8
        for rn in sorted(self.mem.regions):
            reg = self.mem.regions[rn]
            if not reg.writable:
                continue
            for w0 in range(0, reg.size, wb):
                cells = reg.cells[w0:w0 + wb]
                sym_i = [i for i, c in enumerate(cells) if c is not None and not self.mem._cell_val(c).is_conc()]
                live_i = [i for i in sym_i if ("m", rn, w0 + i) in live]
                for i in sym_i:
                    if i not in live_i:
                        kill_cells.append((rn, w0 + i))
                if not live_i:
                    continue
                if len(live_i) == wb == len(cells):
                    vals.append(self._word(rn, w0, wb)); desc.append(("memw", "%s+%d" % (rn, w0), self.XLEN)); binds.append(("memw", rn, w0))
                else:
                    for i in live_i:
                        vals.append(self.mem._cell_val(cells[i])); desc.append(("mem", rn, w0 + i)); binds.append(("mem", rn, w0 + i))
        self.segments.append(Segment(self.b, self.seg_in_desc, vals, desc))
        nb = Builder()
        self.b = nb
        self.mem.b = nb
        for bd, v in zip(binds, vals):
            nv = nb.inp(v.w)
            if bd[0] == "reg":
                self.regs[bd[1]] = nv
            elif bd[0] == "pair":
                self.regs[bd[2]] = nb.trunc(nv, self.XLEN)
                self.regs[bd[1]] = nb.trunc(nb.lshr(nv, self.XLEN), self.XLEN)
            elif bd[0] == "memw":
                for i in range(wb):
                    self.mem.regions[bd[1]].cells[bd[2] + i] = ("b", nv, i)
            else:
                self.mem.regions[bd[1]].cells[bd[2]] = ("v", nv)
        for r in kill_regs:
            self.regs[r] = DEAD
        for rn, i in kill_cells:
            self.mem.regions[rn].cells[i] = None
        self.seg_in_desc = desc

    # ---- run
    def run(self, max_steps=100000):
        while not self.done:
            if self.pc >= len(self.items):
                raise Stuck("execution ran off the end of the file")
            it = self.items[self.pc]
            self.pc += 1
            if it[0] == "label":
                if not it[1].startswith(".L") and self.steps:
                    raise Stuck("execution fell through into %s" % it[1])
                if self.cut and self.cut(it[1]):
                    self.cut_labels_seen.append(it[1])
                    if self.mode == "trace":
                        self.trace.append(("cut", it[1]))
                        if self.snap is None:
                            self.snap = dict(self.regs)
                    else:
                        self.do_cut(it[1])
                continue
            self.steps += 1
            if self.steps > max_steps:
                raise Stuck("step limit exceeded")
            self.uses, self.defs = set(), set()
            self.executed[it[1]] = self.executed.get(it[1], 0) + 1
            try:
                self.step(it[1], it[2])
            except (ValueError, IndexError, KeyError) as ex:
                raise Stuck("cannot decode `%s %s`: %s" % (it[1], ", ".join(it[2]), ex))
            if self.mode == "trace":
                self.trace.append(("ins", self.uses, self.defs))
        outs, desc = [], []
        for rn in self.region_order:
            r = self.mem.regions[rn]
            if not r.writable:
                continue
            for i, c in enumerate(r.cells):
                outs.append(None if c is None else self.mem._cell_val(c)); desc.append(("mem", rn, i))
        self.final_regs = dict(self.regs)
        self.segments.append(Segment(self.b, self.seg_in_desc, outs, desc))
        return self.segments

    def jump(self, label):
        if label not in self.labels:
            raise Stuck("jump to unknown label " + label)
        self.b.leak.append(("J", label))
        self.pc = self.labels[label]          # the label item itself is processed (cut) on arrival

    def branch(self, op, take, label):
        self.b.leak.append(("C", op, bool(take)))
        if take:
            self.jump(label)

    def imm(self, s, lo, hi, what, mult=1):
        n = int(s, 0)
        if n < lo or n > hi or n % mult:
            raise Stuck("%s immediate %d not encodable (range %d..%d, multiple of %d)" % (what, n, lo, hi, mult))
        return n

    def bit2(self, f, a, b):
        if a is DEAD or b is DEAD:
            raise Stuck("dead operand")
        return f(a, b)

    # ---- after pass 1
    def live_at_cuts(self, final_live):
        live = set(final_live)
        out = []
        for ev in reversed(self.trace):
            if ev[0] == "cut":
                out.append((ev[1], frozenset(live)))
            else:
                live = (live - ev[2]) | ev[1]
        return out[::-1]

    def frame_facts(self, preserved, sp_expected):
        """at the return: every register in `preserved` holds the object it held on entry; sp as expected"""
        bad = [r for r in preserved if self.final_regs[r] is not self.init_regs[r]]
        sp = self.final_regs[self.SP]
        facts = {"callee_saved_ok": not bad, "sp_ok": isinstance(sp, Ptr) and sp.region == "stack" and sp.off == sp_expected,
                 "frame_bytes": self.entry_sp - self.min_sp, "instructions": self.steps}
        if bad:
            raise Stuck("callee-saved register(s) not restored at return: " + ", ".join(bad))
        if not facts["sp_ok"]:
            raise Stuck("stack pointer at return is %s, expected stack+%d" % (sp, sp_expected))
        return facts

    def leak_hash(self):
        h = hashlib.sha256()
        for s in self.segments:
            h.update(repr(s.b.leak).encode())
        return h.hexdigest()[:16]


class FactFile:
    """build/kern/<name>.json: the ABI / frame facts and counts of one backend, for the C18 evidence"""

    def __init__(self, name, meta):
        self.name = name
        self.data = dict(meta)
        self.data.update({"name": name, "per_first_round": {}, "callee_saved_ok": None, "frame_bytes": None})
        root = os.path.dirname(os.path.dirname(os.path.abspath(__file__)))
        self.path = os.path.join(root, "build", "kern", name + ".json")

    def record(self, k, facts):
        self.data["per_first_round"][str(k)] = facts
        rounds = self.data["per_first_round"].values()
        self.data["callee_saved_ok"] = all(f.get("callee_saved_ok") and f.get("sp_ok") for f in rounds)
        fb = sorted(set(f["frame_bytes"] for f in rounds if f.get("frame_bytes") is not None))
        self.data["frame_bytes"] = fb[0] if len(fb) == 1 else fb
        self.write()

    def fail(self, k, msg):
        self.data["per_first_round"][str(k)] = {"callee_saved_ok": False, "error": msg}
        self.data["callee_saved_ok"] = False
        self.write()

    def write(self):
        os.makedirs(os.path.dirname(self.path), exist_ok=True)
        with open(self.path, "w") as f:
            json.dump(self.data, f, indent=1, sort_keys=True)


def two_pass(make, final_live, preserved, sp_expected, pairs_of=None):
    """make(mode, live, pairs) -> Machine.  Returns (segments, facts)."""
    m1 = make("trace", None, ())
    m1.run()
    facts = m1.frame_facts(preserved, sp_expected(m1))
    facts["leak_trace_sha256_16"] = m1.leak_hash()
    facts["cut_labels"] = list(m1.cut_labels_seen)
    acc = {}
    for ev in m1.segments[0].b.leak:                     # every load / store with its (concrete) region and offset
        if ev[0] in ("R", "W"):
            lo = ev[2] - m1.entry_sp if ev[1] == "stack" else ev[2]          # stack offsets relative to the entry sp
            a = acc.setdefault(ev[1], {"loads": 0, "stores": 0, "lowest_offset": lo, "end_offset": lo + ev[3]})
            a["loads" if ev[0] == "R" else "stores"] += 1
            a["lowest_offset"], a["end_offset"] = min(a["lowest_offset"], lo), max(a["end_offset"], lo + ev[3])
    facts["accesses"] = acc
    live = m1.live_at_cuts(final_live)
    pairs = pairs_of(m1) if pairs_of else ()
    m2 = make("cut", live, pairs)
    segs = m2.run()
    if m2.steps != m1.steps:
        raise Stuck("pass 1 and pass 2 executed different instruction counts")
    leak2 = [x for s in segs for x in s.b.leak]
    if leak2 != m1.segments[0].b.leak:
        raise Stuck("pass 1 and pass 2 have different control-flow / address traces")
    facts["segments"] = len(segs)
    facts["interface_vars"] = [len(s.outs) for s in segs[:-1]]
    return segs, facts
