#!/usr/bin/env python3
"""tools/skeleton.py - the (T) tie of the acquire/release clause of C09.

From the CURRENT source of the repository under test ($VERIF_REPO or argv[1],
default /repo) this extracts, for every build configuration

    back end   x86_64 (default on this host), c64, c32, directxor, generic,
               checkar (= generic + ASCON_CHECK_ACQUIRE_RELEASE, what
               cmake -DCHECK_ACQUIRE_RELEASE=ON compiles)
    shares     every valid (key, data, max) triple, data <= key <= max,
               key in 2..4, data in 1..4, max in 2..4   (16 triples)

the *event skeleton* of every function defined in src/**/*.c (and, for the
files that are assembled on this host, src/**/*.S) that can reach a call of
ascon_init / ascon_acquire / ascon_release / ascon_free or a call through a
function pointer: the function's control flow restricted to those events and
to calls of other functions that have a skeleton.  The source of truth is
`clang -fsyntax-only -Xclang -ast-dump=json` (C99, -I src, no config.h, the
configuration's -D flags); macros are expanded in the AST.  The walk handles:
compound statements, declarations with initialisers, if/else, while, do-while,
for, switch (case labels directly in the switch body), break, continue, return,
&&, ||, ?:, the comma operator, statement expressions, direct calls, calls
through pointers (event `callback`), sizeof (unevaluated).  Anything else that
matters - goto/labels, a case label nested inside another statement, two
event-bearing operands whose evaluation order C leaves unspecified, taking the
address of an event-bearing function, a library function that is called but
not defined in the configuration, recursion - is reported as
`MISSING skeleton <function>: <why>` (tools/gen_all.py turns MISSING lines
into violations).  Assembly files are not parsed by clang: their global
functions get the skeleton "any number of calls, in any order, of the symbols
the function's code transfers control to" (call/jmp to non-local symbols).

Output: coq/Gen/Skeleton_<backend>.v (one `config` record of Model/Skel.v per
share triple: table in callees-first order, the public entry points = functions
declared in src/ascon/*.h, and for every public function whose behaviour from
the clear flag is not "never aborts, ends clear" one concrete offending path),
build/skeleton.json (report: per configuration the classification of every
function by its computed entry/exit behaviour, offending paths with file:line
steps), lines on stdout:

    MISSING skeleton ...                      real gaps of the walk
    UNBALANCED <config> <function>: <path>    public functions that are not balanced
    skeleton: <summary>

Caching (content hashes): each translation unit is preprocessed (`clang -E`)
per configuration; the AST is dumped and walked once per distinct preprocessed
text (build/skeleton/tu/<sha>.json); when neither src/ nor this tool changed
the whole run is skipped.  --force ignores both caches.

The AST-to-skeleton walk (this file) is TRUSTED; what Coq proves is that the
emitted tables satisfy the balance property (Props/Properties_C09_skel.v)."""
import sys, os, re, json, hashlib, subprocess, time, argparse, tempfile
from concurrent.futures import ProcessPoolExecutor

VERIF = os.path.dirname(os.path.dirname(os.path.abspath(__file__)))
TOOL_VERSION = "skeleton-3"

BACKENDS = [
    ("x86_64", []),
    ("c64", ["-DASCON_FORCE_C64"]),
    ("c32", ["-DASCON_FORCE_C32"]),
    ("directxor", ["-DASCON_FORCE_DIRECT_XOR"]),
    ("generic", ["-DASCON_FORCE_GENERIC"]),
    ("checkar", ["-DASCON_FORCE_GENERIC", "-DASCON_CHECK_ACQUIRE_RELEASE"]),
]
TRIPLES = [(k, d, m) for m in (2, 3, 4) for k in range(2, m + 1) for d in range(1, k + 1)]
DEFAULT_TRIPLE = (4, 2, 4)
SHARE_MACROS = (b"ASCON_MASKED_KEY_SHARES", b"ASCON_MASKED_DATA_SHARES", b"ASCON_MASKED_MAX_SHARES", b"HAVE_CONFIG_H")
EVENTS = {"ascon_init": "init", "ascon_acquire": "acquire", "ascon_release": "release", "ascon_free": "free"}
COQ_EV = {"init": "EInit", "acquire": "EAcquire", "release": "ERelease", "free": "EFree", "callback": "ECallback"}


def share_flags(t):
    return ["-DASCON_MASKED_KEY_SHARES=%d" % t[0], "-DASCON_MASKED_DATA_SHARES=%d" % t[1], "-DASCON_MASKED_MAX_SHARES=%d" % t[2]]


def cfg_name(backend, t):
    return "%s-%d%d%d" % (backend, t[0], t[1], t[2])


# ---------------------------------------------------------------------------
# step 1: preprocessing (cache key + dependencies)

def base_args(repo, incdir, path):
    a = ["clang", "-std=c99", "-I", os.path.join(repo, "src"), "-I", incdir, "-Wno-everything"]
    if path.endswith(".S"):
        a += ["-x", "assembler-with-cpp"]
    return a


def job_pre(args):
    repo, incdir, path, flags = args
    fd, dep = tempfile.mkstemp(suffix=".d")
    os.close(fd)
    try:
        p = subprocess.run(base_args(repo, incdir, path) + flags + ["-E", "-MD", "-MF", dep, "-o", "-", path],
                           stdout=subprocess.PIPE, stderr=subprocess.PIPE, timeout=300)
        deps = []
        if os.path.exists(dep):
            txt = open(dep).read().replace("\\\n", " ")
            if ":" in txt:
                deps = [d for d in txt.split(":", 1)[1].split() if d]
    finally:
        if os.path.exists(dep):
            os.remove(dep)
    h = hashlib.sha256()
    h.update(TOOL_VERSION.encode()); h.update(os.path.relpath(path, repo).encode()); h.update(b"\0")
    # the key does not depend on where the tree lives (scratch copies share the cache); locations are stored relative
    h.update(p.stdout.replace(os.path.realpath(repo).encode(), b"$REPO").replace(incdir.encode(), b"$INC"))
    return {"rc": p.returncode, "hash": h.hexdigest(), "deps": deps, "err": p.stderr.decode("utf-8", "replace")[-800:],
            "text": p.stdout.decode("utf-8", "replace") if path.endswith(".S") else None}


# ---------------------------------------------------------------------------
# step 2: one translation unit -> raw skeletons
#
# raw nodes (JSON lists):  ["skip"] ["ev",e,loc] ["call",name,loc] ["cb",loc] ["addr",name,loc]
#   ["seq",[..]] ["alt",[..],loc,[labels]] ["unseq",[..],loc] ["rep",body,loc] ["catchb",b] ["catchc",b]
#   ["ret",loc] ["brk"] ["cnt"] ["missing",why,loc]   ["asm",[callees]]

SKIP = ["skip"]


def seq(xs):
    out = []
    for x in xs:
        if x[0] == "seq":
            out += x[1]
        elif x[0] != "skip":
            out.append(x)
    if not out:
        return SKIP
    return out[0] if len(out) == 1 else ["seq", out]


class TU:
    def __init__(self, doc, repo, path):
        self.repo = os.path.realpath(repo)
        self.path = path
        self.file = None
        self.line = None
        self.funcs = {}
        self.decls = {}        # name -> file of a declaration inside the repository
        self.public = set()
        self.taken = []        # functions whose address is taken in a file-scope initialiser: [name, where]
        self.annotate(doc)
        for n in doc.get("inner", []):
            if n.get("kind") == "FunctionDecl":
                self.function(n)
            elif n.get("kind") == "VarDecl" and self.in_repo(n.get("_loc")):
                self.cur = "<file scope>"
                self.collect_addr(seq([self.E(c) for c in self.kids(n)]))

    def collect_addr(self, r):
        if r[0] == "addr":
            self.taken.append([r[1], r[2]])
        elif r[0] in ("seq", "alt", "unseq"):
            for c in r[1]:
                self.collect_addr(c)
        elif r[0] in ("rep", "catchb", "catchc"):
            self.collect_addr(r[1])

    # -- locations: clang prints "file"/"line" only when they change, in document order
    def see(self, l):
        if not isinstance(l, dict):
            return None
        r = None
        if "spellingLoc" in l or "expansionLoc" in l:
            self.see(l.get("spellingLoc"))
            r = self.see(l.get("expansionLoc"))
            return r
        if "file" in l:
            self.file = l["file"]
        if "line" in l:
            self.line = l["line"]
        if "offset" in l or "line" in l or "file" in l:
            return (self.file, self.line)
        return None

    def annotate(self, n):
        stack = [n]
        # explicit stack, children pushed in reverse so that they are popped in document order
        while stack:
            n = stack.pop()
            if not isinstance(n, dict):
                continue
            here = None
            if "loc" in n:
                here = self.see(n["loc"])
            if "range" in n:
                b = self.see(n["range"].get("begin"))
                self.see(n["range"].get("end"))
                # after a range the "current" position is its end; restore nothing: clang elides relative to the last PRINTED one
                if here is None:
                    here = b
                n["_b"] = b
            n["_loc"] = here
            inner = n.get("inner")
            if inner:
                stack.extend(reversed(inner))

    def rel(self, loc):
        if not loc or not loc[0]:
            return "?"
        f = os.path.realpath(loc[0])
        if f.startswith(self.repo + os.sep):
            f = os.path.relpath(f, self.repo)
        return "%s:%s" % (f, loc[1])

    def in_repo(self, loc):
        return bool(loc and loc[0] and os.path.realpath(loc[0]).startswith(self.repo + os.sep))

    def function(self, n):
        name = n.get("name")
        loc = n.get("_loc")
        if not name:
            return
        if self.in_repo(loc):
            self.decls.setdefault(name, self.rel(loc))
            f = os.path.relpath(os.path.realpath(loc[0]), self.repo)
            if f.startswith("src/ascon/") and f.endswith(".h"):
                self.public.add(name)
        body = [c for c in n.get("inner", []) if isinstance(c, dict) and c.get("kind") == "CompoundStmt"]
        if not body or not self.in_repo(loc):
            return
        self.cur = name
        sk = self.S(body[0])
        self.funcs[name] = {"static": n.get("storageClass") == "static", "loc": self.rel(loc), "sk": sk}

    def where(self, n):
        return self.rel(n.get("_b") or n.get("_loc"))

    def kids(self, n):
        return [c for c in n.get("inner", []) or [] if isinstance(c, dict) and c.get("kind")]

    def const_cond(self, c):
        """0 / 1 when the controlling expression is an integer literal, else None"""
        while isinstance(c, dict) and c.get("kind") in ("ImplicitCastExpr", "ParenExpr", "ConstantExpr") and c.get("inner"):
            c = c["inner"][0]
        if isinstance(c, dict) and c.get("kind") == "IntegerLiteral":
            try:
                return 1 if int(c.get("value", "x"), 0) != 0 else 0
            except ValueError:
                return None
        return None

    def head(self, cond, n):
        """loop head: evaluate the condition, then leave or go on (constant conditions are decided)"""
        cc = self.const_cond(cond) if cond is not None and cond.get("kind") else 1
        if cc == 1:
            return SKIP
        if cc == 0:
            return ["brk"]
        return seq([self.E(cond), ["alt", [["brk"], SKIP], self.where(n), ["leave loop", "go on"]]])

    # -- statements
    def S(self, n):
        k = n.get("kind")
        if k is None:
            return SKIP
        if k == "CompoundStmt":
            return seq([self.S(c) for c in self.kids(n)])
        if k == "DeclStmt":
            out = []
            for d in self.kids(n):
                if d.get("kind") == "VarDecl":
                    out += [self.E(c) for c in self.kids(d)]
                elif d.get("kind") in ("TypedefDecl", "RecordDecl", "EnumDecl", "StaticAssertDecl", "FunctionDecl", "EmptyDecl"):
                    pass
                else:
                    out.append(["missing", "declaration kind " + str(d.get("kind")), self.where(d)])
            return seq(out)
        if k == "IfStmt":
            ks = n.get("inner", [])
            if n.get("hasInit") or n.get("hasVar") or len(ks) < 2:
                return ["missing", "if statement with init/condition variable", self.where(n)]
            cond, then = ks[0], ks[1]
            els = ks[2] if len(ks) > 2 else None
            return seq([self.E(cond), ["alt", [self.S(then), self.S(els) if els else SKIP], self.where(n), ["then", "else"]]])
        if k == "WhileStmt":
            ks = [c for c in n.get("inner", [])]
            if n.get("hasVar") or len(ks) != 2:
                return ["missing", "while statement with condition variable", self.where(n)]
            return ["rep", seq([self.head(ks[0], n), self.S(ks[1])]), self.where(n)]
        if k == "DoStmt":
            ks = [c for c in n.get("inner", [])]
            if len(ks) != 2:
                return ["missing", "do statement shape", self.where(n)]
            return ["rep", seq([["catchc", self.S(ks[0])], self.head(ks[1], n)]), self.where(n)]
        if k == "ForStmt":
            ks = [c for c in n.get("inner", [])]
            if len(ks) != 5:
                return ["missing", "for statement shape", self.where(n)]
            init, condvar, cond, inc, body = ks
            if isinstance(condvar, dict) and condvar.get("kind"):
                return ["missing", "for statement with condition variable", self.where(n)]
            return seq([self.S(init) if init.get("kind") else SKIP,
                        ["rep", seq([self.head(cond, n),
                                     ["catchc", self.S(body)],
                                     self.E(inc) if inc.get("kind") else SKIP]), self.where(n)]])
        if k == "ReturnStmt":
            return seq([self.E(c) for c in self.kids(n)] + [["ret", self.where(n)]])
        if k == "BreakStmt":
            return ["brk"]
        if k == "ContinueStmt":
            return ["cnt"]
        if k == "NullStmt":
            return SKIP
        if k == "AttributedStmt":
            ks = self.kids(n)
            return self.S(ks[-1]) if ks else SKIP
        if k == "SwitchStmt":
            return self.switch(n)
        if k in ("LabelStmt", "GotoStmt", "IndirectGotoStmt"):
            return ["missing", "goto / label", self.where(n)]
        if k in ("CaseStmt", "DefaultStmt"):
            return ["missing", "case label nested inside another statement", self.where(n)]
        if k in ("GCCAsmStmt", "MSAsmStmt"):
            return SKIP           # inline assembly: no calls assumed (none of the repository's inline asm has any)
        if k.endswith(("Expr", "Operator", "Literal")):
            return self.E(n)
        return ["missing", "statement kind " + k, self.where(n)]

    def switch(self, n):
        ks = [c for c in n.get("inner", [])]
        if n.get("hasInit") or n.get("hasVar") or len(ks) != 2 or ks[1].get("kind") != "CompoundStmt":
            return ["missing", "switch statement shape", self.where(n)]
        items, entries, has_default = [], [], False
        for c in self.kids(ks[1]):
            while c.get("kind") in ("CaseStmt", "DefaultStmt"):
                if c.get("kind") == "DefaultStmt":
                    has_default = True
                entries.append(len(items))
                sub = self.kids(c)
                c = sub[-1] if sub else {"kind": "NullStmt"}     # CaseStmt: [value expr(s)..., sub-statement]
            items.append(self.S(c))
        alts, labels = [], []
        for e in sorted(set(entries)):
            alts.append(seq(items[e:])); labels.append("case entry %d" % e)
        if not has_default:
            alts.append(SKIP); labels.append("no case matches")
        if not alts:
            return self.E(ks[0])
        body = alts[0] if len(alts) == 1 else ["alt", alts, self.where(n), labels]
        return seq([self.E(ks[0]), ["catchb", body]])

    # -- expressions
    def callee(self, c):
        while isinstance(c, dict) and c.get("kind") in ("ImplicitCastExpr", "ParenExpr") and c.get("inner"):
            c = c["inner"][0]
        if isinstance(c, dict) and c.get("kind") == "DeclRefExpr" and c.get("referencedDecl", {}).get("kind") == "FunctionDecl":
            return c["referencedDecl"].get("name")
        return None

    def E(self, n):
        k = n.get("kind")
        if k is None:
            return SKIP
        ks = self.kids(n)
        if k == "CallExpr":
            name = self.callee(ks[0]) if ks else None
            args = [self.E(a) for a in ks[1:]]
            if name is not None:
                head = ["ev", EVENTS[name], self.where(n)] if name in EVENTS else ["call", name, self.where(n)]
                return seq([["unseq", args, self.where(n)], head])
            return seq([["unseq", [self.E(ks[0])] + args, self.where(n)], ["cb", self.where(n)]])
        if k == "BinaryOperator":
            op = n.get("opcode")
            if op in ("&&", "||") and len(ks) == 2:
                return seq([self.E(ks[0]), ["alt", [SKIP, self.E(ks[1])], self.where(n), ["right operand not evaluated", "right operand evaluated"]]])
            if op == "," and len(ks) == 2:
                return seq([self.E(ks[0]), self.E(ks[1])])
            return ["unseq", [self.E(c) for c in ks], self.where(n)]
        if k == "ConditionalOperator" and len(ks) == 3:
            return seq([self.E(ks[0]), ["alt", [self.E(ks[1]), self.E(ks[2])], self.where(n), ["?: second operand", "?: third operand"]]])
        if k == "BinaryConditionalOperator":
            return seq([self.E(ks[0]), ["alt", [SKIP, self.E(ks[-1])], self.where(n), ["?: first operand", "?: last operand"]]]) if ks else SKIP
        if k in ("UnaryExprOrTypeTraitExpr", "OpaqueValueExpr", "OffsetOfExpr"):
            return SKIP           # unevaluated operand / already evaluated value
        if k.endswith(("Attr", "Comment")):
            return SKIP
        if k == "DeclRefExpr":
            rd = n.get("referencedDecl", {})
            if rd.get("kind") == "FunctionDecl":
                return ["addr", rd.get("name"), self.where(n)]
            return SKIP
        if k == "StmtExpr":
            return seq([self.S(c) for c in ks])
        if k in ("GenericSelectionExpr", "ChooseExpr", "AtomicExpr", "BlockExpr", "LambdaExpr"):
            return ["missing", "expression kind " + k, self.where(n)]
        if k.endswith(("Expr", "Operator", "Literal")):
            return ["unseq", [self.E(c) for c in ks], self.where(n)]
        if k.endswith("Stmt"):
            return self.S(n)
        return ["missing", "expression kind " + k, self.where(n)]


def asm_functions(text, relpath):
    """global functions of a preprocessed GNU-syntax assembly file and the non-local symbols their code calls/jumps to"""
    glob, labels = set(), set()
    stmts = []
    for line in text.split("\n"):
        if line.startswith("#"):
            continue
        for st in line.split(";"):
            st = st.strip()
            if st:
                stmts.append(st)
    for st in stmts:
        m = re.match(r"\.(globl|global)\s+([A-Za-z_.$][\w.$]*)", st)
        if m:
            glob.add(m.group(2))
        m = re.match(r"([A-Za-z_.$][\w.$]*)\s*:", st)
        if m:
            labels.add(m.group(1))
    funcs, cur, problems = {}, None, []
    for st in stmts:
        m = re.match(r"([A-Za-z_.$][\w.$]*)\s*:\s*(.*)$", st)
        if m:
            if m.group(1) in glob:
                cur = m.group(1)
                funcs.setdefault(cur, [])
            st = m.group(2).strip()
            if not st:
                continue
        if st.startswith("."):
            continue
        parts = st.split(None, 1)
        mn = parts[0].lower()
        ops = parts[1].strip() if len(parts) > 1 else ""
        is_call = mn in ("call", "callq")
        is_jump = mn.startswith("j")
        if not (is_call or is_jump) or cur is None:
            continue
        if ops.startswith("*"):
            if is_call:
                problems.append("indirect call in %s (%s)" % (cur, relpath))
            continue                      # indirect jmp: jump table inside the function (checked by C18)
        tgt = re.sub(r"@\w+$", "", ops.split(",")[0].strip())
        if tgt in labels and not (tgt in glob):
            continue
        if re.match(r"^(\.L|\d)", tgt):
            continue
        if tgt in glob and is_jump and tgt == cur:
            continue
        if tgt not in funcs[cur]:
            funcs[cur].append(tgt)
    return funcs, problems


def job_parse(args):
    repo, incdir, path, flags, hsh, cachedir, text = args
    out = os.path.join(cachedir, hsh + ".json")
    rel = os.path.relpath(path, repo)
    if path.endswith(".S"):
        funcs, problems = asm_functions(text or "", rel)
        res = {"tu": rel, "asm": True, "funcs": {f: {"static": False, "loc": rel, "sk": ["asm", c]} for f, c in funcs.items()},
               "decls": {}, "public": [], "problems": problems}
    else:
        p = subprocess.run(base_args(repo, incdir, path) + flags + ["-fsyntax-only", "-Xclang", "-ast-dump=json", path],
                           stdout=subprocess.PIPE, stderr=subprocess.PIPE, timeout=600)
        txt = p.stdout.decode("utf-8", "replace")
        i = txt.find("{")
        if p.returncode != 0 or i < 0:
            return {"hash": hsh, "error": "clang could not parse %s %s: %s" % (rel, " ".join(flags), p.stderr.decode("utf-8", "replace")[-400:])}
        doc, _ = json.JSONDecoder().raw_decode(txt[i:])
        t = TU(doc, repo, path)
        res = {"tu": rel, "asm": False, "funcs": t.funcs, "decls": t.decls, "public": sorted(t.public), "problems": [], "taken": t.taken}
    tmp = out + ".%d.tmp" % os.getpid()
    json.dump(res, open(tmp, "w"))
    os.replace(tmp, out)
    return {"hash": hsh}


# ---------------------------------------------------------------------------
# step 3: link one configuration

class Linked:
    """normalised nodes: ('skip',) ('ev',e,loc) ('call',f,loc) ('seq',a,b) ('alt',a,b,loc,la,lb) ('rep',b,loc)
    ('catchb',b) ('catchc',b) ('ret',loc) ('brk',) ('cnt',)"""

    def __init__(self, name, tus):
        self.name = name
        self.missing = []
        self.defs = {}          # key -> {tu, loc, raw, static}
        self.public = set()
        self.decls = {}
        statics = {}            # (tu, name) -> key
        for t in tus:
            for p in t.get("problems", []):
                self.miss(t["tu"], p)
            self.public |= set(t["public"])
            for k, v in t["decls"].items():
                self.decls.setdefault(k, v)
            for fname, f in t["funcs"].items():
                if f["static"]:
                    key = "%s@%s" % (fname, os.path.basename(t["tu"]))
                    statics[(t["tu"], fname)] = key
                else:
                    key = fname
                if key in self.defs:
                    self.miss(key, "defined twice in this configuration (%s and %s)" % (self.defs[key]["loc"], f["loc"]))
                    continue
                self.defs[key] = {"tu": t["tu"], "loc": f["loc"], "raw": f["sk"], "static": f["static"], "name": fname}
        self.statics = statics
        self.taken = [(t["tu"], x[0], x[1]) for t in tus for x in t.get("taken", [])]
        # which functions reach an event
        self.calls = {k: self.raw_calls(d["raw"], d["tu"]) for k, d in self.defs.items()}
        has = {k for k, d in self.defs.items() if self.raw_has_event(d["raw"])}
        changed = True
        while changed:
            changed = False
            for k in self.defs:
                if k not in has and any(c in has for c in self.calls[k]):
                    has.add(k); changed = True
        self.has = has
        # callees-first order, cycles reported
        self.order, state = [], {}

        def dfs(k, stack):
            state[k] = 1
            for c in self.calls[k]:
                if c not in has:
                    continue
                if state.get(c) == 1:
                    self.miss(k, "recursion: " + " -> ".join(stack + [k, c]))
                elif c not in state:
                    dfs(c, stack + [k])
            state[k] = 2
            self.order.append(k)
        sys.setrecursionlimit(10000)
        for k in sorted(has):
            if k not in state:
                dfs(k, [])
        self.body = {}
        for k in self.order:
            self.body[k] = self.norm(self.defs[k]["raw"], self.defs[k]["tu"], k)
        for tu, name, where in self.taken:
            t = self.resolve(name, tu)
            if name in EVENTS or (t and t in has):
                self.miss(name, "its address is stored in a file-scope object (%s): calls through the pointer cannot be attributed" % where)

    def miss(self, f, why):
        m = "skeleton %s: %s" % (f, why)
        if m not in self.missing:
            self.missing.append(m)

    def resolve(self, name, tu):
        if (tu, name) in self.statics:
            return self.statics[(tu, name)]
        return name if name in self.defs and not self.defs[name]["static"] else None

    def raw_calls(self, r, tu, acc=None):
        acc = [] if acc is None else acc
        k = r[0]
        if k == "call":
            t = self.resolve(r[1], tu)
            if t and t not in acc:
                acc.append(t)
        elif k == "asm":
            for c in r[1]:
                t = self.resolve(c, tu)
                if t and t not in acc:
                    acc.append(t)
        elif k in ("seq", "alt", "unseq"):
            for c in r[1]:
                self.raw_calls(c, tu, acc)
        elif k in ("rep", "catchb", "catchc"):
            self.raw_calls(r[1], tu, acc)
        return acc

    def raw_has_event(self, r):
        k = r[0]
        if k in ("ev", "cb"):
            return True
        if k == "asm":
            return any(c in EVENTS for c in r[1])
        if k in ("seq", "alt", "unseq"):
            return any(self.raw_has_event(c) for c in r[1])
        if k in ("rep", "catchb", "catchc"):
            return self.raw_has_event(r[1])
        return False

    # leaves of a normalised node
    def leaves(self, n, acc=None):
        acc = set() if acc is None else acc
        k = n[0]
        if k in ("seq", "alt"):
            self.leaves(n[1], acc); self.leaves(n[2], acc)
        elif k in ("rep", "catchb", "catchc"):
            self.leaves(n[1], acc)
        else:
            acc.add(k)
        return acc

    def mkseq(self, xs):
        xs = [x for x in xs if x[0] != "skip"]
        if not xs:
            return ("skip",)
        r = xs[-1]
        for x in reversed(xs[:-1]):
            r = ("seq", x, r)
        return r

    def norm(self, r, tu, fn):
        k = r[0]
        if k == "skip":
            return ("skip",)
        if k == "ev":
            return ("ev", r[1], r[2])
        if k == "cb":
            return ("ev", "callback", r[1])
        if k == "call":
            t = self.resolve(r[1], tu)
            if t is None:
                if r[1] in self.decls and r[1] not in EVENTS:
                    self.miss(fn, "calls %s (%s), declared in the repository (%s) but not defined in this configuration" % (r[1], r[2], self.decls[r[1]]))
                return ("skip",)
            return ("call", t, r[2]) if t in self.has else ("skip",)
        if k == "addr":
            t = self.resolve(r[1], tu)
            if r[1] in EVENTS or (t and t in self.has):
                self.miss(fn, "takes the address of %s (%s): calls through the pointer cannot be attributed" % (r[1], r[2]))
            return ("skip",)
        if k == "asm":
            cs = []
            for c in r[1]:
                if c in EVENTS:
                    cs.append(("ev", EVENTS[c], self.defs[fn]["loc"]))
                    continue
                t = self.resolve(c, tu)
                if t is None:
                    if c.startswith(("ascon", "_ascon")):
                        self.miss(fn, "assembly code transfers to %s which is not defined in this configuration" % c)
                    continue
                if t in self.has:
                    cs.append(("call", t, self.defs[fn]["loc"]))
            if not cs:
                return ("skip",)
            alt = ("brk",)
            for i, c in enumerate(reversed(cs)):
                alt = ("alt", c, alt, self.defs[fn]["loc"], "call " + c[1], "no further call" if i == 0 else "other")
            return ("rep", alt, self.defs[fn]["loc"])
        if k == "seq":
            return self.mkseq([self.norm(c, tu, fn) for c in r[1]])
        if k == "unseq":
            xs = [x for x in (self.norm(c, tu, fn) for c in r[1]) if x[0] != "skip"]
            if len(xs) > 1:
                self.miss(fn, "operands with events whose evaluation order is unspecified (%s)" % r[2])
            return self.mkseq(xs)
        if k == "alt":
            xs = [self.norm(c, tu, fn) for c in r[1]]
            if all(x[0] == "skip" for x in xs):
                return ("skip",)
            labels = r[3] if len(r) > 3 else ["branch %d" % i for i in range(len(xs))]
            n = xs[-1]
            lab = labels[-1]
            for i in range(len(xs) - 2, -1, -1):
                n = ("alt", xs[i], n, r[2], labels[i], lab)
                lab = "other"
            return n
        if k == "rep":
            b = self.norm(r[1], tu, fn)
            if self.leaves(b) <= {"skip", "brk", "cnt"}:
                return ("skip",)
            return ("rep", b, r[2])
        if k == "catchb":
            b = self.norm(r[1], tu, fn)
            return ("skip",) if self.leaves(b) <= {"skip", "brk"} else (("catchb", b) if "brk" in self.leaves(b) else b)
        if k == "catchc":
            b = self.norm(r[1], tu, fn)
            return ("skip",) if self.leaves(b) <= {"skip", "cnt"} else (("catchc", b) if "cnt" in self.leaves(b) else b)
        if k == "ret":
            return ("ret", r[1])
        if k == "brk":
            return ("brk",)
        if k == "cnt":
            return ("cnt",)
        if k == "missing":
            self.miss(fn, "%s (%s)" % (r[1], r[2]))
            return ("skip",)
        self.miss(fn, "internal: raw node " + k)
        return ("skip",)

    # -- the same analysis as Model/Skel.v `post`, with witnesses (only for reporting; Coq decides)
    def analyse(self):
        self.sums = {}
        for k in self.order:
            self.sums[k] = {q: self.fun(k, q) for q in ("clear", "held")}

    def fun(self, f, q):
        r = self.ana(self.body[f], q)
        out = {}
        for key, w in r.items():
            nk = ("abort",) if key[0] == "abort" else ("end", key[1])
            if nk not in out or (len(w[1]), len(w[0])) < (len(out[nk][1]), len(out[nk][0])):
                out[nk] = w
        return out

    @staticmethod
    def put(d, key, w):
        if key not in d or (len(w[1]), len(w[0])) < (len(d[key][1]), len(d[key][0])):
            d[key] = w

    def ana(self, n, q):
        k = n[0]
        if k == "skip":
            return {("norm", q): ((), ())}
        if k == "ev":
            e = n[1]
            if e in ("init", "acquire"):
                ok, q2 = q == "clear", "held"
            elif e in ("release", "free"):
                ok, q2 = q == "held", "clear"
            else:
                ok, q2 = q == "clear", "clear"
            what = {"init": "ascon_init", "acquire": "ascon_acquire", "release": "ascon_release", "free": "ascon_free",
                    "callback": "call through a function pointer"}[e]
            if ok:
                return {("norm", q2): ((), ("%s at %s: flag %s -> %s" % (what, n[2], q, q2),))}
            return {("abort",): ((), ("%s at %s with the flag %s: the checker ABORTS" % (what, n[2], q),))}
        if k == "call":
            out = {}
            for key, w in self.sums[n[1]][q].items():
                if key[0] == "abort":
                    steps = ("call %s at %s {" % (n[1], n[2]),) + w[1]
                elif key[1] == q:         # a call that leaves the flag as it found it: details left out
                    steps = ("call %s at %s: returns with the flag %s again" % (n[1], n[2], q),)
                else:
                    steps = ("call %s at %s {" % (n[1], n[2]),) + w[1] + ("} %s returns" % n[1],)
                self.put(out, ("abort",) if key[0] == "abort" else ("norm", key[1]), (w[0], steps))
            return out
        if k == "seq":
            out = {}
            for key, w in self.ana(n[1], q).items():
                if key[0] != "norm":
                    self.put(out, key, w)
                    continue
                for key2, w2 in self.ana(n[2], key[1]).items():
                    self.put(out, key2, (w[0] + w2[0], w[1] + w2[1]))
            return out
        if k == "alt":
            out = {}
            for c, ch, lab in ((n[1], "L", n[4]), (n[2], "R", n[5])):
                for key, w in self.ana(c, q).items():
                    st = ("%s: %s" % (n[3], lab),) if lab != "other" else ()
                    self.put(out, key, ((ch,) + w[0], st + w[1]))
            return out
        if k == "rep":
            heads, work, out = {q: ((), ())}, [q], {}
            while work:
                h = work.pop(0)
                pre = heads[h]
                for key, w in self.ana(n[1], h).items():
                    full = (pre[0] + w[0], pre[1] + w[1])
                    if key[0] in ("norm", "cnt"):
                        if key[1] not in heads:
                            heads[key[1]] = full; work.append(key[1])
                    elif key[0] == "brk":
                        self.put(out, ("norm", key[1]), full)
                    else:
                        self.put(out, key, full)
            return out
        if k in ("catchb", "catchc"):
            out = {}
            tgt = "brk" if k == "catchb" else "cnt"
            for key, w in self.ana(n[1], q).items():
                self.put(out, ("norm", key[1]) if key[0] == tgt else key, w)
            return out
        if k == "ret":
            return {("ret", q): ((), ("return at %s" % n[1],))}
        if k == "brk":
            return {("brk", q): ((), ())}
        if k == "cnt":
            return {("cnt", q): ((), ())}
        raise ValueError(k)

    def behaviour(self, f):
        """((exits from clear, aborts), (exits from held, aborts)) as sorted tuples"""
        r = []
        for q in ("clear", "held"):
            s = self.sums[f][q]
            r.append((tuple(sorted(k[1] for k in s if k[0] == "end")), ("abort",) in s))
        return tuple(r)

    def classify(self, f):
        (ec, ac), (eh, ah) = self.behaviour(f)
        if not ac and ec == ("clear",):
            return "balanced (clear -> clear)"
        if not ac and ec == ("held",):
            return "acquires (clear -> held)"
        if ac and not ah and eh == ("clear",):
            return "releases (needs held, held -> clear)"
        if ac and not ah and eh == ("held",):
            return "inside (needs held, held -> held)"
        return "other: from clear %s%s; from held %s%s" % ("/".join(ec) or "-", " or ABORT" if ac else "", "/".join(eh) or "-", " or ABORT" if ah else "")

    def offending(self, f):
        """a path of f from the clear flag that aborts or ends held, or None"""
        s = self.sums[f]["clear"]
        if ("abort",) in s:
            return s[("abort",)]
        if ("end", "held") in s:
            w = s[("end", "held")]
            return (w[0], w[1] + ("%s ends with the flag still held" % f,))
        return None


# ---------------------------------------------------------------------------
# Coq output

def coq_str(s):
    return '"' + s.replace('"', '""') + '"'


def coq_sk(n, nm=None):
    nm = nm or coq_str
    k = n[0]
    if k == "skip":
        return "SSkip"
    if k == "ev":
        return "(SEv %s)" % COQ_EV[n[1]]
    if k == "call":
        return "(SCall %s)" % nm(n[1])
    if k == "seq":
        return "(SSeq %s %s)" % (coq_sk(n[1], nm), coq_sk(n[2], nm))
    if k == "alt":
        return "(SAlt %s %s)" % (coq_sk(n[1], nm), coq_sk(n[2], nm))
    if k == "rep":
        return "(SRep %s)" % coq_sk(n[1], nm)
    if k == "catchb":
        return "(SCatchB %s)" % coq_sk(n[1], nm)
    if k == "catchc":
        return "(SCatchC %s)" % coq_sk(n[1], nm)
    return {"ret": "SRet", "brk": "SBreak", "cnt": "SContinue"}[k]


def emit_backend(backend, linked, path):
    """linked: list of (triple, Linked)"""
    bodies, L = {}, []
    L.append("(* GENERATED by tools/skeleton.py from the repository's current source - do not edit.")
    L.append("   Event skeletons (Model/Skel.v) of back end %s for %d share configurations. *)" % (backend, len(linked)))
    L.append("From Coq Require Import String List.")
    L.append("From AsconV Require Import Model.Skel.")
    L.append("Import ListNotations.")
    L.append("Local Open Scope string_scope.")
    L.append("")
    tables = []
    ids = {}
    for t, lk in linked:
        for f in lk.order:
            if f not in ids:
                ids[f] = "n%d" % len(ids)
                L.append("Definition %s : string := %s." % (ids[f], coq_str(f)))
    L.append("")
    nm = lambda f: ids[f]
    for t, lk in linked:
        rows = []
        for f in lk.order:
            term = coq_sk(lk.body[f], nm)
            key = (f, term)
            if key not in bodies:
                bodies[key] = "b%d" % len(bodies)
                L.append("Definition %s : sk := (* %s, %s *) %s." % (bodies[key], f, lk.defs[f]["loc"], term))
            rows.append("(%s, %s)" % (nm(f), bodies[key]))
        tables.append(rows)
    L.append("")
    names = []
    for (t, lk), rows in zip(linked, tables):
        cname = "cfg_%d%d%d" % t
        names.append(cname)
        pub = sorted(f for f in lk.public if f in lk.body)
        unb = []
        for f in pub:
            w = lk.offending(f)
            if w is not None:
                unb.append("(%s, [%s])" % (nm(f), "; ".join("C" + c for c in w[0])))
        L.append("Definition %s : config := mkconfig %s %d %d %d" % (cname, coq_str(cfg_name(backend, t)), t[0], t[1], t[2]))
        L.append("  [%s]" % ";\n   ".join(rows))
        L.append("  [%s]" % "; ".join(nm(f) for f in pub))
        L.append("  [%s]." % ";\n   ".join(unb))
        L.append("")
    L.append("Definition configs : list config := [%s]." % "; ".join(names))
    txt = "\n".join(L) + "\n"
    if not (os.path.exists(path) and open(path).read() == txt):
        open(path + ".tmp", "w").write(txt)
        os.replace(path + ".tmp", path)
    return hashlib.sha256(txt.encode()).hexdigest()


# ---------------------------------------------------------------------------

def link_backend(args):
    """link, analyse and emit the 16 share configurations of one back end (runs in a worker process)"""
    backend, plan, cachedir, vpath, show = args
    loaded = {}

    def load(h):
        if h not in loaded:
            p = os.path.join(cachedir, h + ".json")
            loaded[h] = json.load(open(p)) if os.path.exists(p) else None
        return loaded[h]
    out = {"missing": [], "entries": {}, "functions": set(), "public": set(), "extern_names": set(), "show": []}
    linked = []
    for t, hashes in plan:
        parts = [p for p in (load(h) for h in hashes) if p]
        lk = Linked(cfg_name(backend, t), parts)
        lk.analyse()
        linked.append((t, lk))
        out["missing"] += [m + "  [%s]" % lk.name for m in lk.missing]
        pub = sorted(f for f in lk.public if f in lk.body)
        entry = {"functions": len(lk.order), "public_with_skeleton": len(pub), "public_declared": len(lk.public),
                 "classes": {}, "unbalanced_public": {}}
        for f in lk.order:
            entry["classes"].setdefault(lk.classify(f), []).append(f)
            out["functions"].add(f)
            if not lk.defs[f]["static"]:
                out["extern_names"].add(lk.defs[f]["name"])
        for f in pub:
            out["public"].add(f)
            w = lk.offending(f)
            if w is not None:
                entry["unbalanced_public"][f] = {"class": lk.classify(f), "choices": "".join(w[0]), "steps": list(w[1])}
        out["entries"][lk.name] = entry
        if show:
            for k in lk.order:
                if lk.defs[k]["name"] == show:
                    out["show"].append("%-16s %s  %s\n    %s" % (lk.name, k, lk.classify(k), coq_sk(lk.body[k])))
                    w = lk.offending(k)
                    if w:
                        out["show"].append("    path: " + "".join(w[0]) + "\n      " + "\n      ".join(w[1]))
    out["file_hash"] = emit_backend(backend, linked, vpath)
    for k in ("functions", "public", "extern_names"):
        out[k] = sorted(out[k])
    return out


def list_tus(repo):
    out = []
    for d, _, fs in os.walk(os.path.join(repo, "src")):
        for f in fs:
            if f.endswith((".c", ".S")):
                out.append(os.path.join(d, f))
    return sorted(out)


def input_hash(repo):
    h = hashlib.sha256()
    h.update(TOOL_VERSION.encode())
    h.update(open(os.path.abspath(__file__), "rb").read())
    for d, ds, fs in os.walk(os.path.join(repo, "src")):
        ds.sort()
        for f in sorted(fs):
            if f.endswith((".c", ".h", ".S", ".in", ".cpp")):
                p = os.path.join(d, f)
                h.update(os.path.relpath(p, repo).encode()); h.update(b"\0"); h.update(open(p, "rb").read())
    return h.hexdigest()


def cpp_mentions(repo, names):
    """library functions with a skeleton that the C++ layer (src/cplusplus/*.cpp and the __cplusplus parts of the
    public headers - the only inline functions the public headers have) mentions: identifier-level scan, comments removed"""
    files = []
    for d in ("src/cplusplus", "src/ascon"):
        p = os.path.join(repo, d)
        if os.path.isdir(p):
            files += [os.path.join(p, f) for f in sorted(os.listdir(p)) if f.endswith((".cpp", ".h", ".hpp"))]
    found = {}
    for f in files:
        txt = open(f, errors="replace").read()
        txt = re.sub(r"/\*.*?\*/", " ", txt, flags=re.S)
        txt = re.sub(r"//[^\n]*", " ", txt)
        if f.endswith(".h"):
            # keep only what is compiled for C++ alone
            parts = re.findall(r"#\s*if(?:def\s+__cplusplus|\s+defined\s*\(\s*__cplusplus\s*\))(.*?)(?=#\s*if(?:def\s+__cplusplus|\s+defined\s*\(\s*__cplusplus\s*\))|\Z)", txt, flags=re.S)
            body = []
            for p_ in parts:
                # skip the two-line extern "C" { / } guards
                if re.match(r"\s*(extern\s+\"C\"\s*\{|\})\s*#\s*endif", p_):
                    continue
                body.append(p_)
            txt = "\n".join(body)
        for m in set(re.findall(r"[A-Za-z_]\w*", txt)):
            if m in names:
                found.setdefault(m, os.path.relpath(f, repo))
    return found


def main():
    ap = argparse.ArgumentParser()
    ap.add_argument("repo", nargs="?", default=os.environ.get("VERIF_REPO", "/repo"))
    ap.add_argument("--force", action="store_true")
    ap.add_argument("--backends", default=None)
    ap.add_argument("--jobs", type=int, default=16)
    ap.add_argument("--show", default=None, help="print the skeleton and behaviour of this function in every configuration")
    ap.add_argument("--gen", default=None, help="directory for the generated .v files (default coq/Gen; used by the self test)")
    ap.add_argument("--json", default=None, help="report file (default build/skeleton.json)")
    a = ap.parse_args()
    repo = os.path.realpath(a.repo)
    t0 = time.time()
    gen = a.gen or os.path.join(VERIF, "coq", "Gen")
    bdir = os.path.join(VERIF, "build", "skeleton")
    cachedir = os.path.join(bdir, "tu")
    os.makedirs(gen, exist_ok=True); os.makedirs(cachedir, exist_ok=True)
    jpath = a.json or os.path.join(VERIF, "build", "skeleton.json")
    backends = [b for b in BACKENDS if not a.backends or b[0] in a.backends.split(",")]
    ihash = input_hash(repo)
    if not a.force and not a.show and os.path.exists(jpath):
        try:
            old = json.load(open(jpath))
            ok = old.get("input_hash") == ihash and old.get("repo") == repo and old.get("backends") == [b[0] for b in backends]
            for f, h in old.get("files", {}).items():
                p = os.path.join(gen, f)
                ok = ok and os.path.exists(p) and hashlib.sha256(open(p, "rb").read()).hexdigest() == h
            if ok:
                for l in old["lines"]:
                    print(l)
                print(old["summary"] + " (cached: inputs unchanged)")
                return 0
        except Exception:
            pass

    incdir = os.path.join(bdir, "include")
    os.makedirs(incdir, exist_ok=True)
    vin = os.path.join(repo, "src", "ascon", "version.h.in")
    if os.path.exists(vin):
        open(os.path.join(incdir, "version.h"), "w").write(re.sub(r"@\w+@", "0", open(vin).read()))
    # a translation unit that only includes every public header: the list of public declarations does not depend on which .c includes what
    pubtu = os.path.join(incdir, "all-public-headers.c")
    hdrs = sorted(f for f in os.listdir(os.path.join(repo, "src", "ascon")) if f.endswith(".h"))
    open(pubtu, "w").write("".join("#include <ascon/%s>\n" % h for h in hdrs))
    tus = list_tus(repo)

    mention_cache = {}

    def mentions_shares(f):
        if f not in mention_cache:
            try:
                data = open(f, "rb").read()
            except OSError:
                data = b""
            mention_cache[f] = any(m in data for m in SHARE_MACROS)
        return mention_cache[f]

    lines, missing = [], []
    with ProcessPoolExecutor(a.jobs) as ex:
        # preprocess with the default triple to learn the dependencies
        jobs = [(b, u) for b in backends for u in tus + [pubtu]]
        pre = list(ex.map(job_pre, [(repo, incdir, u, b[1] + share_flags(DEFAULT_TRIPLE)) for b, u in jobs], chunksize=8))
        plan = {}          # (backend, triple) -> list of (tu, hash)
        need = {}          # hash -> parse job
        second = []
        for (b, u), r in zip(jobs, pre):
            if r["rc"] != 0:
                missing.append("skeleton %s: cannot be preprocessed for %s: %s" % (os.path.relpath(u, repo), b[0], r["err"].strip().split("\n")[-1] if r["err"].strip() else "?"))
                continue
            dep_share = any(mentions_shares(d) for d in r["deps"] + [u])
            if dep_share:
                for t in TRIPLES:
                    if t == DEFAULT_TRIPLE:
                        plan.setdefault((b[0], t), []).append((u, r["hash"]))
                    else:
                        second.append((b, u, t))
            else:
                for t in TRIPLES:
                    plan.setdefault((b[0], t), []).append((u, r["hash"]))
            need.setdefault(r["hash"], (repo, incdir, u, b[1] + share_flags(DEFAULT_TRIPLE), r["hash"], cachedir, r["text"]))
        pre2 = list(ex.map(job_pre, [(repo, incdir, u, b[1] + share_flags(t)) for b, u, t in second], chunksize=8))
        for (b, u, t), r in zip(second, pre2):
            if r["rc"] != 0:
                # e.g. an #error for a combination the headers reject
                missing.append("skeleton %s: cannot be preprocessed for %s: %s" % (os.path.relpath(u, repo), cfg_name(b[0], t), r["err"].strip().split("\n")[-1] if r["err"].strip() else "?"))
                continue
            plan.setdefault((b[0], t), []).append((u, r["hash"]))
            need.setdefault(r["hash"], (repo, incdir, u, b[1] + share_flags(t), r["hash"], cachedir, r["text"]))
        todo = [j for h, j in need.items() if a.force or not os.path.exists(os.path.join(cachedir, h + ".json"))]
        n_pre = len(jobs) + len(second)
        for r in ex.map(job_parse, todo, chunksize=2):
            if "error" in r:
                missing.append("skeleton: " + r["error"])
    t1 = time.time()
    report = {"configs": {}}
    files = {}
    nfun, npub, nunb = set(), set(), 0
    allnames, show_lines = set(), []
    work = [(b[0], [(t, [h for u, h in plan.get((b[0], t), [])]) for t in TRIPLES], cachedir, os.path.join(gen, "Skeleton_%s.v" % b[0]), a.show)
            for b in backends]
    with ProcessPoolExecutor(min(a.jobs, max(1, len(work)))) as ex:
        results = list(ex.map(link_backend, work))
    for b, r in zip(backends, results):
        missing += r["missing"]
        report["configs"].update(r["entries"])
        files["Skeleton_%s.v" % b[0]] = r["file_hash"]
        nfun |= set(r["functions"]); npub |= set(r["public"]); allnames |= set(r["extern_names"])
        show_lines += r["show"]
    # the C++ layer
    cpp = cpp_mentions(repo, allnames | set(EVENTS))
    report["cpp_mentions"] = cpp
    cv = os.path.join(gen, "Skeleton_cpp.v")
    ctxt = ("(* GENERATED by tools/skeleton.py - library functions with an event skeleton that the C++ layer\n"
            "   (src/cplusplus/STAR.cpp, the __cplusplus parts of src/ascon/STAR.h) mentions; identifier-level scan. *)\n"
            "From Coq Require Import String List.\nImport ListNotations.\nLocal Open Scope string_scope.\n"
            "Definition cpp_called : list string := [%s].\n" % "; ".join(coq_str(f) for f in sorted(cpp)))
    if not (os.path.exists(cv) and open(cv).read() == ctxt):
        open(cv, "w").write(ctxt)
    files["Skeleton_cpp.v"] = hashlib.sha256(ctxt.encode()).hexdigest()

    if a.show:
        print("\n".join(show_lines))
        return 0

    # stdout
    seen = set()
    for m in missing:
        base = re.sub(r"\s+\[[^\]]*\]$", "", m)
        if base in seen:
            continue
        seen.add(base)
        cfgs = [re.search(r"\[([^\]]*)\]$", x).group(1) for x in missing if x.startswith(base + "  [")]
        lines.append("MISSING " + base + ((" [%d configurations, e.g. %s]" % (len(cfgs), cfgs[0])) if cfgs else ""))
    groups = {}
    for cname, e in report["configs"].items():
        for f, w in e["unbalanced_public"].items():
            groups.setdefault((f, tuple(w["steps"])), []).append(cname)
            nunb += 1
    for (f, steps), cs in sorted(groups.items()):
        lines.append("UNBALANCED %s in %d configuration(s) (%s): %s" % (f, len(cs), ", ".join(cs[:4]) + (", ..." if len(cs) > 4 else ""), " ; ".join(steps)))
    summary = ("skeleton: %d configurations (%d back ends x %d share triples), %d translation units, %d preprocessor runs, %d distinct ASTs walked (%d now); "
               "%d functions with an event skeleton (max %d per configuration), %d public entry points with a skeleton, "
               "%d public-function/configuration pairs not balanced from the clear flag, %d gaps; %.1f s" %
               (len(report["configs"]), len(backends), len(TRIPLES), len(tus), n_pre, len(need), len(todo), len(nfun),
                max([e["functions"] for e in report["configs"].values()] or [0]), len(npub), nunb, len(seen), time.time() - t0))
    report.update({"input_hash": ihash, "repo": repo, "backends": [b[0] for b in backends], "files": files, "lines": lines, "summary": summary,
                   "missing": missing, "timing": {"clang_s": round(t1 - t0, 1), "link_s": round(time.time() - t1, 1)}})
    json.dump(report, open(jpath + ".tmp", "w"), indent=0)
    os.replace(jpath + ".tmp", jpath)
    for l in lines:
        print(l)
    print(summary)
    return 0


if __name__ == "__main__":
    sys.exit(main())
