#!/usr/bin/env python3
"""Writes /verif/MANIFEST.json from the table below (kept in one place so the
claims, levels and not_applicable list stay consistent)."""
import json, os
V = os.path.dirname(os.path.dirname(os.path.abspath(__file__)))
CLAIMS = {}
PENDING = {}
for f in sorted(os.listdir(os.path.join(V, "tools", "claims.d"))):
    if f.endswith(".py"):
        exec(open(os.path.join(V, "tools", "claims.d", f)).read())
ids = ["C%02d" % i for i in range(1, 21)]
checks, na = [], []
for i in ids:
    c = CLAIMS.get(i)
    if not c:
        na.append({"property_id": i, "reason": PENDING.get(i, "check not built yet in this session; design in DESIGN.md section 4")})
        continue
    checks.append({
        "property_id": i,
        "quick_cmd": "./check %s --tier quick" % i,
        "thorough_cmd": "./check %s --tier thorough" % i,
        "evidence_file": "/verif/evidence/%s.json" % i,
        "replay_cmd_template": "./check %s --replay {path}" % i,
        "engine": "coq-proof+correspondence",
        "level_claimed": {"category": c.get("category", "proof"), "text": c["text"], "design_ref": "DESIGN.md section 4, %s" % i},
        "level_note": c["note"],
        "technique": c["technique"],
    })
m = {
    "version": 1,
    "setup_cmd": "make -C /verif setup",
    "hooks": {"guard": "ASCON_SUITE_VERIF", "enable": "checks pass -DASCON_SUITE_VERIF in CMAKE_C_FLAGS/CMAKE_CXX_FLAGS; no hook code exists in /repo (random source, storage and I/O are substituted at link time / by LD_PRELOAD)",
              "baseline_off_cmd": "rm -rf /repo/_build && cmake -G Ninja -S /repo -B /repo/_build && cmake --build /repo/_build -j16 && ctest --test-dir /repo/_build -j8 --timeout 900",
              "source_commits": [], "add_only": True},
    "engines": [{"name": "coq-proof+correspondence", "path": "/verif/check",
                 "serves_properties": [c["property_id"] for c in checks],
                 "kind_free_text": "Coq 8.16.1 theorems about Spec/Model (coq/), translators regenerating coq/Gen from /repo, extracted OCaml model vs C/C++ harness differential runs (lib/, harness/, ocaml/)"}],
    "checks": checks,
    "not_applicable": na,
    "notes": "See DESIGN.md. known-findings.txt lists repaired (fixed:) and recorded (known:) defects.",
}
json.dump(m, open(os.path.join(V, "MANIFEST.json"), "w"), indent=1)
print("claimed:", [c["property_id"] for c in checks])

# every theorem name cited in a claim text must exist as a Theorem/Lemma/Example in coq/Props (names with
# braces/wild cards are families and are skipped)
import re, glob
have = set()
for f in glob.glob(os.path.join(V, "coq", "Props", "*.v")) + glob.glob(os.path.join(V, "coq", "Obl", "*.v")) + glob.glob(os.path.join(V, "coq", "Proofs", "*.v")):
    have.update(re.findall(r"^\s*(?:Theorem|Corollary|Lemma|Example|Definition)\s+([A-Za-z0-9_']+)", open(f).read(), flags=re.M))
missing = []
for c in checks:
    txt = c["level_claimed"]["text"] + " " + c["level_note"]
    for name in set(re.findall(r"\bC\d\d_[A-Za-z0-9_]*[A-Za-z0-9]\b(?![_{<*(/])", txt)):
        if name not in have and not any(h.startswith(name + "_") or h.startswith(name) for h in have):
            missing.append("%s: %s" % (c["property_id"], name))
if missing:
    print("CLAIMS CITE THEOREMS THAT DO NOT EXIST:", "; ".join(sorted(missing)))
    raise SystemExit(1)
