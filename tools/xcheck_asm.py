#!/usr/bin/env python3
"""Cross-checks of the C18 front ends (asm_arm.py, asm_i386.py, asm_m68k.py) with what IS available offline:

 macros    clang --target=<T> -E : the text selected by the REAL predefined macros of the target equals the text
           selected by the emulated macro set of the front end (gcc -E -undef -D...).
 decode    clang --target=<T> -c (integrated assembler) + llvm-objdump -d : the instruction sequence decoded from
           the assembled object equals the parsed instruction sequence (mnemonic and operands, normalised) - the
           file is encodable for that target and the parser reads it like a real assembler does.
 compiler  tools/xcheck_kernels.c (straight-line code in the shape of the kernels) is compiled by clang for the
           target to assembly text, run through the front end, evaluated on random inputs and compared with the
           natively compiled and EXECUTED function: validates lowering-table entries (operand order, rotate
           direction, shifted operands, bic/mvn/eon, load/store multiple, stack handling) against LLVM's
           independent knowledge of the ISA.  Not the same instruction mix as the .S files.
 native    i386 only: the checked-in ascon-asm-i386.S is assembled with -m32, linked into a freestanding program
           and EXECUTED on the host CPU; its output is compared with the translated segment chain evaluated in
           Python and with the reference permutation.

Prints one `xcheck <kind> <name>: ...` line per check, `MISSING xcheck ...` for a failed one (exit 1).  No
emulator exists here for ARM / m68k, so their tables remain unvalidated by execution."""
import os, sys, re, random, subprocess, tempfile, ctypes, shutil
sys.path.insert(0, os.path.dirname(os.path.abspath(__file__)))
import asm_base, asm_arm, asm_i386, asm_m68k, kern_perm
from symx import Stuck

HERE = os.path.dirname(os.path.abspath(__file__))
FAIL = []


def sh(cmd, cwd=None, inp=None):
    p = subprocess.run(cmd, cwd=cwd, input=inp, stdout=subprocess.PIPE, stderr=subprocess.PIPE)
    return p.returncode, p.stdout, p.stderr.decode()


def report(ok, kind, name, msg):
    line = "%sxcheck %s %s: %s" % ("" if ok else "MISSING ", kind, name, msg)
    print(line)
    if not ok:
        FAIL.append(line)


TARGETS = {
    # name: (clang triple, extra -D for the assembler run (macros only GCC predefines), comment regex of compiler output)
    "armv8a": ("aarch64-linux-gnu", ["__ARM_ARCH_8A"], r"//.*$"),
    "armv7m": ("thumbv7m-none-eabi", [], r"@.*$"),
    "armv6": ("armv6-none-eabi", [], r"@.*$"),
    "armv6m": ("thumbv6m-none-eabi", [], r"@.*$"),
    "i386": ("i386-linux-gnu", [], r"#.*$"),
    "m68k": ("m68k-linux-gnu", [], r";.*$"),
}


def fe_items(repo, name):
    """(items of ascon_permute as the front end parses them, file path)"""
    if name in asm_arm.PROFILES:
        fn, defs = asm_arm.PROFILES[name][0], asm_arm.PROFILES[name][1]
    elif name in asm_i386.PROFILES:
        fn, defs = asm_i386.PROFILES[name][0], asm_i386.PROFILES[name][1]
    else:
        fn, defs = asm_m68k.PROFILES[name][0], asm_m68k.PROFILES[name][1]
    path = os.path.join(repo, "src", "core", fn)
    text = asm_base.preprocess(path, incs=[os.path.join(repo, "src"), os.path.join(repo, "src", "core")], defs=defs)
    items, tables, directives = asm_base.parse(text, path)
    return items, tables, path, text


def code_lines(text):
    return [re.sub(r"\s+", " ", l.strip()) for l in text.split("\n") if l.strip() and not l.lstrip().startswith("#")]


# ------------------------------------------------------------------ macros
def check_macros(repo, name):
    triple, extra, _ = TARGETS[name]
    items, tables, path, mine = fe_items(repo, name)
    rc, out, err = sh(["clang", "--target=" + triple, "-E", "-x", "assembler-with-cpp", "-I" + os.path.join(repo, "src"), "-I" + os.path.join(repo, "src", "core")] +
                      ["-D" + d for d in extra] + [path])
    if rc:
        return report(False, "macros", name, "clang -E failed: " + err[-200:])
    a, b = code_lines(mine), code_lines(out.decode())
    report(a == b and len(a) > 50, "macros", name, "%d code lines selected by the real %s macros%s %s the emulated set" % (
        len(b), triple, (" (+ -D" + " -D".join(extra) + ", predefined by GCC only)") if extra else "", "equal" if a == b else "DIFFER from"))


# ------------------------------------------------------------------ decode
ALIAS = {"fp": "r11", "ip": "r12", "sl": "r10", "sb": "r9", "r13": "sp", "r14": "lr", "r15": "pc", "x30": "lr"}


def norm_num(tok, bits):
    m = re.match(r"^([#$]?)(-?(?:0x[0-9a-fA-F]+|\d+))$", tok)
    if not m:
        return tok
    return m.group(1).replace("$", "#") + str(int(m.group(2), 0) & ((1 << bits) - 1))


def norm_ins(mn, ops, isa):
    mn = mn.lower()
    bits = 64 if isa == "a64" else 32
    if isa in ("a32", "a64"):
        mn = re.sub(r"\.(w|n)$", "", mn)
        m = re.match(r"^b\.(\w\w)$", mn)
        if m:
            mn = "b" + m.group(1)
        out = []
        for o in ops:
            o = o.lower().replace(" ", "")
            o = re.sub(r"\b(fp|ip|sl|sb|r13|r14|r15)\b", lambda m: ALIAS[m.group(1)], o)
            o = re.sub(r",#?0\]$", "]", o)                          # [r0, #0] = [r0]
            o = re.sub(r"\[(\w+),(-?\d+)\]", r"[\1,#\2]", o)         # [x0, 16] = [x0, #16]
            o = re.sub(r"(?<![\w])#?(-?(?:0x[0-9a-f]+|\d+))$", lambda m: "#" + str(int(m.group(1), 0) & ((1 << bits) - 1)), o) if re.match(r"^#?-?(0x[0-9a-f]+|\d+)$", o) else o
            o = re.sub(r"^(lsl|lsr|ror|asr)#?(\d+)$", r"\1#\2", o)
            out.append(o)
        if mn[0] == "b" and mn not in ("bic", "bics", "bx") or mn in ("adr", "cbz", "cbnz"):
            out = out[:-1] + ["<label>"]
        if mn == "ldr" and len(out) == 2 and not out[1].startswith("["):
            out = [out[0], "<literal>"]
        if len(out) == 3 and out[0] == out[1] and not out[2].startswith("["):
            out = [out[0], out[2]]
        if mn == "str" and out[1:] == ["[sp,#-4]!"]:                  # A32 encodes a one-register push / pop like this
            mn, out = "push", ["{%s}" % out[0]]
        if mn == "ldr" and out[1:] == ["[sp]", "#4"]:
            mn, out = "pop", ["{%s}" % out[0]]
        return mn, out
    if isa == "i386":
        out = []
        for o in ops:
            o = o.lower().replace(" ", "")
            m = re.match(r"^(-?(?:0x[0-9a-f]+|\d+))?(\(.*\))$", o)
            if m:
                d = int(m.group(1), 0) if m.group(1) else 0
                o = ("%d" % d if d else "") + m.group(2)
            else:
                o = norm_num(o, 32)
            out.append(o)
        if mn[0] == "j":
            out = ["<label>"]
        if mn[:3] in ("ror", "rol", "shl", "shr") and len(out) == 2 and out[0] == "#1":
            out = out[1:]
        return {"retl": "ret"}.get(mn, mn), out
    return mn, ops


def objdump_items(obj, func, isa):
    rc, out, err = sh(["llvm-objdump", "-d", "--no-show-raw-insn"] + (["-M", "att"] if isa == "i386" else []) + [obj])
    if rc:
        raise Stuck("llvm-objdump failed: " + err[-200:])
    res, on = [], False
    for l in out.decode().split("\n"):
        m = re.match(r"^[0-9a-f]+ <([^>]+)>:", l)
        if m:
            s = m.group(1)
            if s == func:
                on = True
            elif on and not s.startswith(("$", ".L")):
                on = False
            continue
        if not on:
            continue
        m = re.match(r"^\s*[0-9a-f]+:\s+(\S+)\s*(.*)$", l)
        if not m:
            continue
        mn, rest = m.group(1), m.group(2)
        if mn.startswith(".") or ".word" in rest or ".long" in rest:
            continue                                                  # literal pool / jump table words
        rest = re.split(r"\s+(?:@|//|#\s)", rest)[0] if isa != "i386" else rest
        rest = re.sub(r"<[^>]*>", "", rest).strip()
        res.append(norm_ins(mn, asm_base.split_ops(rest), isa))
    return res


def check_decode(repo, name, tmp):
    triple, extra, _ = TARGETS[name]
    isa = "a64" if name == "armv8a" else "i386" if name == "i386" else "a32"
    items, tables, path, _ = fe_items(repo, name)
    obj = os.path.join(tmp, name + ".o")
    rc, out, err = sh(["clang", "--target=" + triple, "-c", "-I" + os.path.join(repo, "src"), "-I" + os.path.join(repo, "src", "core")] + ["-D" + d for d in extra] + [path, "-o", obj])
    if rc:
        return report(False, "decode", name, "the target assembler rejects the file: " + err[-300:])
    mine = [norm_ins(it[1], it[2], isa) for it in asm_base.function_items(items, "ascon_permute") if it[0] == "ins"]
    theirs = objdump_items(obj, "ascon_permute", isa)
    if isa == "a64":                                                  # the literal pool follows the function: drop trailing data decoded as code
        theirs = theirs[:len(mine)]
    diffs = [(i, a, b) for i, (a, b) in enumerate(zip(mine, theirs)) if a != b]
    ok = len(mine) == len(theirs) and not diffs
    extra_msg = ""
    if name == "armv6m":
        rc, out, err = sh(["llvm-objdump", "-d", obj])
        wide = [l for l in out.decode().split("\n") if re.match(r"^\s*[0-9a-f]+:\s+([0-9a-f]{2} ){4}\s", l) and ".word" not in l]
        extra_msg = " ; 32-bit encodings: %d (%s)" % (len(wide), ", ".join(sorted(set(l.split("\t")[1] for l in wide if "\t" in l))) or "-")
    report(ok, "decode", name, "%d parsed vs %d decoded instructions, %d differ%s%s" % (len(mine), len(theirs), len(diffs), extra_msg,
                                                                                   ("; first: %r" % (diffs[0],)) if diffs else ""))


# ------------------------------------------------------------------ compiler
def native_lib(tmp):
    so = os.path.join(tmp, "xk.so")
    rc, out, err = sh(["gcc", "-O1", "-shared", "-fPIC", os.path.join(HERE, "xcheck_kernels.c"), "-o", so])
    if rc:
        raise Stuck("native build failed: " + err[-200:])
    return ctypes.CDLL(so)


def check_compiler(name, lib, tmp, rng, n=64):
    triple, _, comment = TARGETS[name]
    s_file = os.path.join(tmp, "xk-%s.s" % name)
    rc, out, err = sh(["clang", "--target=" + triple, "-O2", "-S", "-ffreestanding", os.path.join(HERE, "xcheck_kernels.c"), "-o", s_file])
    if rc:
        return report(False, "compiler", name, "clang failed: " + err[-200:])
    text = "\n".join(re.sub(comment, "", l) for l in open(s_file).read().split("\n"))
    items, tables, directives = asm_base.parse(text)
    f64 = name == "armv8a"
    fn = "k64" if f64 else "k32"
    regions = {"s": {"size": 40, "symbolic": True}}
    try:
        if name == "armv8a":
            m = asm_arm.A64(items, tables, fn, {"x0": ("ptr", "s", 0)}, regions)
            argregs = ["x1"]
        elif name in ("armv7m", "armv6", "armv6m"):
            m = asm_arm.A32(items, tables, fn, {"r0": ("ptr", "s", 0)}, regions, **asm_arm.PROFILES[name][3])
            argregs = ["r1", "r2"]
        elif name == "m68k":
            m = asm_m68k.M68K(items, tables, fn, {}, regions, stack_args=[("ptr", "s", 0), ("sym",), ("sym",)])
            argregs = ["stackarg1", "stackarg2"]
        else:
            return
        seg = m.run()[0]
        a = m.abi_facts()
    except Stuck as ex:
        return report(False, "compiler", name, "front end stuck on the compiler's output: %s" % ex)
    hist = asm_base.histogram(items, fn)
    bad = 0
    for _ in range(n):
        if f64:
            words = [rng.getrandbits(64) for _ in range(5)]
            args = [rng.getrandbits(64)]
            buf = (ctypes.c_uint64 * 5)(*words)
            lib.k64(buf, ctypes.c_uint64(args[0]))
            exp = b"".join(int(x).to_bytes(8, "little") for x in buf)
            mem = b"".join(x.to_bytes(8, "little") for x in words)
        else:
            words = [rng.getrandbits(32) for _ in range(10)]
            args = [rng.getrandbits(32), rng.getrandbits(32)]
            buf = (ctypes.c_uint32 * 10)(*words)
            lib.k32(buf, ctypes.c_uint32(args[0]), ctypes.c_uint32(args[1]))
            order = "big" if name == "m68k" else "little"
            exp = b"".join(int(x).to_bytes(4, order) for x in buf)
            mem = b"".join(x.to_bytes(4, order) for x in words)
        ins = []
        for d in seg.in_desc:
            if d[0] == "mem":
                ins.append(mem[d[2]])
            elif d[1] in argregs:
                ins.append(args[argregs.index(d[1])])
            else:
                ins.append(rng.getrandbits(d[2]))
        got = bytes(seg.b.evaluate(ins, seg.outs))
        bad += got != exp
    ok = bad == 0 and not a["callee_saved_bad"] and a["sp_restored"]
    report(ok, "compiler", name, "%s compiled by clang for %s: %d instructions (%s) through the front end, %d/%d random inputs equal the natively executed function; ABI facts %s" % (
        fn, triple, a["steps"], " ".join("%s:%d" % kv for kv in sorted(hist.items())), n - bad, n, "hold" if not a["callee_saved_bad"] and a["sp_restored"] else "VIOLATED " + str(a["callee_saved_bad"])))


# ------------------------------------------------------------------ native i386
RUNNER = r"""
typedef unsigned char u8;
extern void ascon_permute(void *state, u8 first_round);
static long sys3(long n, long a, long b, long c){ long r; __asm__ volatile("int $0x80":"=a"(r):"a"(n),"b"(a),"c"(b),"d"(c):"memory"); return r; }
static u8 buf[41];
void _start(void){
  for (;;) {
    int got = 0;
    while (got < 41) { long r = sys3(3, 0, (long)(buf + got), 41 - got); if (r <= 0) sys3(1, 0, 0, 0); got += r; }
    ascon_permute(buf + 1, buf[0]);
    sys3(4, 1, (long)(buf + 1), 40);
  }
}
"""


def check_native_i386(repo, tmp, rng, n=40):
    open(os.path.join(tmp, "runner.c"), "w").write(RUNNER)
    path = os.path.join(repo, "src", "core", "ascon-asm-i386.S")
    for cmd in (["gcc", "-m32", "-O1", "-ffreestanding", "-fno-stack-protector", "-fno-pic", "-c", "runner.c", "-o", "runner.o"],
                ["gcc", "-m32", "-c", "-I" + os.path.join(repo, "src"), "-I" + os.path.join(repo, "src", "core"), path, "-o", "perm.o"],
                ["ld", "-m", "elf_i386", "-z", "noexecstack", "-o", "t32", "runner.o", "perm.o"]):
        rc, out, err = sh(cmd, cwd=tmp)
        if rc:
            return report(False, "native", "i386", "cannot build the 32-bit runner (%s): %s" % (cmd[0], err[-200:]))
    layout, one = asm_i386.runs(repo, "i386")
    cases, inp = [], b""
    for k in range(13):
        for _ in range(n):
            xs = [rng.getrandbits(64) for _ in range(5)]
            cases.append((k, xs))
            inp += bytes([k]) + bytes(kern_perm.mem_bytes(layout, xs))
    rc, out, err = sh([os.path.join(tmp, "t32")], inp=inp)
    if len(out) != 40 * len(cases):
        return report(False, "native", "i386", "the 32-bit runner did not run here (rc %d, %d bytes)" % (rc, len(out)))
    segs_k = {}
    bad_ref = bad_model = 0
    for i, (k, xs) in enumerate(cases):
        got = out[40 * i:40 * i + 40]
        ys = xs
        for r in range(k, 12):
            ys = kern_perm.ascon_round(ys, r)
        bad_ref += got != bytes(kern_perm.mem_bytes(layout, ys))
        if k not in segs_k:
            segs_k[k] = one(k)
        segs = segs_k[k]
        vals = list(kern_perm.mem_bytes(layout, xs))
        vals += [rng.getrandbits(w) for w in segs[0].b.in_widths[len(vals):]]
        for s in segs:
            vals = s.b.evaluate(vals, s.outs)
        bad_model += bytes(vals[:40]) != got
    report(bad_ref == 0 and bad_model == 0, "native", "i386", "ascon-asm-i386.S executed on the host CPU (32-bit mode): %d states x first_round 0..12: %d differ from the reference permutation, %d differ from the translated chain evaluated in Python" % (
        len(cases), bad_ref, bad_model))


def main():
    repo = sys.argv[1] if len(sys.argv) > 1 else os.environ.get("VERIF_REPO", "/repo")
    only = sys.argv[2:]
    rng = random.Random(int(os.environ.get("VERIF_SEED", "1")))
    tmp = tempfile.mkdtemp(prefix="c18xc-")
    try:
        if shutil.which("clang") is None or shutil.which("llvm-objdump") is None:
            report(False, "tools", "clang", "clang / llvm-objdump not installed")
            return 1
        lib = native_lib(tmp)
        for name in TARGETS:
            if only and name not in only:
                continue
            check_macros(repo, name)
            if name != "m68k":
                check_decode(repo, name, tmp)
            else:          # clang 14's experimental m68k assembler cannot parse the GNU syntax of the file; no ColdFire target either
                print("xcheck decode m68k: skipped - clang 14's m68k assembler does not parse GNU/MIT operand syntax (link.w %fp, #-48 ; -4(%fp))")
            if name != "i386":
                check_compiler(name, lib, tmp, rng)
        if not only or "i386" in only:
            check_native_i386(repo, tmp, rng)
    finally:
        shutil.rmtree(tmp, ignore_errors=True)
    return 1 if FAIL else 0


if __name__ == "__main__":
    sys.exit(main())
