#!/usr/bin/env python3
"""(T) translator for C11, layer 1: constant-time kernels and mode-level C
functions, symbolically executed from the CURRENT source.

Every target function is compiled by clang (-O1, no unrolling/vectorising:
tools/llvmx.compile_ll) to LLVM IR and executed by llvmx.Exec with
  * ALL data symbolic: every byte of every input buffer, every word returned by
    the random source, every state byte after a call to the permutation;
  * only the PUBLIC scalars concrete: lengths, sizes, offsets, first rounds.
The executor (tools/symx.py, llvmx.py, symx_arith.py) has a *stuck* semantics:
a branch/select/switch condition, a pointer offset, a shift amount or a
memcpy/memset length that is not a constant raises Stuck.  So a run that
finishes has, by construction, a leakage trace (Builder.leak: every jump
taken, every (region, offset, size) read or written, every callee entered
with its public arguments) that is the same for every value of the data.
Word arithmetic on data (check_tag's `(accum - 1) >> 8`, the nonce carry) is
expanded into xor/and/or/shift networks by symx_arith.

Each target is run once per tuple of public control arguments in four modes
that differ ONLY in which inputs are symbolic:
    sym    everything symbolic
    mixed  every second data region concrete (random bytes), the rest symbolic
    conc1, conc2   everything concrete, two different random fillings
and the four traces are hashed.  coq/Gen/CtKernels.v gets the table
(function, configuration, control tuple, instructions executed, trace length,
trace hashes); Props/Properties_C11.v re-checks in Coq that all hashes of a
row agree and that every required (function, configuration, control tuple) is
present (Obl/CtObl.v lists them by hand).  A Stuck run prints a MISSING line
and leaves a row with 0 instructions, which fails ct_run_ok in Coq (=> the
check reports a violation naming the function, the shape and the reason).
The "mode" group and the assembly kernels run 3 of the 4 modes (sym, mixed,
conc1), the 15 498 byte-range rows two (sym, conc1).

Usage: kern_ct.py [repo] [--out file.v] [--only substring] [--json file]"""
import os, sys, re, json, time, random, hashlib, itertools
sys.path.insert(0, os.path.dirname(os.path.abspath(__file__)))
import symx, llvmx, symx_arith
from symx import Stuck, V
from llvmx import Ptr

symx_arith.install()

CFG_DEFS = {
    "default": [],                          # x86-64: 64-bit sliced state, assembly permutation
    "c64": ["ASCON_FORCE_C64"],
    "c32": ["ASCON_FORCE_C32"],
    "directxor": ["ASCON_FORCE_DIRECT_XOR"],
    "generic": ["ASCON_FORCE_GENERIC"],
}
MODES = ("sym", "mixed", "conc1", "conc2")


# ------------------------------------------------------------------ modules
_modcache = {}


def hoist_const_exprs(mod):
    """llvmx's call parser takes the last token of each argument; a constant expression argument
    (`i8* getelementptr inbounds ([8 x i8], [8 x i8]* @IV, i64 0, i64 0)`, `bitcast (...)`) is hoisted
    into an instruction of its own in front of the call (same meaning, no edit of llvmx.py)."""
    for f in mod.funcs.values():
        n = 0
        for lab, blk in f.blocks.items():
            out = []
            for ins in blk:
                if " call " in " " + ins and re.search(r"(getelementptr|bitcast) (inbounds )?\(", ins):
                    while True:
                        m = re.search(r"(getelementptr (?:inbounds )?|bitcast )\(", ins[ins.index("call"):])
                        if not m:
                            break
                        a = ins.index("call") + m.start()
                        j = ins.index("(", a)
                        depth, k = 0, j
                        while True:
                            if ins[k] == "(":
                                depth += 1
                            elif ins[k] == ")":
                                depth -= 1
                                if depth == 0:
                                    break
                            k += 1
                        inner = ins[j + 1:k]
                        n += 1
                        tmp = "%%cx.%d" % n
                        if m.group(1).startswith("bitcast"):
                            out.append("%s = bitcast %s" % (tmp, inner))
                        else:
                            out.append("%s = %s%s" % (tmp, m.group(1), inner))
                        ins = ins[:a] + tmp + ins[k + 1:]
                out.append(ins)
            f.blocks[lab] = out


def load(repo, srcs, cfg="default", extra_defs=()):
    """compile the source files and merge them into one llvmx.Module"""
    key = (repo, tuple(srcs), cfg, tuple(extra_defs))
    if key in _modcache:
        return _modcache[key]
    incs = [os.path.join(repo, "src"), os.path.join(repo, "src", "ascon")]
    mod = None
    for s in srcs:
        txt = llvmx.compile_ll(os.path.join(repo, "src", s), defs=CFG_DEFS[cfg] + list(extra_defs), incs=incs)
        m = llvmx.Module(txt)
        hoist_const_exprs(m)
        if mod is None:
            mod = m
        else:
            for k, v in m.funcs.items():
                mod.funcs.setdefault(k, v)
            for k, v in m.globals.items():
                mod.globals.setdefault(k, v)
            for k, v in m.types.named.items():
                mod.types.named.setdefault(k, v)
    _modcache[key] = mod
    return mod


_asmcache = {}


def load_asm(repo, src):
    key = (repo, src)
    if key not in _asmcache:
        import asm_x86
        path = os.path.join(repo, "src", src)
        text = asm_x86.preprocess(path, incs=[os.path.join(repo, "src"), os.path.join(repo, "src", "core"), os.path.join(repo, "src", "masking")])
        _asmcache[key] = asm_x86.parse(text)
    return _asmcache[key]


ARG_REGS = ["rdi", "rsi", "rdx", "rcx", "r8", "r9"]


def run_once_asm(parsed, fn, args, datas, mode, rand_fns=()):
    """the checked-in x86-64 assembly through tools/asm_x86.py (same stuck semantics; the random source always returns a
    fresh symbolic word, caller-saved registers are fresh symbolic words after a call)"""
    import asm_x86
    items, tables, directives = parsed
    rng = random.Random({"sym": 0, "mixed": 7, "conc1": 1, "conc2": 2}[mode])
    regions, k = {}, 0
    for d in datas:
        if d.out:
            regions[d.name] = {"size": d.size}
            continue
        symbolic = mode == "sym" or (mode == "mixed" and k % 2 == 0)
        k += 1
        regions[d.name] = {"size": d.size, "symbolic": True} if symbolic else {"size": d.size, "init": [rng.getrandbits(8) for _ in range(d.size)]}
    regs = {}
    for r, a in zip(ARG_REGS, args):
        regs[r] = a
    m = asm_x86.X86(items, tables, fn.lstrip("@"), regs, regions, rand_fns=[x.lstrip("@") for x in rand_fns])
    segs = m.run()
    leak = [e for sg in segs for e in sg.b.leak]
    m.b = segs[-1].b
    return m, leak


# ------------------------------------------------------------------ one run
class Data:
    """a data region: n bytes, all of them data (symbolic in mode sym)"""

    def __init__(self, name, size, out=False, public=None, pub_at=None):
        self.name, self.size, self.out, self.public = name, size, out, public
        self.pub_at = pub_at or {}       # offset -> concrete byte: public bookkeeping fields inside a secret object (count, mode, posn, counter)


def run_once(mod, fn, args, datas, mode, rand_fns=(), havoc=(), zero_fns=("@explicit_bzero", "@memset_s"), extra_cb=None, ret_havoc=(),
             noop_fns=("@ascon_backend_init", "@ascon_backend_free"), exec_cls=None):
    """args: list of ('ptr', region, off) | ('int', v).  datas: list of Data.
    havoc: names of external functions whose first argument points to a 40-byte state that is replaced by fresh data.
    ret_havoc: external functions that only return a fresh data word.
    Returns (Exec, leak list)."""
    seed = {"sym": 0, "mixed": 7, "conc1": 1, "conc2": 2}[mode]
    rng = random.Random(seed)
    regions = {}
    k = 0
    for d in datas:
        if d.out:
            regions[d.name] = {"size": d.size}
            continue
        if d.public is not None:
            regions[d.name] = {"size": d.size, "init": list(d.public)}
            continue
        symbolic = mode == "sym" or (mode == "mixed" and k % 2 == 0)
        k += 1
        if symbolic:
            regions[d.name] = {"size": d.size, "symbolic": True}
        else:
            regions[d.name] = {"size": d.size, "init": [rng.getrandbits(8) for _ in range(d.size)]}
    cb = {}
    fresh_sym = mode in ("sym", "mixed")

    def fresh(ex, w):
        return ex.b.inp(w) if fresh_sym else ex.b.const(w, rng.getrandbits(w))

    def mk_rand(name):
        def f(ex, a):
            w = {"@ascon_trng_generate_64": 64, "@ascon_trng_generate_32": 32}.get(name, 64)
            ex.b.leak.append(("C", name))
            return fresh(ex, w)
        return f

    def mk_havoc(name):
        def f(ex, a):
            p = a[0][1]
            pub = [x[1].conc if isinstance(x[1], V) and x[1].is_conc() else None for x in a[1:]]
            if any(isinstance(x[1], V) and not x[1].is_conc() for x in a[1:]):
                raise Stuck("data-dependent argument of " + name)
            ex.b.leak.append(("C", name, p.region, p.off, tuple(pub)))
            r = ex.mem.regions[p.region]
            r.check(p.off, 40, "write")
            for i in range(40):
                r.cells[p.off + i] = ("v", fresh(ex, 8))
            return None
        return f

    def mk_zero(name):
        def f(ex, a):
            p = a[0][1]
            n = ex.conc(a[1][1], "length of " + name)
            ex.b.leak.append(("C", name, p.region, p.off, n))
            for i in range(n):
                ex.mem.store(p.region, p.off + i, ex.b.const(8, 0))
            return None
        return f

    def mk_ret(name, w):
        def f(ex, a):
            ex.b.leak.append(("C", name))
            return fresh(ex, w)
        return f

    for n in rand_fns:
        cb[n] = mk_rand(n)
    for n in havoc:
        cb[n] = mk_havoc(n)
    for n in zero_fns:
        cb[n] = mk_zero(n)
    for n, w in ret_havoc:
        cb[n] = mk_ret(n, w)
    def strlen(ex, a):
        p = a[0][1]
        n = 0
        while True:
            v = ex.mem.load(p.region, p.off + n, 1)
            if not v.is_conc():
                raise Stuck("strlen() of data")
            if v.conc == 0:
                return ex.b.const(64, n)
            n += 1
    cb["@strlen"] = strlen
    for n in noop_fns:          # back-end hooks that are empty on the host back ends (defined beside the permutation)
        cb[n] = (lambda nm: lambda ex, a: ex.b.leak.append(("C", nm)))(n)
    if extra_cb:
        cb.update(extra_cb(fresh))
    ex = (exec_cls or llvmx.Exec)(mod, fn, args, regions, cut=False, callbacks=cb)      # exec_cls: tools/kern_bounds.py passes its stricter executor
    for d in datas:
        for off, val in d.pub_at.items():
            ex.mem.regions[d.name].cells[off] = ("v", ex.b.const(8, val))
    ex.run()
    return ex, ex.b.leak


def trace_hash(leak):
    h = hashlib.sha256()
    for e in leak:
        h.update(repr(e).encode())
        h.update(b"\n")
    return h.hexdigest()[:16]


# ------------------------------------------------------------------ targets
class Target:
    def __init__(self, name, cfg, srcs, fn, ctl_names, ctl_values, setup, rand_fns=(), havoc=(), defs=(), ret_havoc=(), group="kernel", extra_cb=None):
        self.name, self.cfg, self.srcs, self.fn = name, cfg, srcs, fn
        self.ctl_names, self.ctl_values, self.setup = ctl_names, ctl_values, setup
        self.rand_fns, self.havoc, self.defs, self.ret_havoc, self.group, self.extra_cb = rand_fns, havoc, defs, ret_havoc, group, extra_cb


TARGETS = []


def target(*a, **k):
    TARGETS.append(Target(*a, **k))


# --- tag comparison: all of tag1, tag2 and the plaintext symbolic
def setup_check_tag(ctl):
    plen, size = ctl
    return ([("ptr", "plaintext", 0), ("int", plen), ("ptr", "tag1", 0), ("ptr", "tag2", 0), ("int", size)],
            [Data("plaintext", plen), Data("tag1", size), Data("tag2", size)])


target("ascon_aead_check_tag", "default", ["aead/ascon-aead-common.c"], "@ascon_aead_check_tag", ["plaintext_len", "size"],
       [(p, s) for s in (16, 0, 1, 8, 32) for p in range(21)], setup_check_tag)


# --- nonce increment (the session nonce is not secret, but the carry chain must not branch either)
target("ascon_aead_increment_nonce", "default", ["aead/ascon-aead-util.c"], "@ascon_aead_increment_nonce", [], [()],
       lambda ctl: ([("ptr", "npub", 0)], [Data("npub", 16)]))


# --- masked words (C64 and C32 back ends): shares and random words symbolic, size/offset concrete
TRNG = ("@ascon_trng_generate_64", "@ascon_trng_generate_32")
WORD = 32          # sizeof(ascon_masked_word_t) with ASCON_MASKED_MAX_SHARES = 4


def mw_targets(cfg, src):
    def t(fn, ctl_names, ctl_values, setup):
        target(fn, cfg, [src], "@" + fn, ctl_names, ctl_values, setup, rand_fns=TRNG)
    for n in (2, 3, 4):
        p = "ascon_masked_word_x%d_" % n
        t(p + "zero", [], [()], lambda c: ([("ptr", "word", 0), ("ptr", "trng", 0)], [Data("word", WORD, out=True), Data("trng", 64)]))
        t(p + "load", [], [()], lambda c: ([("ptr", "word", 0), ("ptr", "data", 0), ("ptr", "trng", 0)], [Data("word", WORD, out=True), Data("data", 8), Data("trng", 64)]))
        t(p + "load_partial", ["size"], [(s,) for s in range(8)],
          lambda c: ([("ptr", "word", 0), ("ptr", "data", 0), ("int", c[0]), ("ptr", "trng", 0)], [Data("word", WORD, out=True), Data("data", max(c[0], 1)), Data("trng", 64)]))
        t(p + "load_32", [], [()], lambda c: ([("ptr", "word", 0), ("ptr", "d1", 0), ("ptr", "d2", 0), ("ptr", "trng", 0)],
                                               [Data("word", WORD, out=True), Data("d1", 4), Data("d2", 4), Data("trng", 64)]))
        t(p + "store", [], [()], lambda c: ([("ptr", "data", 0), ("ptr", "word", 0)], [Data("data", 8, out=True), Data("word", WORD)]))
        t(p + "store_partial", ["size"], [(s,) for s in range(8)],
          lambda c: ([("ptr", "data", 0), ("int", c[0]), ("ptr", "word", 0)], [Data("data", max(c[0], 1), out=True), Data("word", WORD)]))
        t(p + "randomize", [], [()], lambda c: ([("ptr", "dest", 0), ("ptr", "src", 0), ("ptr", "trng", 0)], [Data("dest", WORD), Data("src", WORD), Data("trng", 64)]))
        t(p + "xor", [], [()], lambda c: ([("ptr", "dest", 0), ("ptr", "src", 0)], [Data("dest", WORD), Data("src", WORD)]))
        t(p + "replace", ["size"], [(s,) for s in range(1, 8)],
          lambda c: ([("ptr", "dest", 0), ("ptr", "src", 0), ("int", c[0])], [Data("dest", WORD), Data("src", WORD)]))
        for m in (2, 3, 4):
            if m != n:
                t(p + "from_x%d" % m, [], [()], lambda c: ([("ptr", "dest", 0), ("ptr", "src", 0), ("ptr", "trng", 0)], [Data("dest", WORD), Data("src", WORD), Data("trng", 64)]))
    t("ascon_masked_word_pad", ["offset"], [(o,) for o in range(8)], lambda c: ([("ptr", "word", 0), ("int", c[0])], [Data("word", WORD)]))
    t("ascon_masked_word_separator", [], [()], lambda c: ([("ptr", "word", 0)], [Data("word", WORD)]))


mw_targets("x86_64_asm", "masking/ascon-word-asm-x86-64.S")     # the masked-word code the default x86-64 build really uses
mw_targets("c64", "masking/ascon-masked-word-c64.c")
mw_targets("c32", "masking/ascon-masked-word-c32.c")


# --- byte-range operations on the state (partial-block handling branches only on offset/size)
PAIRS = [(o, s) for o in range(41) for s in range(41 - o)]


def br_targets(cfg, src):
    def t(fn, setup):
        target(fn, cfg, [src], "@" + fn, ["offset", "size"], PAIRS, setup, group="byterange")
    st = lambda: Data("state", 40)
    t("ascon_add_bytes", lambda c: ([("ptr", "state", 0), ("ptr", "data", 0), ("int", c[0]), ("int", c[1])], [st(), Data("data", max(c[1], 1))]))
    t("ascon_overwrite_bytes", lambda c: ([("ptr", "state", 0), ("ptr", "data", 0), ("int", c[0]), ("int", c[1])], [st(), Data("data", max(c[1], 1))]))
    t("ascon_overwrite_with_zeroes", lambda c: ([("ptr", "state", 0), ("int", c[0]), ("int", c[1])], [st()]))
    t("ascon_extract_bytes", lambda c: ([("ptr", "state", 0), ("ptr", "data", 0), ("int", c[0]), ("int", c[1])], [st(), Data("data", max(c[1], 1), out=True)]))
    t("ascon_extract_and_add_bytes", lambda c: ([("ptr", "state", 0), ("ptr", "input", 0), ("ptr", "output", 0), ("int", c[0]), ("int", c[1])],
                                                [st(), Data("input", max(c[1], 1)), Data("output", max(c[1], 1), out=True)]))
    t("ascon_extract_and_overwrite_bytes", lambda c: ([("ptr", "state", 0), ("ptr", "input", 0), ("ptr", "output", 0), ("int", c[0]), ("int", c[1])],
                                                      [st(), Data("input", max(c[1], 1)), Data("output", max(c[1], 1), out=True)]))


br_targets("default", "core/ascon-sliced64.c")
br_targets("c32", "core/ascon-sliced32.c")
br_targets("directxor", "core/ascon-direct-xor.c")


# --- the permutation itself (C back ends; the x86-64 assembly is covered by tools/kern_perm.py / asm_x86.py:
#     its 13 chains exist in Gen/Kern_x86_64.v only if no branch/address depended on data)
for cfg, src in (("c64", "core/ascon-c64.c"), ("c32", "core/ascon-c32.c"), ("directxor", "core/ascon-c64.c")):
    target("ascon_permute", cfg, [src], "@ascon_permute", ["first_round"], [(r,) for r in range(13)],
           lambda c: ([("ptr", "state", 0), ("int", c[0])], [Data("state", 40)]), group="permutation")

target("ascon_permute", "x86_64_asm", ["core/ascon-asm-x86-64.S"], "@ascon_permute", ["first_round"], [(r,) for r in range(13)],
       lambda c: ([("ptr", "state", 0), ("int", c[0])], [Data("state", 40)]), group="permutation")
for n in (2, 3, 4):
    target("ascon_x%d_permute" % n, "x86_64_asm", ["masking/ascon-x%d-asm-x86-64.S" % n], "@ascon_x%d_permute" % n, ["first_round"], [(r,) for r in range(13)],
           lambda c: ([("ptr", "state", 0), ("int", c[0]), ("ptr", "preserve", 0)], [Data("state", 160), Data("preserve", 32)]), group="permutation")

# --- masked permutations (C back ends): shares and preserved randomness symbolic
for n in (2, 3, 4):
    for cfg, suf in (("c64", "c64"), ("c32", "c32")):
        target("ascon_x%d_permute" % n, cfg, ["masking/ascon-x%d-%s.c" % (n, suf)], "@ascon_x%d_permute" % n, ["first_round"], [(r,) for r in range(13)],
               (lambda nn: lambda c: ([("ptr", "state", 0), ("int", c[0]), ("ptr", "preserve", 0)], [Data("state", 160), Data("preserve", 32)]))(n),
               group="permutation")


# ------------------------------------------------------------------ whole mode-level functions
# The public keyed functions themselves, executed from entry to return: their own translation unit plus the
# shared mode code and the byte-range operations of the configuration are linked (calls are inlined by the
# executor); ONLY the permutation is external: a call replaces the 40 state bytes by fresh data (its own
# leakage is the "permutation" group above / Gen/Kern_*.v).  All buffers are data; lengths are concrete.
CORE = {"default": ["core/ascon-sliced64.c"], "c64": ["core/ascon-sliced64.c"], "c32": ["core/ascon-sliced32.c"],
        "directxor": ["core/ascon-direct-xor.c"], "generic": ["core/ascon-direct-xor.c"]}
PERM = ("@ascon_permute",)
API_CFGS = ("default", "c32", "directxor")
HASH_CFGS = ("default", "c32")        # the HMAC family is written over the hash API: no back-end macros of its own


def L(r):
    return [0, 1, r - 1, r, r + 1, 2 * r + 3]


def api(name, srcs, ctl_names, ctl_values, setup, cfgs=API_CFGS, **kw):
    for cfg in cfgs:
        target(name, cfg, srcs + CORE[cfg] + ["core/ascon-clean.c"], "@" + name, ctl_names, ctl_values, setup, havoc=PERM, group="mode", **kw)


def nz(n):
    return max(n, 1)


def enc_setup(klen, keyobj=None):
    def f(c):
        adl, ml = c
        return ([("ptr", "c", 0), ("ptr", "clen", 0), ("ptr", "m", 0), ("int", ml), ("ptr", "ad", 0), ("int", adl), ("ptr", "npub", 0), ("ptr", "k", 0)],
                [Data("c", ml + 16, out=True), Data("clen", 8, out=True), Data("m", nz(ml)), Data("ad", nz(adl)), Data("npub", 16), Data("k", klen)])
    return f


def dec_setup(klen):
    def f(c):
        adl, ml = c
        return ([("ptr", "m", 0), ("ptr", "mlen", 0), ("ptr", "c", 0), ("int", ml + 16), ("ptr", "ad", 0), ("int", adl), ("ptr", "npub", 0), ("ptr", "k", 0)],
                [Data("m", nz(ml), out=True), Data("mlen", 8, out=True), Data("c", ml + 16), Data("ad", nz(adl)), Data("npub", 16), Data("k", klen)])
    return f


for alg, klen, rate in (("ascon128", 16, 8), ("ascon128a", 16, 16), ("ascon80pq", 20, 8)):
    shapes = [(a, m) for a in L(rate) for m in L(rate)]
    suf = alg[5:]
    api(alg + "_aead_encrypt", ["aead/ascon-aead-%s.c" % suf, "aead/ascon-aead-common.c"], ["adlen", "mlen"], shapes, enc_setup(klen))
    api(alg + "_aead_decrypt", ["aead/ascon-aead-%s.c" % suf, "aead/ascon-aead-common.c"], ["adlen", "mlen"], shapes, dec_setup(klen))
    api(alg + "_siv_encrypt", ["siv/ascon-siv-%s.c" % suf, "aead/ascon-aead-common.c"], ["adlen", "mlen"], shapes, enc_setup(klen))
    api(alg + "_siv_decrypt", ["siv/ascon-siv-%s.c" % suf, "aead/ascon-aead-common.c"], ["adlen", "mlen"], shapes, dec_setup(klen))
    ishapes = [(a, m) for a in (0, 1, 8, 19) for m in (0, 7, 8, 19)]
    api(alg + "_isap_aead_encrypt", ["isap/ascon-isap-%s.c" % suf, "aead/ascon-aead-common.c"], ["adlen", "mlen"], ishapes, enc_setup(80))
    api(alg + "_isap_aead_decrypt", ["isap/ascon-isap-%s.c" % suf, "aead/ascon-aead-common.c"], ["adlen", "mlen"], ishapes, dec_setup(80))
    api(alg + "_isap_aead_init", ["isap/ascon-isap-%s.c" % suf, "aead/ascon-aead-common.c"], [], [()],
        (lambda kl: lambda c: ([("ptr", "pk", 0), ("ptr", "k", 0)], [Data("pk", 80, out=True), Data("k", kl)]))(klen))
    # ISAP key life cycle: the saved key image (both expanded states, 80 bytes) and the key object are secret
    isap = ["isap/ascon-isap-%s.c" % suf, "aead/ascon-aead-common.c"]
    api(alg + "_isap_aead_load_key", isap, [], [()], lambda c: ([("ptr", "pk", 0), ("ptr", "k", 0)], [Data("pk", 80, out=True), Data("k", 80)]))
    api(alg + "_isap_aead_save_key", isap, [], [()], lambda c: ([("ptr", "pk", 0), ("ptr", "k", 0)], [Data("pk", 80), Data("k", 80, out=True)]))
    api(alg + "_isap_aead_free", isap, [], [()], lambda c: ([("ptr", "pk", 0)], [Data("pk", 80)]))
    # incremental AEAD: posn is public bookkeeping inside the object
    poff = 72 if klen == 16 else 76
    inc = ["aead/ascon-aead-inc-%s.c" % suf, "aead/ascon-aead-common.c", "aead/ascon-aead-util.c"]
    # init / reinit: key and nonce secret; public is only WHICH pointers are given (0 = NULL, 1 = a buffer, npub 2 = the object's
    # own nonce field, the documented way to keep the session nonce)
    for op, fresh_obj in (("init", True), ("reinit", False)):
        api(alg + "_aead_" + op, inc, ["npub_given", "k_given"], [(n, k) for n in ((1, 0) if fresh_obj else (1, 0, 2)) for k in (1, 0)],
            (lambda po, kl, fo: lambda c: ([("ptr", "state", 0), ("ptr", "state", 40 + kl) if c[0] == 2 else ("ptr", "npub", 0) if c[0] else ("ptr", None, 0),
                                            ("ptr", "k", 0) if c[1] else ("ptr", None, 0)],
                                           [Data("state", 80, out=True) if fo else Data("state", 80, pub_at={po: 3}), Data("npub", 16), Data("k", kl)]))(poff, klen, fresh_obj))
    api(alg + "_aead_start", inc, ["adlen"], [(a,) for a in L(rate)],
        (lambda po: lambda c: ([("ptr", "state", 0), ("ptr", "ad", 0), ("int", c[0])], [Data("state", 80, pub_at={po: 0}), Data("ad", nz(c[0]))]))(poff))
    blk = [(p, n) for p in (0, 1, rate - 1) for n in L(rate)]
    for op in ("encrypt_block", "decrypt_block"):
        api(alg + "_aead_" + op, inc, ["posn", "len"], blk,
            (lambda po: lambda c: ([("ptr", "state", 0), ("ptr", "in", 0), ("ptr", "out", 0), ("int", c[1])],
                                   [Data("state", 80, pub_at={po: c[0]}), Data("in", nz(c[1])), Data("out", nz(c[1]), out=True)]))(poff))
    api(alg + "_aead_encrypt_finalize", inc, ["posn"], [(p,) for p in range(rate)],
        (lambda po: lambda c: ([("ptr", "state", 0), ("ptr", "tag", 0)], [Data("state", 80, pub_at={po: c[0]}), Data("tag", 16, out=True)]))(poff))
    api(alg + "_aead_decrypt_finalize", inc, ["posn"], [(p,) for p in range(rate)],
        (lambda po: lambda c: ([("ptr", "state", 0), ("ptr", "tag", 0)], [Data("state", 80, pub_at={po: c[0]}), Data("tag", 16)]))(poff))

# PRF / MAC
PRF = ["mac/ascon-prf.c", "aead/ascon-aead-common.c"]
api("ascon_prf", PRF, ["outlen", "inlen"], [(o, i) for o in (0, 1, 16, 17, 35) for i in L(32)],
    lambda c: ([("ptr", "out", 0), ("int", c[0]), ("ptr", "in", 0), ("int", c[1]), ("ptr", "key", 0)], [Data("out", nz(c[0]), out=True), Data("in", nz(c[1])), Data("key", 16)]))
api("ascon_prf_fixed", PRF, ["outlen", "inlen"], [(o, i) for o in (1, 16, 35) for i in L(32)],
    lambda c: ([("ptr", "out", 0), ("int", c[0]), ("ptr", "in", 0), ("int", c[1]), ("ptr", "key", 0)], [Data("out", nz(c[0]), out=True), Data("in", nz(c[1])), Data("key", 16)]))
api("ascon_prf_short", PRF, ["outlen", "inlen"], [(o, i) for o in (0, 1, 8, 16, 17) for i in (0, 1, 8, 15, 16, 17)],
    lambda c: ([("ptr", "out", 0), ("int", c[0]), ("ptr", "in", 0), ("int", c[1]), ("ptr", "key", 0)], [Data("out", nz(c[0]), out=True), Data("in", nz(c[1])), Data("key", 16)]))
api("ascon_mac", PRF, ["inlen"], [(i,) for i in L(32)],
    lambda c: ([("ptr", "tag", 0), ("ptr", "in", 0), ("int", c[0]), ("ptr", "key", 0)], [Data("tag", 16, out=True), Data("in", nz(c[0])), Data("key", 16)]))
api("ascon_mac_verify", PRF, ["inlen"], [(i,) for i in L(32)],
    lambda c: ([("ptr", "tag", 0), ("ptr", "in", 0), ("int", c[0]), ("ptr", "key", 0)], [Data("tag", 16), Data("in", nz(c[0])), Data("key", 16)]))
api("ascon_prf_absorb", PRF, ["count", "mode", "inlen"], [(cn, md, i) for (cn, md) in ((0, 0), (5, 0), (31, 0), (0, 1), (7, 1)) for i in L(32)],
    lambda c: ([("ptr", "state", 0), ("ptr", "in", 0), ("int", c[2])], [Data("state", 48, pub_at={40: c[0], 41: c[1]}), Data("in", nz(c[2]))]))
for fn_, ols in (("ascon_prf_reinit", None), ("ascon_prf_fixed_reinit", (0, 1, 16, 1 << 29))):
    api(fn_, PRF, [] if ols is None else ["outlen"], [()] if ols is None else [(o,) for o in ols],
        (lambda fixed: lambda c: ([("ptr", "state", 0), ("ptr", "key", 0)] + ([("int", c[0])] if fixed else []),
                                  [Data("state", 48, pub_at={40: 5, 41: 1}), Data("key", 16)]))(ols is not None))
api("ascon_prf_squeeze", PRF, ["count", "mode", "outlen"], [(cn, md, i) for (cn, md) in ((0, 0), (5, 0), (0, 1), (7, 1), (15, 1)) for i in L(16)],
    lambda c: ([("ptr", "state", 0), ("ptr", "out", 0), ("int", c[2])], [Data("state", 48, pub_at={40: c[0], 41: c[1]}), Data("out", nz(c[2]), out=True)]))

# HMAC / HKDF / PBKDF2-HMAC over ASCON-HASH and ASCON-HASHA
for a, x in (("", "xof"), ("a", "xofa")):
    H = ["hash/ascon-hash%s.c" % a, "hash/ascon-%s.c" % x]
    api("ascon_hmac" + a, ["mac/ascon-hmac%s.c" % a] + H, ["keylen", "inlen"], [(k, i) for k in (0, 16, 32, 33, 64, 65, 100) for i in (0, 1, 32, 67)],
        lambda c: ([("ptr", "out", 0), ("ptr", "key", 0), ("int", c[0]), ("ptr", "in", 0), ("int", c[1])], [Data("out", 32, out=True), Data("key", nz(c[0])), Data("in", nz(c[1]))]), cfgs=HASH_CFGS)
    api("ascon_hkdf" + a, ["kdf/ascon-hkdf%s.c" % a, "mac/ascon-hmac%s.c" % a] + H, ["outlen", "keylen", "saltlen", "infolen"],
        [(o, k, sl, il) for o in (0, 1, 33, 70) for k in (16,) for sl in (0, 65) for il in (0, 5)],
        lambda c: ([("ptr", "out", 0), ("int", c[0]), ("ptr", "key", 0), ("int", c[1]), ("ptr", "salt", 0), ("int", c[2]), ("ptr", "info", 0), ("int", c[3])],
                   [Data("out", nz(c[0]), out=True), Data("key", nz(c[1])), Data("salt", nz(c[2])), Data("info", nz(c[3]))]), cfgs=HASH_CFGS)
    api("ascon_hmac%s_reinit" % a, ["mac/ascon-hmac%s.c" % a] + H, ["keylen"], [(k,) for k in (0, 16, 32, 33, 64, 65, 100)],
        lambda c: ([("ptr", "state", 0), ("ptr", "key", 0), ("int", c[0])], [Data("state", 48, pub_at={40: 3, 41: 0}), Data("key", nz(c[0]))]), cfgs=HASH_CFGS)
    # expand on an object whose counter/posn are public bookkeeping (prk and out are secret)
    api("ascon_hkdf%s_expand" % a, ["kdf/ascon-hkdf%s.c" % a, "mac/ascon-hmac%s.c" % a] + H, ["counter", "posn", "infolen", "outlen"],
        [(cn, ps, il, o) for (cn, ps) in ((1, 32), (2, 0), (2, 10), (255, 32), (0, 32), (0, 20)) for il in (0, 5) for o in (0, 1, 22, 23, 40)],
        lambda c: ([("ptr", "state", 0), ("ptr", "info", 0), ("int", c[2]), ("ptr", "out", 0), ("int", c[3])],
                   [Data("state", 66, pub_at={64: c[0], 65: c[1]}), Data("info", nz(c[2])), Data("out", nz(c[3]), out=True)]), cfgs=HASH_CFGS)
api("ascon_pbkdf2_hmac", ["password/ascon-pbkdf2-hmac.c", "mac/ascon-hmac.c", "hash/ascon-hash.c", "hash/ascon-xof.c"], ["outlen", "passwordlen", "saltlen", "count"],
    [(o, p, sl, n) for o in (1, 33) for p in (8, 70) for sl in (0, 8) for n in (0, 1, 2, 3)],
    lambda c: ([("ptr", "out", 0), ("int", c[0]), ("ptr", "pw", 0), ("int", c[1]), ("ptr", "salt", 0), ("int", c[2]), ("int", c[3])],
               [Data("out", nz(c[0]), out=True), Data("pw", nz(c[1])), Data("salt", nz(c[2]))]), cfgs=HASH_CFGS)
api("ascon_pbkdf2", ["password/ascon-pbkdf2.c", "hash/ascon-xof.c"], ["outlen", "passwordlen", "saltlen", "count"],
    [(o, p, sl, n) for o in (1, 32, 33) for p in (0, 8) for sl in (0, 8) for n in (0, 1, 2, 3)],
    lambda c: ([("ptr", "out", 0), ("int", c[0]), ("ptr", "pw", 0), ("int", c[1]), ("ptr", "salt", 0), ("int", c[2]), ("int", c[3])],
               [Data("out", nz(c[0]), out=True), Data("pw", nz(c[1])), Data("salt", nz(c[2]))]))

# KMAC / KDF over cXOF
for a, x in (("", "xof"), ("a", "xofa")):
    api("ascon_kmac" + a, ["mac/ascon-kmac%s.c" % a, "hash/ascon-%s.c" % x], ["keylen", "inlen", "customlen", "outlen"],
        [(k, i, cl, o) for k in (0, 16, 33) for i in (0, 1, 8, 19) for cl in (0, 5) for o in (16, 32, 41)],
        lambda c: ([("ptr", "key", 0), ("int", c[0]), ("ptr", "in", 0), ("int", c[1]), ("ptr", "custom", 0), ("int", c[2]), ("ptr", "out", 0), ("int", c[3])],
                   [Data("key", nz(c[0])), Data("in", nz(c[1])), Data("custom", nz(c[2])), Data("out", nz(c[3]), out=True)]))
    for fam_, dir_ in (("kmac", "mac"), ("kdf", "kdf")):
        api("ascon_%s%s_reinit" % (fam_, a), ["%s/ascon-%s%s.c" % (dir_, fam_, a), "hash/ascon-%s.c" % x], ["keylen", "customlen", "outlen"],
            [(k, cl, o) for k in (0, 16, 33) for cl in (0, 5) for o in (0, 32, 41)],
            lambda c: ([("ptr", "state", 0), ("ptr", "key", 0), ("int", c[0]), ("ptr", "custom", 0), ("int", c[1]), ("int", c[2])],
                       [Data("state", 48, pub_at={40: 3, 41: 1}), Data("key", nz(c[0])), Data("custom", nz(c[1]))]))
    api("ascon_kdf" + a, ["kdf/ascon-kdf%s.c" % a, "hash/ascon-%s.c" % x], ["outlen", "keylen", "customlen"],
        [(o, k, cl) for o in (0, 1, 32, 41) for k in (0, 16, 33) for cl in (0, 5)],
        lambda c: ([("ptr", "out", 0), ("int", c[0]), ("ptr", "key", 0), ("int", c[1]), ("ptr", "custom", 0), ("int", c[2])],
                   [Data("out", nz(c[0]), out=True), Data("key", nz(c[1])), Data("custom", nz(c[2]))]))


# PRNG: the object is secret except count/mode/counter; the system source returns fresh data and a public status
def trng_cb(fresh):
    def gen(ex, a):
        p, n = a[0][1], ex.conc(a[1][1], "length passed to ascon_trng_generate")
        ex.b.leak.append(("C", "@ascon_trng_generate", p.region, p.off, n))
        for i in range(n):
            ex.mem.store(p.region, p.off + i, fresh(ex, 8))
        return ex.b.const(32, 1)
    return {"@ascon_trng_generate": gen}


def prng_obj(count, mode, counter):
    pub = {40: count, 41: mode}
    for i in range(4):
        pub[48 + i] = (counter >> (8 * i)) & 255
    return Data("state", 56, pub_at=pub)


# the whitening layer between the system source and the masked code (src/random/ascon-trng-mixer.c): its sponge state is
# secret (it determines every masking word), posn is public bookkeeping
def mixer_obj(posn):
    return Data("trng", 48, pub_at={0: posn, 1: 0, 2: 0, 3: 0})


MIX = ["random/ascon-trng-mixer.c"]
api("ascon_trng_init", MIX, [], [()], lambda c: ([("ptr", "trng", 0)], [Data("trng", 48, out=True)]), extra_cb=lambda fresh: trng_cb(fresh))
api("ascon_trng_generate_32", MIX, ["posn"], [(0,), (4,), (8,)], lambda c: ([("ptr", "trng", 0)], [mixer_obj(c[0])]))
api("ascon_trng_generate_64", MIX, ["posn"], [(0,), (4,), (8,)], lambda c: ([("ptr", "trng", 0)], [mixer_obj(c[0])]))
api("ascon_trng_reseed", MIX, ["posn"], [(0,), (8,)], lambda c: ([("ptr", "trng", 0)], [mixer_obj(c[0])]), extra_cb=lambda fresh: trng_cb(fresh))

RND = ["random/ascon-prng.c", "hash/ascon-xof.c"]
api("ascon_random_init", RND, [], [()], lambda c: ([("ptr", "state", 0)], [Data("state", 56, out=True)]), extra_cb=trng_cb)
api("ascon_random_reseed", RND, ["count", "mode"], [(0, 0), (0, 1), (3, 1)], lambda c: ([("ptr", "state", 0)], [prng_obj(c[0], c[1], 5)]), extra_cb=trng_cb)
api("ascon_random_fetch", RND, ["count", "mode", "counter", "outlen"],
    [(cn, md, ctr, o) for (cn, md) in ((0, 0), (0, 1)) for ctr in (0, 16383, 16384, 70000) for o in (0, 1, 8, 9, 40)],
    lambda c: ([("ptr", "state", 0), ("ptr", "out", 0), ("int", c[3])], [prng_obj(c[0], c[1], c[2]), Data("out", nz(c[3]), out=True)]), extra_cb=trng_cb)
api("ascon_random_feed", RND, ["count", "mode", "size"], [(cn, md, n) for (cn, md) in ((0, 0), (0, 1)) for n in (0, 1, 8, 32, 33)],
    lambda c: ([("ptr", "state", 0), ("ptr", "entropy", 0), ("int", c[2])], [prng_obj(c[0], c[1], 9), Data("entropy", nz(c[2]))]), extra_cb=trng_cb)


# ------------------------------------------------------------------ driver
def run_chunk(job):
    repo, ti, lo, hi = job
    t_start = time.time()
    t = TARGETS[ti]
    rows, errors = [], []
    is_asm = t.srcs[0].endswith(".S")
    try:
        mod = load_asm(repo, t.srcs[0]) if is_asm else load(repo, t.srcs, t.cfg, t.defs)
    except Stuck as ex:
        return ti, lo, [], (["%s [%s]: %s" % (t.name, t.cfg, str(ex)[:300])] if lo == 0 else []), 0.0
    if is_asm and not any(it[0] == "label" and it[1] == t.fn.lstrip("@") for it in mod[0]):
        return ti, lo, [], (["%s [%s]: label not found in %s" % (t.name, t.cfg, t.srcs[0])] if lo == 0 else []), 0.0
    if not is_asm and t.fn not in mod.funcs:
        return ti, lo, [], (["%s [%s]: function not found in the LLVM IR of %s" % (t.name, t.cfg, ",".join(t.srcs))] if lo == 0 else []), 0.0
    for ctl in t.ctl_values[lo:hi]:
        hashes, info = [], None
        try:
            for mode in (("sym", "conc1") if t.group == "byterange" else MODES[:3] if (t.group == "mode" or is_asm) else MODES):
                args, datas = t.setup(ctl)
                if is_asm:
                    ex, leak = run_once_asm(mod, t.fn, args, datas, mode, rand_fns=t.rand_fns)
                else:
                    ex, leak = run_once(mod, t.fn, args, datas, mode, rand_fns=t.rand_fns, havoc=t.havoc, ret_havoc=t.ret_havoc, extra_cb=t.extra_cb)
                hashes.append(trace_hash(leak))
                if mode == "sym":
                    perms = [e[4][0] for e in leak if e[0] == "C" and e[1] == "@ascon_permute"]
                    info = (ex.steps, len(leak), len(ex.b.in_widths), len(ex.b.body), perms)
        except Stuck as ex:
            errors.append("%s [%s] %s: %s" % (t.name, t.cfg, dict(zip(t.ctl_names, ctl)), str(ex)[:300]))
            rows.append((ctl, None, []))
            continue
        except (KeyError, AttributeError, TypeError, IndexError, ValueError, RecursionError) as ex:
            errors.append("%s [%s] %s: executor error %s: %s" % (t.name, t.cfg, dict(zip(t.ctl_names, ctl)), type(ex).__name__, str(ex)[:200]))
            rows.append((ctl, None, []))
            continue
        rows.append((ctl, info, hashes))
    return ti, lo, rows, errors, time.time() - t_start


def source_digest(repo):
    """content hash of everything the table depends on: src/ of the tree and the executor"""
    h = hashlib.sha256()
    top = os.path.join(repo, "src")
    for root, dirs, files in sorted(os.walk(top)):
        dirs.sort()
        for f in sorted(files):
            if f.endswith((".c", ".h", ".S")):
                p = os.path.join(root, f)
                h.update(os.path.relpath(p, top).encode()); h.update(open(p, "rb").read())
    here = os.path.dirname(os.path.abspath(__file__))
    for f in ("kern_ct.py", "symx.py", "symx_arith.py", "llvmx.py", "asm_x86.py"):
        h.update(open(os.path.join(here, f), "rb").read())
    return h.hexdigest()


NPARTS = 16


def emit(results, out, stats, digest):
    """coq/Gen/CtKernels.v (header, digest, the concatenation) + CtKernels_p<k>.v, k < NPARTS: the rows, spread over
    NPARTS files of similar size so that `make -j` type-checks them in parallel (one 861-row entry takes ~5 s)."""
    hdr = ["(* GENERATED by tools/kern_ct.py from /repo's current source: leakage traces of the symbolic executor (C11 layer 1).",
           "   Row = (control tuple, instructions executed, trace length, symbolic inputs, hash of the trace with all data symbolic,",
           "   hashes of the traces with other choices of which inputs are symbolic / concrete values, first rounds of the",
           "   permutation calls in order).",
           "   source-digest: %s *)" % digest,
           "From Coq Require Import List NArith String.", "From AsconV Require Import Sym.CtTable.", "Import ListNotations.",
           "Local Open Scope N_scope.", "Local Open Scope string_scope.", ""]
    parts = [[] for _ in range(NPARTS)]
    load_ = [0] * NPARTS
    order = sorted(range(len(results)), key=lambda i: -len(results[i][1]))
    where = {}
    for i in order:
        k = load_.index(min(load_))
        where[i] = k
        load_[k] += len(results[i][1]) + 5
    for i, (t, rows) in enumerate(results):
        body = ";\n    ".join(("mkRun [%s] %d %d %d 0x%s [%s] [%s]" % ("; ".join(str(c) for c in ctl), info[0], info[1], info[2], hs[0], "; ".join("0x" + h for h in hs[1:]),
                                                                           "; ".join(str(x) for x in info[4])))
                              if info is not None else ("mkRun [%s] 0 0 0 0 [] []" % "; ".join(str(c) for c in ctl))       # stuck: fails ct_run_ok
                              for ctl, info, hs in rows)
        parts[where[i]].append((i, "Definition ct_e%d : ct_entry := mkEntry \"%s\" \"%s\" \"%s\" [\n    %s]." % (i, t.name, t.cfg, t.group, body)))
    base = out[:-2]
    for k in range(NPARTS):
        L = list(hdr) + [d for _, d in parts[k]]
        L.append("Definition ct_part%d : list ct_entry := [%s]." % (k, "; ".join("ct_e%d" % i for i, _ in parts[k])))
        open("%s_p%d.v" % (base, k), "w").write("\n".join(L) + "\n")
    L = list(hdr)
    L[[i for i, x in enumerate(L) if x.startswith("From AsconV")][0]] = \
        "From AsconV Require Import Sym.CtTable %s." % " ".join("Gen.%s_p%d" % (os.path.basename(base), k) for k in range(NPARTS))
    L.append("Definition ct_entries : list ct_entry := %s." % " ++ ".join("ct_part%d" % k for k in range(NPARTS)))
    L.append("(* stats: %s *)" % json.dumps(stats))
    open(out, "w").write("\n".join(L) + "\n")


def main():
    import multiprocessing
    argv = sys.argv[1:]
    repo = os.environ.get("VERIF_REPO", "/repo")
    V_ = os.path.dirname(os.path.dirname(os.path.abspath(__file__)))
    out = os.path.join(V_, "coq", "Gen", "CtKernels.v")
    only, jout, if_stale, jobs = None, None, False, 16
    i = 0
    while i < len(argv):
        if argv[i] == "--out":
            out = argv[i + 1]; i += 2
        elif argv[i] == "--only":
            only = argv[i + 1]; i += 2
        elif argv[i] == "--json":
            jout = argv[i + 1]; i += 2
        elif argv[i] == "--jobs":
            jobs = int(argv[i + 1]); i += 2
        elif argv[i] == "--if-stale":
            if_stale = True; i += 1
        else:
            repo = argv[i]; i += 1
    t0 = time.time()
    digest = source_digest(repo)
    if if_stale and os.path.exists(out):
        head = open(out).read(2000)
        if "source-digest: " + digest in head:
            tail = open(out).read().rstrip().split("\n")[-1]
            print("kern_ct: coq/Gen/CtKernels.v is up to date with the source (digest %s) %s" % (digest[:12], tail))
            # the MISSING lines of the run that produced the file are stored beside it
            side = out + ".missing"
            if os.path.exists(side):
                sys.stdout.write(open(side).read())
            return
    ncases = symx_arith.selftest()
    sel = [ti for ti, t in enumerate(TARGETS) if not only or only in t.name]
    # compile every (sources, configuration) once, before forking
    for ti in sel:
        t = TARGETS[ti]
        try:
            if t.srcs[0].endswith(".S"):
                load_asm(repo, t.srcs[0])
            else:
                load(repo, t.srcs, t.cfg, t.defs)
        except Stuck:
            pass
    work = []
    for ti in sel:
        n = len(TARGETS[ti].ctl_values)
        step = max(1, min(64, (n + jobs - 1) // jobs))
        for lo in range(0, n, step):
            work.append((repo, ti, lo, lo + step))
    got, cpu = {}, {}
    if jobs > 1 and len(work) > 1:
        with multiprocessing.Pool(jobs) as pool:
            for ti, lo, rows, errors, dt in pool.imap_unordered(run_chunk, work):
                got[(ti, lo)] = (rows, errors)
                cpu[ti] = cpu.get(ti, 0) + dt
    else:
        for w in work:
            ti, lo, rows, errors, dt = run_chunk(w)
            got[(ti, lo)] = (rows, errors)
            cpu[ti] = cpu.get(ti, 0) + dt
    results, nrows, missing = [], 0, []
    per_group = {}
    for ti in sel:
        t = TARGETS[ti]
        rows = []
        for (a, lo) in sorted(k for k in got if k[0] == ti):
            r, e = got[(a, lo)]
            rows += r
            missing += e
        nrows += len([r for r in rows if r[1] is not None])
        g = per_group.setdefault(t.group, [0, 0])
        g[0] += 1; g[1] += len([r for r in rows if r[1] is not None])
        results.append((t, rows))
    os.makedirs(os.path.dirname(out), exist_ok=True)
    stats = {"functions": len(results), "rows": nrows, "modes": len(MODES), "stuck": len(missing), "groups": per_group,
             "adder_selftest_cases": ncases, "wall_s": round(time.time() - t0, 1)}
    emit(results, out, stats, digest)
    open(out + ".missing", "w").write("".join("MISSING kern_ct " + e + "\n" for e in missing))
    for e in missing:
        print("MISSING kern_ct " + e)
    if os.environ.get("KERN_CT_PROFILE"):
        for ti in sorted(cpu, key=lambda k: -cpu[k])[:40]:
            print("  cpu %6.1fs  %s [%s] %d tuples" % (cpu[ti], TARGETS[ti].name, TARGETS[ti].cfg, len(TARGETS[ti].ctl_values)))
    if jout:
        json.dump(stats, open(jout, "w"))
    print("kern_ct: %d functions, %d control tuples x %d(3) modes executed, %d stuck (%.1fs); %s" %
          (len(results), nrows, len(MODES), len(missing), time.time() - t0, ", ".join("%s %d/%d" % (g, v[0], v[1]) for g, v in sorted(per_group.items()))))


if __name__ == "__main__":
    main()
