#!/usr/bin/env python3
"""(T) translator for C20: prints the clang AST of ascon_bytes_to_hex and
ascon_bytes_from_hex (src/core/ascon-hex.c of the tree given as argv[1]) as
terms of the mini-C embedding coq/Sym/MiniC.v into coq/Gen/HexAst.v.  The
translation is syntax directed and knows nothing about what the functions are
meant to do; every C type is the one clang attached to the node.  Anything
outside the embedded fragment prints a MISSING line (the check then reports
that the translation no longer applies).  coq/Obl/HexOblDefs.v + HexObl.v interprets the
result and compares it with Model/Hexm.v."""
import os, sys, json, subprocess, hashlib, codecs

V = os.path.dirname(os.path.dirname(os.path.abspath(__file__)))
FUNCS = [("ascon_bytes_to_hex", "to_hex"), ("ascon_bytes_from_hex", "from_hex")]


class Unsupported(Exception):
    pass


def docs(txt):
    dec, i, out = json.JSONDecoder(), 0, []
    while i < len(txt):
        while i < len(txt) and txt[i].isspace():
            i += 1
        if i >= len(txt):
            break
        d, i = dec.raw_decode(txt, i)
        out.append(d)
    return out


def ctype(q):
    q = q.replace("const", "").replace("volatile", "").strip()
    q = " ".join(q.split())
    m = {"char": "Tchar", "signed char": "Tchar", "unsigned char": "Tuchar", "int": "Tint", "unsigned int": "Tuint",
         "unsigned long": "Tulong", "size_t": "Tulong"}
    if q not in m:
        raise Unsupported("type `%s`" % q)
    return m[q]


def qt(n):
    t = n.get("type", {})
    return t.get("desugaredQualType") or t.get("qualType", "")


def s(x):
    return '"%s"' % x


BIN = {"+": "Oadd", "-": "Osub", "*": "Omul", "<<": "Oshl", ">>": "Oshr", "&": "Oband", "|": "Obor",
       "<": "Olt", "<=": "Ole", ">": "Ogt", ">=": "Oge", "==": "Oeq", "!=": "One"}


def z(v):
    v = int(v)
    return "(%d)" % v if v < 0 else "%d" % v


def strip(n):
    while n["kind"] in ("ParenExpr",) or (n["kind"] == "ImplicitCastExpr" and n.get("castKind") in ("LValueToRValue", "NoOp")):
        n = n["inner"][0]
    return n


def pexpr(n):
    k = n["kind"]
    if k == "ParenExpr" or (k == "ImplicitCastExpr" and n.get("castKind") in ("LValueToRValue", "ArrayToPointerDecay", "NoOp")):
        return pexpr(n["inner"][0])
    if k == "DeclRefExpr":
        return "(PVar %s)" % s(n["referencedDecl"]["name"])
    if k == "ConditionalOperator":
        c, a, b = n["inner"]
        return "(PCond %s %s %s)" % (expr(c), pexpr(a), pexpr(b))
    raise Unsupported("pointer expression %s" % k)


def expr(n):
    k = n["kind"]
    if k == "ParenExpr":
        return expr(n["inner"][0])
    if k == "ImplicitCastExpr" or k == "CStyleCastExpr":
        ck = n.get("castKind")
        if ck in ("LValueToRValue", "NoOp"):
            return expr(n["inner"][0])
        if ck == "IntegralCast":
            return "(ECast %s %s)" % (ctype(qt(n)), expr(n["inner"][0]))
        raise Unsupported("cast %s" % ck)
    if k in ("IntegerLiteral", "CharacterLiteral"):
        return "(EConst %s)" % z(n["value"])
    if k == "DeclRefExpr":
        return "(EVar %s)" % s(n["referencedDecl"]["name"])
    if k == "BinaryOperator":
        op = n["opcode"]
        a, b = n["inner"]
        if op == "&&":
            return "(EAnd %s %s)" % (expr(a), expr(b))
        if op == "||":
            return "(EOr %s %s)" % (expr(a), expr(b))
        if op in BIN:
            return "(EBin %s %s %s %s)" % (ctype(qt(n)), BIN[op], expr(a), expr(b))
        raise Unsupported("binary operator %s in an expression" % op)
    if k == "UnaryOperator":
        op, inner = n["opcode"], n["inner"][0]
        if op == "-":
            return "(ENeg %s %s)" % (ctype(qt(n)), expr(inner))
        if op == "*":
            i2 = strip(inner)
            if i2["kind"] == "UnaryOperator" and i2["opcode"] == "++" and i2.get("isPostfix") and strip(i2["inner"][0])["kind"] == "DeclRefExpr":
                return "(EDerefPostInc %s)" % s(strip(i2["inner"][0])["referencedDecl"]["name"])
            raise Unsupported("dereference other than *p++")
        if op == "++" and n.get("isPostfix") and strip(inner)["kind"] == "DeclRefExpr":
            return "(EPostInc %s %s)" % (ctype(qt(n)), s(strip(inner)["referencedDecl"]["name"]))
        raise Unsupported("unary operator %s" % op)
    if k == "ConditionalOperator":
        c, a, b = n["inner"]
        return "(ECond %s %s %s)" % (expr(c), expr(a), expr(b))
    if k == "ArraySubscriptExpr":
        base, idx = n["inner"]
        return "(EIndex %s %s)" % (pexpr(base), expr(idx))
    raise Unsupported("expression %s" % k)


def seq(ss):
    if not ss:
        return "SSkip"
    r = ss[-1]
    for x in reversed(ss[:-1]):
        r = "(SSeq %s\n %s)" % (x, r)
    return r


def stmt(n):
    k = n["kind"]
    if k == "CompoundStmt":
        return seq([stmt(c) for c in n.get("inner", [])])
    if k == "DeclStmt":
        out = []
        for d in n["inner"]:
            if d["kind"] != "VarDecl":
                raise Unsupported("declaration %s" % d["kind"])
            t = qt(d)
            init = d.get("inner", [None])[0]
            if "[" in t:
                if init is None or init["kind"] != "StringLiteral":
                    raise Unsupported("array `%s` without a string literal initialiser" % d["name"])
                raw = init["value"]
                body = codecs.decode(raw[1:-1], "unicode_escape").encode("latin-1")
                out.append("(SDeclTable %s [%s])" % (s(d["name"]), "; ".join(str(b) for b in body + b"\0")))
            elif "*" in t:
                if init is None:
                    raise Unsupported("pointer `%s` without initialiser" % d["name"])
                out.append("(SDeclPtr %s %s)" % (s(d["name"]), pexpr(init)))
            else:
                if init is None:
                    raise Unsupported("scalar `%s` without initialiser" % d["name"])
                out.append("(SDecl %s %s %s)" % (ctype(t), s(d["name"]), expr(init)))
        return seq(out)
    if k == "BinaryOperator" and n["opcode"] == "=":
        lhs, rhs = n["inner"]
        l = strip(lhs)
        if l["kind"] == "DeclRefExpr":
            return "(SAssign %s %s %s)" % (ctype(qt(l)), s(l["referencedDecl"]["name"]), expr(rhs))
        if l["kind"] == "ArraySubscriptExpr":
            base, idx = l["inner"]
            return "(SStore %s %s %s)" % (pexpr(base), expr(idx), expr(rhs))
        raise Unsupported("assignment to %s" % l["kind"])
    if k == "UnaryOperator" and n["opcode"] == "--" and not n.get("isPostfix") and strip(n["inner"][0])["kind"] == "DeclRefExpr":
        return "(SPreDec %s %s)" % (ctype(qt(n)), s(strip(n["inner"][0])["referencedDecl"]["name"]))
    if k == "IfStmt":
        inner = n["inner"]
        c, a = inner[0], inner[1]
        b = stmt(inner[2]) if len(inner) > 2 else "SSkip"
        return "(SIf %s\n %s\n %s)" % (expr(c), stmt(a), b)
    if k == "WhileStmt":
        c, body = n["inner"]
        return "(SWhile %s\n %s)" % (expr(c), stmt(body))
    if k == "ContinueStmt":
        return "SContinue"
    if k == "ReturnStmt":
        return "(SReturn %s)" % expr(n["inner"][0])
    raise Unsupported("statement %s%s" % (k, (" " + n.get("opcode", "")) if "opcode" in n else ""))


def main():
    repo = sys.argv[1] if len(sys.argv) > 1 else os.environ.get("VERIF_REPO", "/repo")
    src = os.path.join(repo, "src", "core", "ascon-hex.c")
    outp = os.path.join(V, "coq", "Gen", "HexAst.v")
    os.makedirs(os.path.dirname(outp), exist_ok=True)
    if not os.path.exists(src):
        print("MISSING hexast: %s does not exist" % src)
        return 1
    sha = hashlib.sha256(open(src, "rb").read()).hexdigest()
    parts = ["(* generated by tools/hexast.py from src/core/ascon-hex.c of the tree under test (sha256 %s) - do not edit *)" % sha[:16],
             "From AsconV Require Import Sym.MiniC.", "From Coq Require Import ZArith List String.", "Import ListNotations.",
             "Local Open Scope Z_scope.", "Local Open Scope string_scope.", ""]
    rc = 0
    for cname, short in FUNCS:
        p = subprocess.run(["clang", "-fsyntax-only", "-I" + os.path.join(repo, "src"), "-Xclang", "-ast-dump=json",
                            "-Xclang", "-ast-dump-filter=" + cname, src], stdout=subprocess.PIPE, stderr=subprocess.PIPE)
        fn = None
        for d in docs(p.stdout.decode("utf-8", "replace")):
            if d.get("kind") == "FunctionDecl" and d.get("name") == cname and any(c.get("kind") == "CompoundStmt" for c in d.get("inner", [])):
                fn = d
        if fn is None:
            print("MISSING hexast: no definition of %s in %s (clang rc %d)" % (cname, src, p.returncode))
            parts.append("(* %s: not found *)" % cname)
            rc = 1
            continue
        try:
            params = [c["name"] for c in fn["inner"] if c["kind"] == "ParmVarDecl"]
            body = [c for c in fn["inner"] if c["kind"] == "CompoundStmt"][0]
            top = body.get("inner", [])
            loops = [c for c in top if c["kind"] == "WhileStmt"]
            if len(loops) != 1:
                raise Unsupported("expected exactly one top-level while loop, found %d" % len(loops))
            locs = []
            for c in top:
                if c["kind"] == "DeclStmt":
                    locs += [d["name"] for d in c["inner"] if d["kind"] == "VarDecl"]
                if c["kind"] == "WhileStmt":
                    break
            pro = []
            for c in top:
                if c["kind"] == "WhileStmt":
                    break
                pro.append(stmt(c))
            parts += ["Definition %s_prologue : stmt :=\n %s." % (short, seq(pro))]
            parts += ["Definition %s_params : list string := [%s]." % (short, "; ".join(s(x) for x in params)),
                      "Definition %s_locals : list string := [%s]." % (short, "; ".join(s(x) for x in locs)),
                      "Definition %s_fn : stmt :=\n %s." % (short, stmt(body)),
                      "Definition %s_loop_cond : expr := %s." % (short, expr(loops[0]["inner"][0])),
                      "Definition %s_body : stmt :=\n %s." % (short, stmt(loops[0]["inner"][1])), ""]
            print("hexast: %s translated (%d parameters, %d locals before the loop)" % (cname, len(params), len(locs)))
        except Unsupported as e:
            print("MISSING hexast: %s uses a construct outside the embedded fragment: %s" % (cname, e))
            parts.append("(* %s: %s *)" % (cname, e))
            rc = 1
    new = "\n".join(parts) + "\n"
    if not os.path.exists(outp) or open(outp).read() != new:
        open(outp, "w").write(new)
    return rc


if __name__ == "__main__":
    sys.exit(main())
