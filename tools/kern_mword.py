#!/usr/bin/env python3
"""(T) translator for the masked-word toolkit (C10): load / store / randomize / xor / zero of
src/masking/ascon-masked-word-c64.c for 2, 3, 4 shares, as clang -O1 LLVM IR, executed with all
shares, data bytes and random words symbolic.  Emits coq/Gen/MWord_c64.v: for each function the
translated program, a post-processing program (what is observed of the outputs) and the
specification program over the same inputs; Coq checks post(prog(v)) = spec(v) for all v."""
import os, sys
sys.path.insert(0, os.path.dirname(os.path.abspath(__file__)))
import llvmx
from symx import Stuck, write_if_changed

MAXS = 4
WB = 8 * MAXS          # bytes of one masked word


def parse_sexp(text):
    toks = text.replace("(", " ( ").replace(")", " ) ").split()
    pos = [0]

    def rd():
        t = toks[pos[0]]; pos[0] += 1
        if t == "(":
            l = []
            while toks[pos[0]] != ")":
                l.append(rd())
            pos[0] += 1
            return l
        return t
    return rd()


_TMPS = []        # values of the instructions of the program being evaluated (for WTmp)


def ev(e, ins, widths):
    """concrete evaluation of a wexpr: -> (value, width)"""
    op = e[0]
    if op == "WTmp":
        return _TMPS[int(e[1])]
    if op == "WIn":
        i = int(e[1]); return ins[i], widths[i]
    if op == "WConst":
        return int(e[2]) & ((1 << int(e[1])) - 1), int(e[1])
    if op in ("WXor", "WAnd", "WOr"):
        (a, w), (b, _) = ev(e[1], ins, widths), ev(e[2], ins, widths)
        return {"WXor": a ^ b, "WAnd": a & b, "WOr": a | b}[op], w
    if op == "WNot":
        a, w = ev(e[1], ins, widths); return ~a & ((1 << w) - 1), w
    if op == "WRotr":
        k = int(e[1]); a, w = ev(e[2], ins, widths); k %= w
        return ((a >> k) | (a << (w - k))) & ((1 << w) - 1), w
    if op == "WShl":
        k = int(e[1]); a, w = ev(e[2], ins, widths); return (a << k) & ((1 << w) - 1), w
    if op == "WShr":
        k = int(e[1]); a, w = ev(e[2], ins, widths); return a >> k, w
    if op == "WTrunc":
        k = int(e[1]); a, w = ev(e[2], ins, widths); return a & ((1 << k) - 1), k
    if op == "WZext":
        k = int(e[1]); a, w = ev(e[2], ins, widths); return a, k
    if op == "WConcat":
        (h, hw), (l, lw) = ev(e[1], ins, widths), ev(e[2], ins, widths)
        return (h << lw) | l, hw + lw
    raise ValueError(op)


def prog_outs(ptext):
    m = ptext[ptext.index("p_outs := [") + len("p_outs := ["):ptext.rindex("]")]
    return [parse_sexp(x) for x in m.split(";")] if m.strip() else []


def find_cex(b, outs, post, spec, tries=16, seed=11):
    """random search for an input on which post(prog(v)) <> spec(v): -> None | dict"""
    import random
    rng = random.Random(seed)
    po, so = prog_outs(post), prog_outs(spec)
    for t in range(tries):
        ins = [rng.getrandbits(w) if t else 0 for w in b.in_widths]
        mid = b.evaluate(ins, outs)
        mw = [o.w for o in outs]
        got = [ev(e, mid, mw)[0] for e in po]
        want = [ev(e, ins, b.in_widths)[0] for e in so]
        if got != want:
            k = [i for i in range(len(got)) if got[i] != want[i]][0]
            return {"inputs": ["%x" % x for x in ins], "observation_index": k, "got": "%x" % got[k], "want": "%x" % want[k]}
    return None


def le64(base):
    e = "(WIn %d)" % base
    for b in range(1, 8):
        e = "(WConcat (WIn %d) %s)" % (base + b, e)
    return e


def be64(base):
    e = "(WIn %d)" % (base + 7)
    for b in range(6, -1, -1):
        e = "(WConcat (WIn %d) %s)" % (base + b, e)
    return e


def xor_all(terms):
    v = terms[0]
    for t in terms[1:]:
        v = "(WXor %s %s)" % (v, t)
    return v


def rotl(e, k):
    return e if k % 64 == 0 else "(WRotr %d %s)" % (64 - k % 64, e)


def rotr(e, k):
    return e if k % 64 == 0 else "(WRotr %d %s)" % (k % 64, e)


def value(n, base):
    """unmasked value of the n-share word whose bytes are inputs base.."""
    return xor_all([rotl(le64(base + 8 * j), 11 * j) for j in range(n)])


def share(base, j):
    return le64(base + 8 * j)


def prog(outs):
    return "{| p_body := []; p_outs := [%s] |}" % "; ".join(outs)


def bytes_of_be(e):
    return ["(WTrunc 8 (WShr %d %s))" % (8 * (7 - k), e) for k in range(8)]


def bswap64(e):
    bs = ["(WTrunc 8 (WShr %d %s))" % (8 * k, e) if k else "(WTrunc 8 %s)" % e for k in range(8)]
    r = bs[7]
    for k in range(6, -1, -1):
        r = "(WConcat %s %s)" % (bs[k], r)
    return r


GS = [("id", lambda e: e), ("bswap", bswap64)]
GS_COQ = ["RId %d", "RBswap %d"]      # the same choices as constructors of Obl/MWordSpec.rentry


def coq_desc(cfn, kind, n, rand, be="B64", front="FLlvm", raw=True, maxs=None):
    """the descriptor from which Obl/MWordSpec.v builds the observation and specification programs itself (std_post / std_spec);
    Obl/FnObl.fn_obl_ok checks that fo_post / fo_spec printed next to it are syntactically those"""
    return '{| fd_fn := "%s"; fd_kind := %s; fd_be := %s; fd_front := %s; fd_raw := %s; fd_n := %d; fd_max := %d; fd_rand := [%s] |}' % (
        cfn, kind, be, front, "true" if raw else "false", n, MAXS if maxs is None else maxs, "; ".join(rand))


def obligations(n):
    """(function, regions (ordered), args, build(R, g) -> (post, spec)); input index layout: the symbolic regions in
    order, then whatever else the front end adds; R = indices of the random words in call order; g = how the
    random word enters (identity in C, byte-swapped in some assembly routines: a bijection either way)"""
    obs = []
    sur = ["(WIn %d)" % i for i in range(8 * n, WB)]
    # load(word, data, trng): the value is the data, the surplus shares are cleared, and share j >= 1 is
    # the rotation of its own fresh word alone
    obs.append(("load", [("word", WB, True), ("data", 8, False)], ["word", "data", None],
                lambda R, g: (prog([value(n, 0)] + [share(0, j) for j in range(1, n)] + sur),
                              prog([be64(WB)] + [rotr(g(R[j - 1]), 11 * j) for j in range(1, n)] + ["(WConst 8 0)" for _ in sur])), "KLoad"))
    # store(data, word)
    obs.append(("store", [("data", 8, True), ("word", WB, False)], ["data", "word"],
                lambda R, g: (prog(["(WIn %d)" % i for i in range(8)]), prog(bytes_of_be(value(n, 8)))), "KStore"))
    # randomize(dest, src, trng): value preserved; share j moved by its own fresh word
    obs.append(("randomize", [("dest", WB, True), ("src", WB, False)], ["dest", "src", None],
                lambda R, g: (prog([value(n, 0)] + [share(0, j) for j in range(n)] + sur),
                              prog([value(n, WB)] + [xor_all([share(WB, 0)] + [g(R[j - 1]) for j in range(1, n)])] +
                                   ["(WXor %s %s)" % (share(WB, j), rotr(g(R[j - 1]), 11 * j)) for j in range(1, n)] + sur)), "(KRandomize false)"))
    # xor(dest, src)
    obs.append(("xor", [("dest", WB, True), ("src", WB, False)], ["dest", "src"],
                lambda R, g: (prog([value(n, 0)] + sur), prog(["(WXor %s %s)" % (value(n, 0), value(n, WB))] + sur)), "KXor"))
    return obs


def conv_obligations():
    """share-count conversions of the word toolkit, with distinct and with aliased operands (the AEAD code converts in
    place): the value is kept and the surplus shares of the result are zero"""
    obs = []
    for n in (2, 3, 4):
        for m in (2, 3, 4):
            if n == m:
                continue
            fn = "x%d_from_x%d" % (n, m)
            sur = lambda base: ["(WIn %d)" % (base + i) for i in range(8 * n, WB)]
            obs.append((fn, "", [("dest", WB, True), ("src", WB, False)], ["dest", "src", None],
                        lambda R, g, n=n, m=m: (prog([value(n, 0)] + ["(WIn %d)" % i for i in range(8 * n, WB)]),
                                                prog([value(m, WB)] + ["(WConst 8 0)" for i in range(8 * n, WB)])), ("(KFromX %d false)" % m, n)))
            obs.append((fn, "_inplace", [("word", WB, True)], ["word", "word", None],
                        lambda R, g, n=n, m=m: (prog([value(n, 0)] + ["(WIn %d)" % i for i in range(8 * n, WB)]),
                                                prog([value(m, 0)] + ["(WConst 8 0)" for i in range(8 * n, WB)])), ("(KFromX %d true)" % m, n)))
    return obs


def state_obligations():
    """masked states (5 words of 32 bytes): randomize keeps every value and moves every share of every word by its own
    fresh word; conversions between share counts (also in place) keep every value"""
    obs = []
    KW = 32
    for n in (2, 3, 4):
        def b_rand(R, g, n=n):
            post, spec = [], []
            for w in range(5):
                post += [value(n, KW * w)] + [share(KW * w, j) for j in range(n)] + ["(WIn %d)" % (KW * w + i) for i in range(8 * n, KW)]
                r = lambda j: g(R[w * (n - 1) + j - 1])
                spec += [value(n, KW * w)] + [xor_all([share(KW * w, 0)] + [r(j) for j in range(1, n)])] + \
                        ["(WXor %s %s)" % (share(KW * w, j), rotr(r(j), 11 * j)) for j in range(1, n)] + \
                        ["(WIn %d)" % (KW * w + i) for i in range(8 * n, KW)]
            return prog(post), prog(spec)
        obs.append(("ascon_x%d_randomize" % n, "", [("state", 5 * KW, True)], ["state", None], b_rand, ("KStRandomize", n)))
        for m in (2, 3, 4):
            fn = "ascon_x%d_copy_from_x%d" % (n, m)
            obs.append((fn, "", [("dest", 5 * KW, True), ("src", 5 * KW, False)], ["dest", "src", None],
                        lambda R, g, n=n, m=m: (prog([value(n, KW * w) for w in range(5)]), prog([value(m, 5 * KW + KW * w) for w in range(5)])),
                        ("(KStCopy %d false)" % m, n)))
            if n != m:
                obs.append((fn, "_inplace", [("state", 5 * KW, True)], ["state", "state", None],
                            lambda R, g, n=n, m=m: (prog([value(n, KW * w) for w in range(5)]), prog([value(m, KW * w) for w in range(5)])),
                            ("(KStCopy %d true)" % m, n)))
    return obs


def settle(s, build):
    """choose, per random word, how it enters (by concrete evaluation); -> (post, spec, description, cex, Coq text of the choices)"""
    import itertools
    R = [i for i, d in enumerate(s.in_desc) if d[0] == "rand"]
    combos = [tuple(0 for _ in R), tuple(1 for _ in R)]
    if 1 < len(R) <= 4:
        combos += [c for c in itertools.product((0, 1), repeat=len(R)) if c not in combos]
    last = None
    for c in combos:
        pick = dict(zip(R, c))
        g = lambda ri: GS[pick[ri]][1]("(WIn %d)" % ri)
        desc = ",".join(GS[x][0] for x in c) or "-"
        rand = [GS_COQ[x] % ri for ri, x in zip(R, c)]
        try:
            post, spec = build(R, g)
        except IndexError:
            return None, None, desc, {"error": "the function draws %d random words, fewer than the masking needs" % len(R)}, rand
        cex = find_cex(s.b, s.outs, post, spec)
        if cex is None:
            return post, spec, desc, None, rand
        if last is None:
            last = (post, spec, desc, cex, rand)
    return last


def be32(base):
    e = "(WIn %d)" % (base + 3)
    for b in range(2, -1, -1):
        e = "(WConcat (WIn %d) %s)" % (base + b, e)
    return e


def key_obligations(n, bits):
    """masked keys: init (mask), extract, randomize_with_trng; the masked key is nw words of 32 bytes"""
    nw = 2 if bits == 128 else 6
    kb = bits // 8
    KW = 32
    obs = []
    surplus = lambda w0: [w0 + i for i in range(8 * n, KW)]
    # init(masked, key): masked is uninitialised before; inputs are the key bytes then the random words
    if bits == 128:
        vals = [be64(0), be64(8)]
    else:
        vals = [be64(0), be64(8), "(WShl 32 (WZext 64 %s))" % be32(16), "(WZext 64 %s)" % be32(0), be64(4), be64(12)]

    def b_init(R, g):
        post = [value(n, KW * w) for w in range(nw)] + [share(KW * w, j) for w in range(nw) for j in range(1, n)] + \
               ["(WIn %d)" % i for w in range(nw) for i in surplus(KW * w)]
        spec = vals + [rotr(g(R[w * (n - 1) + j - 1]), 11 * j) for w in range(nw) for j in range(1, n)] + \
               ["(WConst 8 0)" for w in range(nw) for i in surplus(KW * w)]
        return prog(post), prog(spec)
    obs.append(("init", [("masked", KW * nw, True, False), ("key", kb, False, True)], ["masked", "key"], b_init, "(KKeyInit %d)" % bits))

    def b_extract(R, g):
        b = kb   # masked bytes start after the key buffer bytes in the input list
        spec = bytes_of_be(value(n, b)) + bytes_of_be(value(n, b + KW))
        if bits == 160:
            spec += bytes_of_be(value(n, b + 2 * KW))[:4]
        return prog(["(WIn %d)" % i for i in range(kb)]), prog(spec)
    obs.append(("extract", [("key", kb, True, True), ("masked", KW * nw, False, True)], ["masked", "key"], b_extract, "(KKeyExtract %d)" % bits))

    # randomize_with_trng(masked, trng): every word keeps its value and every share of it moves by its own
    # fresh random word (n-1 fresh words per key word, in call order)
    def b_rand(R, g):
        post, spec = [], []
        for w in range(nw):
            post += [value(n, KW * w)] + [share(KW * w, j) for j in range(n)] + ["(WIn %d)" % i for i in surplus(KW * w)]
            r = lambda j: g(R[w * (n - 1) + j - 1])
            spec += [value(n, KW * w)] + [xor_all([share(KW * w, 0)] + [r(j) for j in range(1, n)])] + \
                    ["(WXor %s %s)" % (share(KW * w, j), rotr(r(j), 11 * j)) for j in range(1, n)] + \
                    ["(WIn %d)" % i for i in surplus(KW * w)]
        return prog(post), prog(spec)
    obs.append(("randomize_with_trng", [("masked", KW * nw, True, True)], ["masked", None], b_rand, "(KKeyRandomize %d)" % bits))
    return obs


def emit(L, names, report, nm, title, s, build, cfn="", kind="KLoad", n=0, front="FLlvm"):
    if any(o is None for o in s.outs):
        print("MISSING kern_mword %s: output left uninitialised" % nm)
        report[nm] = {"title": title, "translated": False, "error": "output left uninitialised"}
        return
    post, spec, gname, cex, rand = settle(s, build)
    if post is None:
        print("NOTE kern_mword %s: %s" % (nm, cex["error"]))
        report[nm] = {"title": title, "translated": True, "concrete_ok": False, "counterexample": cex}
        # the obligation is emitted as plainly false so that the proof breaks
        post, spec = prog(["(WConst 1 0)"]), prog(["(WConst 1 1)"])
    L.append("Definition %s : fn_obl := {| fo_name := \"%s\"; fo_widths := [%s]; fo_prog := %s; fo_post := %s; fo_spec := %s; fo_desc := %s |}." %
             (nm, title, "; ".join(map(str, s.b.in_widths)), s.b.coq_prog(s.outs), post, spec, coq_desc(cfn, kind, n, rand, front=front)))
    names.append(nm)
    if nm not in report:
        report[nm] = {"title": title, "translated": True, "random_words": sum(1 for d in s.in_desc if d[0] == "rand"),
                      "random_word_enters": gname, "instructions": len(s.b.body), "concrete_ok": cex is None, "counterexample": cex}


def main(repo, gen):
    import json, tempfile
    incs = [os.path.join(repo, "src"), os.path.join(repo, "src", "ascon"), os.path.join(repo, "src", "masking"), os.path.join(repo, "src", "core")]
    L = ["(* GENERATED by tools/kern_mword.py from /repo's current source: masked word toolkit (C64 backend as clang -O1 LLVM IR; x86-64 assembly) and masked keys *)",
         "From Coq Require Import List NArith String.", "From AsconV Require Import Sym.Wexpr Sym.Pipe Obl.FnObl.", "Import ListNotations.",
         "Local Open Scope nat_scope.", "Local Open Scope string_scope.", ""]
    report = {}
    rand = {"@ascon_trng_generate_64"}
    cb = {"@ascon_trng_init": lambda ex, a: ex.b.const(32, 1), "@ascon_trng_free": lambda ex, a: None}
    # --- C64 word toolkit
    names = []
    mod = llvmx.Module(llvmx.compile_ll(os.path.join(repo, "src", "masking", "ascon-masked-word-c64.c"), defs=["ASCON_FORCE_C64"], incs=incs))
    for n in (2, 3, 4):
        for (fn, regs, args, build, kind) in obligations(n):
            full = "ascon_masked_word_x%d_%s" % (n, fn)
            nm = "mw_c64_x%d_%s" % (n, fn)
            regions = {name: {"size": size, "symbolic": True, "writable": wr} for (name, size, wr) in regs}
            try:
                s = llvmx.Exec(mod, "@" + full, [("ptr", a, 0) for a in args], regions, cut=False, rand_fns=rand).run()[0]
            except (Stuck, KeyError) as ex:
                print("MISSING kern_mword %s: %s" % (nm, ex)); report[nm] = {"title": full, "translated": False, "error": str(ex)}; continue
            emit(L, names, report, nm, full + " [c64]", s, build, full, kind, n)
    for (fn, suffix, regs, args, build, (kind, n)) in conv_obligations():
        full = "ascon_masked_word_" + fn
        nm = "mw_c64_%s%s" % (fn, suffix)
        regions = {name: {"size": size, "symbolic": True, "writable": wr} for (name, size, wr) in regs}
        try:
            s = llvmx.Exec(mod, "@" + full, [("ptr", a, 0) for a in args], regions, cut=False, rand_fns=rand).run()[0]
        except (Stuck, KeyError) as ex:
            print("MISSING kern_mword %s: %s" % (nm, ex)); report[nm] = {"title": full, "translated": False, "error": str(ex)}; continue
        emit(L, names, report, nm, full + suffix.replace("_", " ") + " [c64]", s, build, full, kind, n)
    L.append("Definition mword_c64_obls : list fn_obl := [%s]." % "; ".join(names))
    # --- x86-64 assembly word toolkit
    names = []
    try:
        import asm_x86
        path = os.path.join(repo, "src", "masking", "ascon-word-asm-x86-64.S")
        items, tables, _ = asm_x86.parse(asm_x86.preprocess(path, incs=incs))
    except Exception as ex:
        items = None
        print("MISSING kern_mword x86: %s" % ex)
    if items:
        for n in (2, 3, 4):
            for (fn, regs, args, build, kind) in obligations(n):
                full = "ascon_masked_word_x%d_%s" % (n, fn)
                nm = "mw_x86_x%d_%s" % (n, fn)
                regions = {name: {"size": size, "symbolic": True, "writable": wr} for (name, size, wr) in regs}
                ri = {r: (("ptr", a, 0) if a else ("int", 0)) for r, a in zip(("rdi", "rsi", "rdx"), args)}
                try:
                    s = asm_x86.X86(items, tables, full, ri, regions, rand_fns={"ascon_trng_generate_64"}).run()[0]
                except (Stuck, KeyError) as ex:
                    print("MISSING kern_mword %s: %s" % (nm, ex)); report[nm] = {"title": full, "translated": False, "error": str(ex)}; continue
                emit(L, names, report, nm, full + " [x86-64 asm]", s, build, full, kind, n, "FX86")
        for (fn, suffix, regs, args, build, (kind, n)) in conv_obligations():
            full = "ascon_masked_word_" + fn
            nm = "mw_x86_%s%s" % (fn, suffix)
            regions = {name: {"size": size, "symbolic": True, "writable": wr} for (name, size, wr) in regs}
            ri = {r: (("ptr", a, 0) if a else ("int", 0)) for r, a in zip(("rdi", "rsi", "rdx"), args)}
            try:
                s = asm_x86.X86(items, tables, full, ri, regions, rand_fns={"ascon_trng_generate_64"}).run()[0]
            except (Stuck, KeyError) as ex:
                print("MISSING kern_mword %s: %s" % (nm, ex)); report[nm] = {"title": full, "translated": False, "error": str(ex)}; continue
            emit(L, names, report, nm, full + suffix.replace("_", " ") + " [x86-64 asm]", s, build, full, kind, n, "FX86")
    L.append("Definition mword_x86_obls : list fn_obl := [%s]." % "; ".join(names))
    # --- masked keys over the C64 word toolkit, KEY_SHARES = 2, 3, 4
    names = []
    with tempfile.TemporaryDirectory(prefix="kmw") as td:
        w = os.path.join(td, "mkey.c")
        open(w, "w").write('#include "masking/ascon-masked-word-c64.c"\n#include "masking/ascon-masked-key.c"\n')
        for n in (2, 3, 4):
            mod = llvmx.Module(llvmx.compile_ll(w, defs=["ASCON_FORCE_C64", "ASCON_MASKED_KEY_SHARES=%d" % n], incs=incs))
            for bits in (128, 160):
                for (fn, regs, args, build, kind) in key_obligations(n, bits):
                    full = "ascon_masked_key_%d_%s" % (bits, fn)
                    nm = "mk%d_x%d_%s" % (bits, n, fn)
                    regions = {name: {"size": size, "symbolic": sym, "writable": wr} for (name, size, wr, sym) in regs}
                    try:
                        s = llvmx.Exec(mod, "@" + full, [("ptr", a, 0) for a in args], regions, cut=False, rand_fns=rand, callbacks=cb).run()[0]
                    except (Stuck, KeyError) as ex:
                        print("MISSING kern_mword %s: %s" % (nm, ex)); report[nm] = {"title": full, "translated": False, "error": str(ex)}; continue
                    emit(L, names, report, nm, "%s (KEY_SHARES=%d)" % (full, n), s, build, full, kind, n)
    L.append("Definition mkey_obls : list fn_obl := [%s]." % "; ".join(names))
    # --- masked states over the C64 word toolkit
    names = []
    with tempfile.TemporaryDirectory(prefix="kms") as td:
        w = os.path.join(td, "mstate.c")
        open(w, "w").write('#include "masking/ascon-masked-word-c64.c"\n#include "masking/ascon-masked-state.c"\n')
        mod = llvmx.Module(llvmx.compile_ll(w, defs=["ASCON_FORCE_C64"], incs=incs))
        for (fn, suffix, regs, args, build, (kind, n)) in state_obligations():
            nm = "ms_%s%s" % (fn[6:], suffix)
            regions = {name: {"size": size, "symbolic": True, "writable": wr} for (name, size, wr) in regs}
            try:
                s = llvmx.Exec(mod, "@" + fn, [("ptr", a, 0) for a in args], regions, cut=False, rand_fns=rand, callbacks=cb).run()[0]
            except (Stuck, KeyError) as ex:
                print("MISSING kern_mword %s: %s" % (nm, ex)); report[nm] = {"title": fn, "translated": False, "error": str(ex)}; continue
            emit(L, names, report, nm, fn + suffix.replace("_", " ") + " [c64]", s, build, fn, kind, n)
    L.append("Definition mstate_obls : list fn_obl := [%s]." % "; ".join(names))
    L.append("Definition mword_results : list (string * bool) := map (fun o => (fo_name o, fn_obl_ok o)) (mword_c64_obls ++ mword_x86_obls ++ mkey_obls ++ mstate_obls).")
    write_if_changed(os.path.join(gen, "MWord.v"), "\n".join(L) + "\n")
    O = ["(* GENERATED by tools/kern_mword.py: the obligations of Gen/MWord.v, checked by evaluation inside Coq *)",
         "From Coq Require Import List.", "From AsconV Require Import Sym.Wexpr Sym.Pipe Obl.FnObl Gen.MWord.",
         "Lemma mword_c64_ok : forallb fn_obl_ok mword_c64_obls = true. Proof. vm_compute. reflexivity. Qed.",
         "Lemma mword_x86_ok : forallb fn_obl_ok mword_x86_obls = true. Proof. vm_compute. reflexivity. Qed.",
         "Lemma mkey_ok : forallb fn_obl_ok mkey_obls = true. Proof. vm_compute. reflexivity. Qed.",
         "Lemma mstate_ok : forallb fn_obl_ok mstate_obls = true. Proof. vm_compute. reflexivity. Qed."]
    write_if_changed(os.path.join(gen, "MWordObl.v"), "\n".join(O) + "\n")
    kd = os.path.join(os.path.dirname(gen), "..", "build", "kern")
    os.makedirs(kd, exist_ok=True)
    json.dump(report, open(os.path.join(kd, "mword.json"), "w"), indent=1)
    bad = [k for k, v in report.items() if not v.get("concrete_ok")]
    print("kern_mword: %d obligations translated, %d with a concrete counter-example or untranslated: %s" % (len(report), len(bad), " ".join(bad)))


if __name__ == "__main__":
    repo = sys.argv[1] if len(sys.argv) > 1 else "/repo"
    gen = os.path.join(os.path.dirname(os.path.dirname(os.path.abspath(__file__))), "coq", "Gen")
    os.makedirs(gen, exist_ok=True)
    main(repo, gen)
