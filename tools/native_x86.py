#!/usr/bin/env python3
"""C18: native cross-check of the x86-64 lowering table (tools/asm_x86.py) and of the ABI facts on the host.

The five x86-64 .S files of the tree are assembled with the host gcc (once per ASCON_MASKED_MAX_SHARES
profile) and linked with harness/c18/tramp.S + abi_native.c: a trampoline that loads all fifteen general
registers with known values, calls the function, and reports every register, rsp and 16 canary words above
the return address; memory regions sit between inaccessible pages (flush against the upper, then the lower
guard page), const regions are read-only during the call, and ascon_trng_generate_64 is a stub that returns
scripted words and destroys every caller-saved register.

For every (function, case) the uncut symbolic run of tools/abi_x86.py is evaluated on the same concrete
inputs (symx.Builder.evaluate) and must predict every output byte of every region; the native run must
also show the callee-saved registers, rsp, the canaries and the bytes around the regions untouched.

Prints a JSON summary.  usage: native_x86.py [repo] [--n N] [--seed S] [--keep DIR]"""
import os, sys, json, time, random, subprocess, tempfile, shutil, collections
sys.path.insert(0, os.path.dirname(os.path.abspath(__file__)))
import abi_x86, asm_x86
from symx import Stuck
from kern_perm import ascon_round


def spec_permute(state, first_round):
    """the specification's permutation on the documented x86-64 layout: five 64-bit words, each little-endian in memory"""
    xs = [int.from_bytes(state[8 * i:8 * i + 8], "little") for i in range(5)]
    for r in range(first_round, 12):
        xs = ascon_round(xs, r)
    return b"".join(x.to_bytes(8, "little") for x in xs)

VERIF = os.path.dirname(os.path.dirname(os.path.abspath(__file__)))
REGFILE = ["rax", "rbx", "rcx", "rdx", "rsi", "rdi", "rbp", "r8", "r9", "r10", "r11", "r12", "r13", "r14", "r15"]
ARGREGS = ["rdi", "rsi", "rdx", "rcx", "r8", "r9"]
JUNK = {"rcx": 0x1111111111111cc1, "rdx": 0x2222222222222dd2, "rsi": 0x3333333333333553, "rdi": 0x4444444444444dd4,
        "r8": 0x5555555555555885, "r9": 0x6666666666666996, "r10": 0x7777777777777aa7, "r11": 0x8888888888888bb8}
X86_FILES = ["src/core/ascon-asm-x86-64.S", "src/masking/ascon-x2-asm-x86-64.S", "src/masking/ascon-x3-asm-x86-64.S",
             "src/masking/ascon-x4-asm-x86-64.S", "src/masking/ascon-word-asm-x86-64.S"]


def sh(cmd, cwd=None, timeout=600, inp=None):
    p = subprocess.run(cmd, cwd=cwd, stdout=subprocess.PIPE, stderr=subprocess.PIPE, timeout=timeout, input=inp)
    return p.returncode, p.stdout.decode("utf-8", "replace"), p.stderr.decode("utf-8", "replace")


def build(repo, scratch, mx, fns):
    d = os.path.join(scratch, "max%d" % mx)
    os.makedirs(d)
    open(os.path.join(d, "fns.inc"), "w").write("".join("X(%s)\n" % f for f in fns))
    objs = []
    inc = ["-I" + os.path.join(repo, "src"), "-I" + os.path.join(repo, "src", "core"), "-I" + os.path.join(repo, "src", "masking")]
    for rel in X86_FILES:
        if not os.path.exists(os.path.join(repo, rel)):
            continue
        o = os.path.join(d, os.path.basename(rel) + ".o")
        rc, out, err = sh(["gcc", "-c", "-x", "assembler-with-cpp", "-DASCON_MASKED_MAX_SHARES=%d" % mx] + inc + [os.path.join(repo, rel), "-o", o])
        if rc != 0:
            return None, "assembling %s failed:\n%s" % (rel, err[-1500:])
        objs.append(o)
    exe = os.path.join(d, "abi_native")
    h = os.path.join(VERIF, "harness", "c18")
    rc, out, err = sh(["gcc", "-O1", "-g", "-I" + d, os.path.join(h, "abi_native.c"), os.path.join(h, "tramp.S")] + objs + ["-o", exe])
    if rc != 0:
        return None, "linking the native harness failed:\n%s" % err[-1500:]
    return exe, ""


def patterned(rng, n):
    c = rng.random()
    if c < 0.08:
        return bytes(n)
    if c < 0.16:
        return bytes([255] * n)
    if c < 0.30 and n:
        b = bytearray(n); b[rng.randrange(n)] = 1 << rng.randrange(8); return bytes(b)
    return bytes(rng.getrandbits(8) for _ in range(n))


def hx(b):
    return b.hex() if len(b) else "-"


def run(repo, n_states=8, seed=1, keep=None, profiles=(4, 3, 2)):
    t0 = time.time()
    rng = random.Random(seed)
    res = {"ok": False, "cases": 0, "compared_bytes": 0, "spec_cases": 0, "spec_mismatches": [], "mismatches": [], "crashes": [], "abi_failures": [], "infra": None,
           "per_function": {}, "call_alignment": collections.Counter(), "builds": []}
    scratch = keep or tempfile.mkdtemp(prefix="verif-native-")
    try:
        for mx in profiles:
            prof = "default" if False else "max%d" % mx
            # what to run under this profile
            todo = []
            for rel, profile, defs, perms, W in abi_x86.plan(repo):
                if not (profile == prof or (profile == "default" and mx == 4)):
                    continue
                if not os.path.exists(os.path.join(repo, rel)):
                    continue
                try:
                    items, tables, directives, globs = abi_x86.load_file(repo, rel, defs)
                except Stuck as ex:
                    res["infra"] = "cannot parse %s: %s" % (rel, ex); continue
                for fn in globs:
                    cases = abi_x86.perm_signature(fn, perms[fn], W // 8 if W else 1) if fn in perms else abi_x86.word_signature(fn, W)
                    for case, variant, regs_init, regions in (cases or []):
                        todo.append((rel, profile, fn, fn in perms, case, variant, regs_init, regions, items, tables))
            fns = sorted({t[2] for t in todo})
            exe, err = build(repo, scratch, mx, fns)
            if exe is None:
                res["infra"] = err
                res["builds"].append({"profile": prof, "ok": False, "log": err})
                continue
            res["builds"].append({"profile": prof, "ok": True, "functions": len(fns)})
            lines, expect = [], []
            for (rel, profile, fn, isperm, case, variant, regs_init, regions, items, tables) in todo:
                m, segs, serr = abi_x86.run_one(items, tables, fn, regs_init, regions)
                if serr is not None:
                    # the symbolic run is stuck: the ABI table reports it; natively we still run the function (no prediction)
                    seg = None
                else:
                    seg = segs[-1]
                    if len(seg.in_desc) != len(seg.b.in_widths):
                        res["infra"] = "input description mismatch for %s" % fn; continue
                reps = n_states if fn == "ascon_permute" else max(2, n_states // 4)
                rnames = list(regions)
                for rep in range(reps):
                    regfile = {r: rng.getrandbits(64) for r in REGFILE}
                    rbytes = {}
                    for rn in rnames:
                        sp = regions[rn]
                        rbytes[rn] = patterned(rng, sp["size"]) if sp.get("symbolic") else None
                    nrand = 0 if seg is None else sum(1 for d in seg.in_desc if d[0] == "rand")
                    if seg is None:
                        nrand = {"x2": 1, "x3": 2, "x4": 3}.get(fn.split("_")[3] if fn.count("_") > 3 else "", 0)
                    rands = [rng.getrandbits(64) if rng.random() > 0.15 else rng.choice([0, (1 << 64) - 1]) for _ in range(nrand)]
                    pred = None
                    if seg is not None:
                        vals = []
                        for d in seg.in_desc:
                            if d[0] == "mem":
                                vals.append(rbytes[d[1]][d[2]])
                            elif d[0] == "reg":
                                vals.append(regfile[d[1]])
                            elif d[0] == "rand":
                                vals.append(rands[d[2] - 1])
                            elif d[0] == "clobber":
                                vals.append(JUNK[d[1]])
                        outv = seg.b.evaluate(vals, [o for o in seg.outs if o is not None])
                        it = iter(outv)
                        pred = {}
                        for o, d in zip(seg.outs, seg.out_desc):
                            pred[(d[1], d[2])] = None if o is None else next(it)
                    args = []
                    for a in ARGREGS:
                        sp = regs_init.get(a)
                        args.append("N" if sp is None else ("P%d:%d" % (rnames.index(sp[1]), sp[2]) if sp[0] == "ptr" else "I%d" % sp[1]))
                    for place in ("E", "S"):
                        cid = "%d" % len(lines)
                        toks = ["C", cid, fn, place, str(len(rnames))]
                        for rn in rnames:
                            sp = regions[rn]
                            toks += [str(sp["size"]), "w" if sp.get("writable", True) else "r", "U" if rbytes[rn] is None else hx(rbytes[rn])]
                        toks += args + [str(len(rands))] + ["%x" % v for v in rands] + ["%x" % regfile[r] for r in REGFILE]
                        lines.append(" ".join(toks))
                        expect.append({"file": rel, "profile": profile, "fn": fn, "case": case, "variant": variant, "place": place, "regions": rnames,
                                       "specs": regions, "in": rbytes, "pred": pred, "rands": rands, "regfile": regfile, "line": lines[-1]})
            # run (restart after a crash so that every case gets a verdict)
            outs = {}
            start = 0
            while start < len(lines):
                rc, out, err = sh([exe], inp=("\n".join(lines[start:]) + "\n").encode(), timeout=1200)
                last = None
                for l in out.split("\n"):
                    t = l.split(" ", 2)
                    if len(t) >= 2 and t[0] in ("R", "X", "E"):
                        outs[int(t[1])] = l
                        last = int(t[1])
                if last is None:
                    outs[start] = "X %d no output (exit %d) %s" % (start, rc, err[-200:])
                    last = start
                if last + 1 >= len(lines) and rc == 0:
                    break
                start = last + 1
            for i, ex in enumerate(expect):
                l = outs.get(i, "X %d missing" % i)
                res["cases"] += 1
                key = "%s [%s] %s" % (os.path.basename(ex["file"]), ex["profile"], ex["fn"])
                pf = res["per_function"].setdefault(key, {"cases": 0, "bytes": 0, "bad": 0})
                pf["cases"] += 1
                brief = {k: ex[k] for k in ("file", "profile", "fn", "case", "variant", "place", "line")}
                if not l.startswith("R "):
                    res["crashes"].append(dict(brief, native=l)); pf["bad"] += 1
                    continue
                head, _, tail = l.partition(" |")
                flags = dict(t.split("=", 1) for t in head.split()[3:])
                for d in flags.get("callrsp", "-"):
                    if d != "-":
                        res["call_alignment"]["aligned" if d == "8" else "misaligned(rsp%%16=%s at callee entry)" % d] += 1
                if any(flags.get(k) != "1" for k in ("cs", "rsp", "canary", "page", "trng")):
                    exp_cs = ",".join("%016x" % ex["regfile"][r] for r in asm_x86.CALLEE_SAVED)
                    res["abi_failures"].append(dict(brief, flags={k: flags.get(k) for k in ("cs", "rsp", "canary", "page", "trng")},
                                                    callee_saved_loaded=dict(zip(asm_x86.CALLEE_SAVED, exp_cs.split(","))),
                                                    callee_saved_after=dict(zip(asm_x86.CALLEE_SAVED, flags.get("regs", "").split(",")))))
                    pf["bad"] += 1
                got = tail.split()
                bad = None
                if ex["fn"] == "ascon_permute" and got:
                    res["spec_cases"] += 1
                    want = spec_permute(ex["in"]["state"], ex["case"])
                    if got[0] != want.hex():
                        res["spec_mismatches"].append({"file": ex["file"], "fn": "ascon_permute", "first_round": ex["case"], "state_in": ex["in"]["state"].hex(),
                                                       "native_out": got[0], "spec_out": want.hex(),
                                                       "layout": "40 bytes = x0..x4, each word little-endian (sliced64 on x86-64)"})
                        pf["bad"] += 1
                for rn, g in zip(ex["regions"], got):
                    sp = ex["specs"][rn]
                    gb = bytes.fromhex(g) if g != "-" else b""
                    for k in range(sp["size"]):
                        if ex["pred"] is None:
                            continue
                        if not sp.get("writable", True):
                            want = ex["in"][rn][k]
                        else:
                            want = ex["pred"].get((rn, k))
                            if want is None:
                                want = 0xA5 if ex["in"][rn] is None else ex["in"][rn][k]
                        res["compared_bytes"] += 1
                        pf["bytes"] += 1
                        if k >= len(gb) or gb[k] != want:
                            bad = bad or {"region": rn, "offset": k, "native": "%02x" % gb[k] if k < len(gb) else None, "predicted": "%02x" % want}
                if bad:
                    inputs = {rn: (hx(v) if v is not None else "uninitialised") for rn, v in ex["in"].items()}
                    res["mismatches"].append(dict(brief, first_difference=bad, inputs=inputs, native_regions=got))
                    pf["bad"] += 1
        res["call_alignment"] = dict(res["call_alignment"])
        res["ok"] = res["infra"] is None and not res["spec_mismatches"] and not res["mismatches"] and not res["crashes"] and not res["abi_failures"] and res["cases"] > 0
    finally:
        if not keep:
            shutil.rmtree(scratch, ignore_errors=True)
    res["spec_mismatches"] = res["spec_mismatches"][:10]
    res["mismatches"] = res["mismatches"][:10]
    res["crashes"] = res["crashes"][:10]
    res["abi_failures"] = res["abi_failures"][:10]
    res["wall_s"] = round(time.time() - t0, 2)
    return res


if __name__ == "__main__":
    a = sys.argv[1:]
    repo = a[0] if a and not a[0].startswith("--") else os.environ.get("VERIF_REPO", "/repo")
    n = int(a[a.index("--n") + 1]) if "--n" in a else 8
    seed = int(a[a.index("--seed") + 1]) if "--seed" in a else 1
    keep = a[a.index("--keep") + 1] if "--keep" in a else None
    r = run(repo, n, seed, keep)
    json.dump(r, sys.stdout, indent=1, default=str)
    print()
    sys.exit(0 if r["ok"] else 1)
