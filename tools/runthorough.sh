#!/bin/bash
# tools/runthorough.sh <ids...> : thorough tier of each check, one after the other; one summary line each
cd /verif
for id in "$@"; do
  t0=$(date +%s)
  ./check $id --tier thorough > build/thorough-$id.log 2>&1
  rc=$?
  echo "$id exit=$rc $(( $(date +%s) - t0 ))s $(grep -c '^VIOLATION' build/thorough-$id.log) violation line(s) $(tail -1 build/thorough-$id.log)"
done
