#!/usr/bin/env python3
"""(T) translator, second part of the masked-word toolkit obligations (C10):

  A. the whole toolkit of the 32-bit backend (src/masking/ascon-masked-word-c32.c, clang -O1 LLVM IR with
     -DASCON_FORCE_C32): load / store / randomize / xor / xN_from_xM (distinct and in place), and the masked keys
     (KEY_SHARES 2,3,4) and masked states (randomize, copy_from_xM, copy_from_x1 / copy_to_x1) built over it;
  B. for all three toolkits (c64, c32, x86-64 assembly) the operations tools/kern_mword.py leaves out:
     zero, load_partial (size 0..7), load_32, store_partial (size 0..7), replace (size 0..7), pad (offset 0..7),
     separator, and the x1 conversions of src/masking/ascon-masked-state.c over the C64 toolkit.

Every function is executed with ALL share bytes, data bytes and random words symbolic (control, addresses and
shift amounts concrete: the integer arguments size/offset are enumerated); the result is a straight-line program
over Sym/Wexpr.v.  For each one the tool writes a `fn_obl` (Obl/FnObl.v): the translated program, an observation
program (what is looked at: the unmasked value, the logical shares, the surplus shares, output bytes) and a
specification program over the same inputs.  Coq checks observation(program(v)) = specification(v) for all v
(`fn_obl_ok`, by vm_compute over boolean polynomials) in coq/Gen/MW2_<backend>_<group>.v, one file per group so
that make checks them in parallel.

Value functions (trusted reading of src/masking/ascon-masked-word.h):
  c64 / x86-64 : a masked word is uint64_t S[4]; logical share j = rotl_{11j}(S[j]); value = XOR of the logical shares
  c32          : a masked word is uint32_t W[8]; W[2j] / W[2j+1] = even / odd bits of share j, each rotated right by
                 5j; logical share j = WInterleave (rotl_{5j} W[2j]) (rotl_{5j} W[2j+1]); value = XOR of those.

Fresh randomness: one *unit* is what the function draws for one share: a 64-bit word (ascon_trng_generate_64) or
two consecutive 32-bit words (ascon_trng_generate_32 twice, as the ascon_mask32 code does).  The specification says
"logical share j = J(unit_j)" where J is one of a fixed list of bijections (identity, byte swap, byte rotation by
8*size for the partial loads; for a pair: halves taken as even/odd bit planes, or as high/low 32 bits); which
one applies is found by concrete evaluation and then proved for all inputs."""
import os, sys, json, time, itertools, random, tempfile
sys.path.insert(0, os.path.dirname(os.path.abspath(__file__)))
import llvmx
from symx import Stuck, write_if_changed
from kern_mword import parse_sexp, prog_outs, le64, be64, be32, xor_all, prog, bytes_of_be, bswap64, coq_desc

MAXS = 4
WB = 8 * MAXS          # bytes of one masked word
M64 = (1 << 64) - 1


# ------------------------------------------------------------------ concrete evaluation of observation/spec programs
def ev(e, ins, widths):
    op = e[0]
    if op == "WIn":
        i = int(e[1]); return ins[i], widths[i]
    if op == "WConst":
        return int(e[2]) & ((1 << int(e[1])) - 1), int(e[1])
    if op in ("WXor", "WAnd", "WOr"):
        (a, w), (b, _) = ev(e[1], ins, widths), ev(e[2], ins, widths)
        return {"WXor": a ^ b, "WAnd": a & b, "WOr": a | b}[op], w
    if op == "WNot":
        a, w = ev(e[1], ins, widths); return ~a & ((1 << w) - 1), w
    if op == "WRotr":
        k = int(e[1]); a, w = ev(e[2], ins, widths); k %= w
        return ((a >> k) | (a << (w - k))) & ((1 << w) - 1), w
    if op == "WShl":
        k = int(e[1]); a, w = ev(e[2], ins, widths); return (a << k) & ((1 << w) - 1), w
    if op == "WShr":
        k = int(e[1]); a, w = ev(e[2], ins, widths); return a >> k, w
    if op == "WTrunc":
        k = int(e[1]); a, w = ev(e[2], ins, widths); return a & ((1 << k) - 1), k
    if op == "WZext":
        k = int(e[1]); a, w = ev(e[2], ins, widths); return a, k
    if op == "WConcat":
        (h, hw), (l, lw) = ev(e[1], ins, widths), ev(e[2], ins, widths)
        return (h << lw) | l, hw + lw
    if op == "WInterleave":
        (a, aw), (b, bw) = ev(e[1], ins, widths), ev(e[2], ins, widths)
        r = 0
        for i in range(min(aw, bw)):
            r |= ((a >> i) & 1) << (2 * i) | ((b >> i) & 1) << (2 * i + 1)
        return r, 2 * min(aw, bw)
    if op in ("WEven", "WOdd"):
        a, w = ev(e[1], ins, widths)
        o = 0 if op == "WEven" else 1
        n = (w + 1 - o) // 2
        r = 0
        for i in range(n):
            r |= ((a >> (2 * i + o)) & 1) << i
        return r, n
    raise ValueError(op)


def find_cex(b, outs, post, spec, tries=10, seed=11, count=False):
    """random search (after the all-zero and the all-one input) for an input on which observation(prog(v)) <> spec(v);
    count=True: -> the set of observation indices that differ on some tried input"""
    rng = random.Random(seed)
    po, so = prog_outs(post), prog_outs(spec)
    if len(po) != len(so):
        return {"error": "observation and specification have different lengths"}
    bad = set()
    for t in range(tries):
        ins = [(rng.getrandbits(w) if t > 1 else (0 if t == 0 else (1 << w) - 1)) for w in b.in_widths]
        mid = b.evaluate(ins, outs)
        mw = [o.w for o in outs]
        got = [ev(e, mid, mw) for e in po]
        want = [ev(e, ins, b.in_widths) for e in so]
        if got != want:
            ks = [i for i in range(len(got)) if got[i] != want[i]]
            if not count:
                k = ks[0]
                return {"inputs": ["%x" % x for x in ins], "observation_index": k, "got": "%x/%d" % got[k], "want": "%x/%d" % want[k]}
            bad.update(ks)
    return bad if count else None


# ------------------------------------------------------------------ value algebras
def le32(base):
    e = "(WIn %d)" % base
    for b in range(1, 4):
        e = "(WConcat (WIn %d) %s)" % (base + b, e)
    return e


def rotl64(e, k):
    return e if k % 64 == 0 else "(WRotr %d %s)" % (64 - k % 64, e)


def rotr64(e, k):
    return e if k % 64 == 0 else "(WRotr %d %s)" % (k % 64, e)


class A64:
    """64-bit sliced masked words (C64 backend, x86-64 assembly)"""
    coq = "B64"

    @staticmethod
    def logical(base, j):
        return rotl64(le64(base + 8 * j), 11 * j)


class A32:
    """32-bit sliced masked words (C32 backend)"""
    coq = "B32"

    @staticmethod
    def logical(base, j):
        h = lambda off: le32(off) if j == 0 else "(WRotr %d %s)" % (32 - 5 * j, le32(off))
        return "(WInterleave %s %s)" % (h(base + 8 * j), h(base + 8 * j + 4))


def value(A, n, base):
    return xor_all([A.logical(base, j) for j in range(n)])


def surplus(n, base=0):
    return ["(WIn %d)" % (base + i) for i in range(8 * n, WB)]


def zeros8(n):
    return ["(WConst 8 0)" for _ in range(8 * n, WB)]


def be_bytes(base, k):
    """big-endian concatenation of k >= 1 bytes starting at input base"""
    e = "(WIn %d)" % (base + k - 1)
    for b in range(k - 2, -1, -1):
        e = "(WConcat (WIn %d) %s)" % (base + b, e)
    return e


def left_aligned(base, k):
    if k == 0:
        return "(WConst 64 0)"
    if k == 8:
        return be_bytes(base, 8)
    return "(WConcat %s (WConst %d 0))" % (be_bytes(base, k), 64 - 8 * k)


# ------------------------------------------------------------------ randomness units and how they enter
def units_of(s):
    """group the random inputs of a run into units (one per fresh share): a 64-bit word, or two consecutive 32-bit words"""
    R = [(i, s.b.in_widths[i]) for i, d in enumerate(s.in_desc) if d[0] == "rand"]
    units, k = [], 0
    while k < len(R):
        if R[k][1] == 64:
            units.append((R[k][0],)); k += 1
        elif R[k][1] == 32 and k + 1 < len(R) and R[k + 1][1] == 32:
            units.append((R[k][0], R[k + 1][0])); k += 2
        else:
            return None
    return units


def candidates(unit, size):
    """(name, expression, the same choice as a constructor of Obl/MWordSpec.rentry)"""
    if len(unit) == 1:
        r = "(WIn %d)" % unit[0]
        c = [("id", r, "RId %d" % unit[0]), ("bswap", bswap64(r), "RBswap %d" % unit[0])]
        if size:
            c += [("rotr%d" % (8 * size), rotr64(r, 8 * size), "RRotr %d %d" % (8 * size, unit[0])),
                  ("bswap.rotr%d" % (8 * size), rotr64(bswap64(r), 8 * size), "RBswapRotr %d %d" % (8 * size, unit[0])),
                  ("rotl%d" % (8 * size), rotl64(r, 8 * size), "RRotl %d %d" % (8 * size, unit[0]))]
        return c
    a, b = "(WIn %d)" % unit[0], "(WIn %d)" % unit[1]
    c = [("even/odd", "(WInterleave %s %s)" % (a, b), "REvenOdd %d %d" % unit), ("high/low", "(WConcat %s %s)" % (a, b), "RHighLow %d %d" % unit)]
    # the pair stored as it comes (the share then IS the pair): logical halves are the pair un-rotated by 5j
    for j in (1, 2, 3):
        c.append(("even/odd.rotl%d" % (5 * j), "(WInterleave (WRotr %d %s) (WRotr %d %s))" % (32 - 5 * j, a, 32 - 5 * j, b), "REvenOddRotl %d %d %d" % ((j,) + unit)))
    c += [("odd/even", "(WInterleave %s %s)" % (b, a), "ROddEven %d %d" % unit), ("low/high", "(WConcat %s %s)" % (b, a), "RLowHigh %d %d" % unit)]
    return c


def settle(s, build, size=0):
    """choose, per random unit, how it enters (coordinate-wise, by concrete evaluation: every unit has its own
    observation "logical share j = J(unit)"); -> (post, spec, description, counter-example | None, Coq text of the choices)"""
    units = units_of(s)
    if units is None:
        return None, None, "-", {"error": "the random words drawn by the function do not pair up into 64-bit units"}, []
    cands = [candidates(u, size) for u in units]
    pick = [0] * len(units)
    U = lambda: [cands[i][k][1] for i, k in enumerate(pick)]
    try:
        post, spec = build(U())
    except IndexError:
        return None, None, "-", {"error": "the function draws %d random units (64 bits each), fewer than the masking needs" % len(units)}, []
    bad = find_cex(s.b, s.outs, post, spec, tries=4, count=True)
    if isinstance(bad, dict):
        return None, None, "-", bad, []
    if bad:
        cur = len(bad)
        for i in range(len(units)):
            best = (cur, pick[i])
            for k in range(len(cands[i])):
                if k == pick[i]:
                    continue
                old, pick[i] = pick[i], k
                post, spec = build(U())
                nb = find_cex(s.b, s.outs, post, spec, tries=4, count=True)
                pick[i] = old
                if len(nb) < best[0]:
                    best = (len(nb), k)
            cur, pick[i] = best
            if cur == 0:
                break
    post, spec = build(U())
    desc = ",".join(cands[i][k][0] for i, k in enumerate(pick)) or "-"
    return post, spec, desc, find_cex(s.b, s.outs, post, spec), [cands[i][k][2] for i, k in enumerate(pick)]


# ------------------------------------------------------------------ obligations (generic in the value algebra A)
# an obligation: (function, name suffix, regions [(name, size, writable)], args [region | None | int], build(U) -> (post, spec), size,
#                 D(A, kind, n): what Obl/MWordSpec.v needs to build the same observation / specification itself)
def D(A, kind, n):
    return {"kind": kind, "n": n, "be": A.coq, "max": MAXS}



def basic_obligations(A, n):
    """load / store / randomize / xor (what kern_mword.py states for c64 and x86-64, here in terms of logical shares)"""
    obs = []
    fn = lambda op: "ascon_masked_word_x%d_%s" % (n, op)
    obs.append((fn("load"), "", [("word", WB, True), ("data", 8, False)], ["word", "data", None],
                lambda U: (prog([value(A, n, 0)] + [A.logical(0, j) for j in range(1, n)] + surplus(n)),
                           prog([be64(WB)] + [U[j - 1] for j in range(1, n)] + zeros8(n))), 0, D(A, "KLoad", n)))
    obs.append((fn("store"), "", [("data", 8, True), ("word", WB, False)], ["data", "word"],
                lambda U: (prog(["(WIn %d)" % i for i in range(8)]), prog(bytes_of_be(value(A, n, 8)))), 0, D(A, "KStore", n)))
    for suffix, regs, args, sb in (("", [("dest", WB, True), ("src", WB, False)], ["dest", "src", None], WB),
                                   ("_inplace", [("word", WB, True)], ["word", "word", None], 0)):
        obs.append((fn("randomize"), suffix, regs, args,
                    lambda U, sb=sb: (prog([value(A, n, 0)] + [A.logical(0, j) for j in range(n)] + surplus(n)),
                                      prog([value(A, n, sb)] + [xor_all([A.logical(sb, 0)] + [U[j - 1] for j in range(1, n)])] +
                                           ["(WXor %s %s)" % (A.logical(sb, j), U[j - 1]) for j in range(1, n)] + surplus(n))), 0,
                    D(A, "(KRandomize %s)" % ("true" if suffix else "false"), n)))
    obs.append((fn("xor"), "", [("dest", WB, True), ("src", WB, False)], ["dest", "src"],
                lambda U: (prog([value(A, n, 0)] + surplus(n)), prog(["(WXor %s %s)" % (value(A, n, 0), value(A, n, WB))] + surplus(n))), 0, D(A, "KXor", n)))
    return obs


def conv_obligations(A):
    obs = []
    for n in (2, 3, 4):
        for m in (2, 3, 4):
            if n == m:
                continue
            fn = "ascon_masked_word_x%d_from_x%d" % (n, m)
            obs.append((fn, "", [("dest", WB, True), ("src", WB, False)], ["dest", "src", None],
                        lambda U, n=n, m=m: (prog([value(A, n, 0)] + surplus(n)), prog([value(A, m, WB)] + zeros8(n))), 0, D(A, "(KFromX %d false)" % m, n)))
            obs.append((fn, "_inplace", [("word", WB, True)], ["word", "word", None],
                        lambda U, n=n, m=m: (prog([value(A, n, 0)] + surplus(n)), prog([value(A, m, 0)] + zeros8(n))), 0, D(A, "(KFromX %d true)" % m, n)))
    return obs


def more_obligations(A, n):
    """zero, load_partial, load_32, store_partial, replace: the operations kern_mword.py leaves out"""
    obs = []
    fn = lambda op: "ascon_masked_word_x%d_%s" % (n, op)
    # zero(word, trng): value 0, every share j >= 1 is its own fresh unit, surplus shares cleared
    obs.append((fn("zero"), "", [("word", WB, True)], ["word", None],
                lambda U: (prog([value(A, n, 0)] + [A.logical(0, j) for j in range(1, n)] + surplus(n)),
                           prog(["(WConst 64 0)"] + [U[j - 1] for j in range(1, n)] + zeros8(n))), 0, D(A, "KZero", n)))
    # load_partial(word, data, size, trng): the data bytes in the top `size` bytes of the value, the rest zero
    for size in range(0, 8):
        obs.append((fn("load_partial"), "_%d" % size, [("word", WB, True), ("data", size, False)], ["word", "data", size, None],
                    lambda U, size=size: (prog([value(A, n, 0)] + [A.logical(0, j) for j in range(1, n)] + surplus(n)),
                                          prog([left_aligned(WB, size)] + [U[j - 1] for j in range(1, n)] + zeros8(n))), size, D(A, "(KLoadPartial %d)" % size, n)))
    # load_32(word, data1, data2, trng)
    obs.append((fn("load_32"), "", [("word", WB, True), ("data1", 4, False), ("data2", 4, False)], ["word", "data1", "data2", None],
                lambda U: (prog([value(A, n, 0)] + [A.logical(0, j) for j in range(1, n)] + surplus(n)),
                           prog(["(WConcat %s %s)" % (be32(WB), be32(WB + 4))] + [U[j - 1] for j in range(1, n)] + zeros8(n))), 0, D(A, "KLoad32", n)))
    # store_partial(data, size, word): the top `size` bytes of the value (the buffer has exactly `size` bytes)
    for size in range(0, 8):
        obs.append((fn("store_partial"), "_%d" % size, [("data", size, True), ("word", WB, False)], ["data", size, "word"],
                    lambda U, size=size: (prog(["(WIn %d)" % i for i in range(size)]), prog(bytes_of_be(value(A, n, size))[:size])), 0,
                    D(A, "(KStorePartial %d)" % size, n)))
    # replace(dest, src, size): top `size` bytes of the value from src, the others from dest; surplus shares of dest untouched
    for size in range(0, 8):
        hi = (M64 << (64 - 8 * size)) & M64
        lo = M64 ^ hi
        obs.append((fn("replace"), "_%d" % size, [("dest", WB, True), ("src", WB, False)], ["dest", "src", size],
                    lambda U, hi=hi, lo=lo: (prog([value(A, n, 0)] + surplus(n)),
                                             prog(["(WOr (WAnd %s (WConst 64 %d)) (WAnd %s (WConst 64 %d)))" % (value(A, n, 0), lo, value(A, n, WB), hi)] + surplus(n))), 0,
                    D(A, "(KReplace %d)" % size, n)))
    return obs


def marker_obligations(A):
    """pad(word, offset), separator(word): independent of the share count (share 0 alone changes)"""
    obs = []
    rest = ["(WIn %d)" % i for i in range(8, WB)]
    for off in range(0, 8):
        c = 0x80 << (56 - 8 * off)
        obs.append(("ascon_masked_word_pad", "_%d" % off, [("word", WB, True)], ["word", off],
                    lambda U, c=c: (prog([value(A, n, 0) for n in (2, 3, 4)] + rest),
                                    prog(["(WXor %s (WConst 64 %d))" % (value(A, n, 0), c) for n in (2, 3, 4)] + rest)), 0, D(A, "(KPad %d)" % off, 0)))
    obs.append(("ascon_masked_word_separator", "", [("word", WB, True)], ["word"],
                lambda U: (prog([value(A, n, 0) for n in (2, 3, 4)] + rest),
                           prog(["(WXor %s (WConst 64 1))" % value(A, n, 0) for n in (2, 3, 4)] + rest)), 0, D(A, "KSeparator", 0)))
    return obs


KW = WB


def key_obligations(A, n, bits):
    """masked keys over the toolkit: init, extract, randomize_with_trng (n = KEY_SHARES)"""
    nw = 2 if bits == 128 else 6
    kb = bits // 8
    obs = []
    if bits == 128:
        vals = [be64(0), be64(8)]
    else:
        vals = [be64(0), be64(8), "(WShl 32 (WZext 64 %s))" % be32(16), "(WZext 64 %s)" % be32(0), be64(4), be64(12)]
    fn = lambda op: "ascon_masked_key_%d_%s" % (bits, op)

    def b_init(U):
        post = [value(A, n, KW * w) for w in range(nw)] + [A.logical(KW * w, j) for w in range(nw) for j in range(1, n)] + \
               [x for w in range(nw) for x in surplus(n, KW * w)]
        spec = vals + [U[w * (n - 1) + j - 1] for w in range(nw) for j in range(1, n)] + [x for w in range(nw) for x in zeros8(n)]
        return prog(post), prog(spec)
    obs.append((fn("init"), "", [("masked", KW * nw, True, False), ("key", kb, False, True)], ["masked", "key"], b_init, 0, D(A, "(KKeyInit %d)" % bits, n)))

    def b_extract(U):
        spec = bytes_of_be(value(A, n, kb)) + bytes_of_be(value(A, n, kb + KW))
        if bits == 160:
            spec += bytes_of_be(value(A, n, kb + 2 * KW))[:4]
        return prog(["(WIn %d)" % i for i in range(kb)]), prog(spec)
    obs.append((fn("extract"), "", [("key", kb, True, True), ("masked", KW * nw, False, True)], ["masked", "key"], b_extract, 0, D(A, "(KKeyExtract %d)" % bits, n)))

    def b_rand(U):
        post, spec = [], []
        for w in range(nw):
            post += [value(A, n, KW * w)] + [A.logical(KW * w, j) for j in range(n)] + surplus(n, KW * w)
            r = lambda j: U[w * (n - 1) + j - 1]
            spec += [value(A, n, KW * w)] + [xor_all([A.logical(KW * w, 0)] + [r(j) for j in range(1, n)])] + \
                    ["(WXor %s %s)" % (A.logical(KW * w, j), r(j)) for j in range(1, n)] + surplus(n, KW * w)
        return prog(post), prog(spec)
    obs.append((fn("randomize_with_trng"), "", [("masked", KW * nw, True, True)], ["masked", None], b_rand, 0, D(A, "(KKeyRandomize %d)" % bits, n)))
    return obs


def state_obligations(A):
    obs = []
    for n in (2, 3, 4):
        def b_rand(U, n=n):
            post, spec = [], []
            for w in range(5):
                post += [value(A, n, KW * w)] + [A.logical(KW * w, j) for j in range(n)] + surplus(n, KW * w)
                r = lambda j: U[w * (n - 1) + j - 1]
                spec += [value(A, n, KW * w)] + [xor_all([A.logical(KW * w, 0)] + [r(j) for j in range(1, n)])] + \
                        ["(WXor %s %s)" % (A.logical(KW * w, j), r(j)) for j in range(1, n)] + surplus(n, KW * w)
            return prog(post), prog(spec)
        obs.append(("ascon_x%d_randomize" % n, "", [("state", 5 * KW, True)], ["state", None], b_rand, 0, D(A, "KStRandomize", n)))
        for m in (2, 3, 4):
            fn = "ascon_x%d_copy_from_x%d" % (n, m)
            obs.append((fn, "", [("dest", 5 * KW, True), ("src", 5 * KW, False)], ["dest", "src", None],
                        lambda U, n=n, m=m: (prog([value(A, n, KW * w) for w in range(5)]), prog([value(A, m, 5 * KW + KW * w) for w in range(5)])), 0,
                        D(A, "(KStCopy %d false)" % m, n)))
            if n != m:
                obs.append((fn, "_inplace", [("state", 5 * KW, True)], ["state", "state", None],
                            lambda U, n=n, m=m: (prog([value(A, n, KW * w) for w in range(5)]), prog([value(A, m, KW * w) for w in range(5)])), 0,
                            D(A, "(KStCopy %d true)" % m, n)))
    return obs


def x1_obligations(A, x1word, n):
    """conversions between the unmasked state (40 bytes; x1word(base, i) = its i-th 64-bit word in the layout of the unmasked
    backend of the same build) and masked states: the values are the words, both ways"""
    obs = []
    dx = "true" if getattr(x1word, "dx", False) else "false"      # x1word.dx = True: the unmasked state is its 40 canonical big-endian bytes
    if True:
        obs.append(("ascon_x%d_copy_from_x1" % n, "", [("dest", 5 * KW, True), ("src", 40, False)], ["dest", "src", None],
                    lambda U, n=n: (prog([value(A, n, KW * w) for w in range(5)] + [A.logical(KW * w, j) for w in range(5) for j in range(1, n)] +
                                         [x for w in range(5) for x in surplus(n, KW * w)]),
                                    prog([x1word(5 * KW, w) for w in range(5)] + [U[w * (n - 1) + j - 1] for w in range(5) for j in range(1, n)] +
                                         [x for w in range(5) for x in zeros8(n)])), 0, D(A, "(KStFromX1 %s)" % dx, n)))
        obs.append(("ascon_x%d_copy_to_x1" % n, "", [("dest", 40, True), ("src", 5 * KW, False)], ["dest", "src"],
                    lambda U, n=n: (prog([x1word(0, w) for w in range(5)]), prog([value(A, n, 40 + KW * w) for w in range(5)])), 0, D(A, "(KStToX1 %s)" % dx, n)))
    return obs


def x1word64(base, i):
    return le64(base + 8 * i)


def x1word32(base, i):
    return "(WInterleave %s %s)" % (le32(base + 8 * i), le32(base + 8 * i + 4))


# ------------------------------------------------------------------ running and emitting
RAND_LL = {"@ascon_trng_generate_64", "@ascon_trng_generate_32"}
RAND_X86 = {"ascon_trng_generate_64", "ascon_trng_generate_32"}


def cb_clean(ex, args):
    """ascon_clean(buf, size): its contract (the buffer is zero afterwards; C13 checks the real one)"""
    p, n = args[0][1], args[1][1].conc
    for i in range(n):
        ex.mem.store(p.region, p.off + i, ex.b.const(8, 0))
    return None


CALLBACKS = {"@ascon_trng_init": lambda ex, a: ex.b.const(32, 1), "@ascon_trng_free": lambda ex, a: None, "@ascon_clean": cb_clean,
             "@ascon_backend_init": lambda ex, a: None, "@ascon_backend_free": lambda ex, a: None}


def regions_of(regs):
    out = {}
    for r in regs:
        name, size, wr = r[0], r[1], r[2]
        sym = r[3] if len(r) > 3 else True
        out[name] = {"size": size, "symbolic": sym, "writable": wr}
    return out


class Exec2(llvmx.Exec):
    def call(self, dst, rhs):
        # constant expressions as call arguments (the address of a static array) are bound to temporaries first
        k = 0
        while True:
            i = min([x for x in (rhs.find("getelementptr inbounds ("), rhs.find("getelementptr ("), rhs.find("bitcast (")) if x >= 0] or [-1])
            if i < 0:
                break
            j, depth = rhs.index("(", i), 0
            for e in range(j, len(rhs)):
                depth += rhs[e] == "("
                depth -= rhs[e] == ")"
                if depth == 0:
                    break
            name = "%%__ce%d" % k
            k += 1
            self.env[name] = self.const_expr(rhs[i:e + 1])
            rhs = rhs[:i] + name + rhs[e + 1:]
        return llvmx.Exec.call(self, dst, rhs)


def run_llvm(mod, fn, regs, args):
    a = [("int", x) if isinstance(x, int) else ("ptr", x, 0) for x in args]
    return Exec2(mod, "@" + fn, a, regions_of(regs), cut=False, rand_fns=RAND_LL, callbacks=CALLBACKS).run()[0]


def run_x86(asm, fn, regs, args):
    import asm_x86
    items, tables = asm
    ri = {}
    for r, x in zip(("rdi", "rsi", "rdx", "rcx"), args):
        ri[r] = ("int", x) if isinstance(x, int) else (("ptr", x, 0) if x else ("int", 0))
    return asm_x86.X86(items, tables, fn, ri, regions_of(regs), rand_fns=RAND_X86).run()[0]


class Group:
    def __init__(self, gen, name, title, report):
        self.gen, self.name, self.title, self.report = gen, name, title, report
        self.L, self.names = [], []
        self.t0 = time.time()

    def add(self, runner, ob, tag):
        fn, suffix, regs, args, build, size, dsc = ob
        nm = "%s_%s%s" % (self.name, fn.replace("ascon_masked_word_", "").replace("ascon_masked_", "").replace("ascon_", ""), suffix)
        title = "%s%s [%s]" % (fn, suffix.replace("_", " "), tag)
        try:
            s = runner(fn, regs, args)
        except (Stuck, KeyError) as ex:
            print("MISSING kern_mword2 %s: %s" % (nm, ex))
            self.report[nm] = {"title": title, "translated": False, "error": str(ex)}
            return
        if any(o is None for o in s.outs):
            print("MISSING kern_mword2 %s: output left uninitialised" % nm)
            self.report[nm] = {"title": title, "translated": False, "error": "output left uninitialised"}
            return
        post, spec, gname, cex, rand = settle(s, build, size)
        if post is None:
            print("NOTE kern_mword2 %s: %s" % (nm, cex["error"]))
            post, spec = prog(["(WConst 1 0)"]), prog(["(WConst 1 1)"])       # plainly false: the proof breaks
        desc = coq_desc(fn, dsc["kind"], dsc["n"], rand, be=dsc["be"], front="FX86" if tag.startswith("x86") else "FLlvm", raw=False, maxs=dsc["max"])
        self.L.append("Definition %s : fn_obl := {| fo_name := \"%s\"; fo_widths := [%s]; fo_prog := %s; fo_post := %s; fo_spec := %s; fo_desc := %s |}." %
                      (nm, title, "; ".join(map(str, s.b.in_widths)), s.b.coq_prog(s.outs), post, spec, desc))
        self.names.append(nm)
        self.report[nm] = {"title": title, "translated": True, "random_units": len(units_of(s) or []), "random_enters": gname,
                           "instructions": len(s.b.body), "concrete_ok": cex is None, "counterexample": cex}

    def finish(self):
        hdr = ["(* GENERATED by tools/kern_mword2.py from /repo's current source: %s *)" % self.title,
               "From Coq Require Import List NArith String.", "From AsconV Require Import Sym.Wexpr Sym.Pipe Obl.FnObl.", "Import ListNotations.",
               "Local Open Scope nat_scope.", "Local Open Scope string_scope.", ""]
        tail = ["Definition %s_obls : list fn_obl := [%s]." % (self.name, "; ".join(self.names)),
                "Lemma %s_ok : forallb fn_obl_ok %s_obls = true. Proof. vm_compute. reflexivity. Qed." % (self.name, self.name)]
        write_if_changed(os.path.join(self.gen, "MW2_%s.v" % self.name), "\n".join(hdr + self.L + tail) + "\n")
        return len(self.names), time.time() - self.t0


def main(repo, gen):
    incs = [os.path.join(repo, "src"), os.path.join(repo, "src", "ascon"), os.path.join(repo, "src", "masking"), os.path.join(repo, "src", "core")]
    report, groups = {}, []
    t_all = time.time()

    def done(g):
        k, t = g.finish()
        groups.append((g.name, k))
        print("kern_mword2 %s: %d obligations (%.1f s)" % (g.name, k, t))

    # ---- C32 toolkit: everything
    try:
        mod32 = llvmx.Module(llvmx.compile_ll(os.path.join(repo, "src", "masking", "ascon-masked-word-c32.c"), defs=["ASCON_FORCE_C32"], incs=incs))
    except Stuck as ex:
        mod32 = None
        print("MISSING kern_mword2 c32: %s" % ex)
    try:
        mod64 = llvmx.Module(llvmx.compile_ll(os.path.join(repo, "src", "masking", "ascon-masked-word-c64.c"), defs=["ASCON_FORCE_C64"], incs=incs))
    except Stuck as ex:
        mod64 = None
        print("MISSING kern_mword2 c64: %s" % ex)
    try:
        import asm_x86
        path = os.path.join(repo, "src", "masking", "ascon-word-asm-x86-64.S")
        items, tables, _ = asm_x86.parse(asm_x86.preprocess(path, incs=incs))
        asm = (items, tables)
    except Exception as ex:
        asm = None
        print("MISSING kern_mword2 x86: %s" % ex)

    if mod32:
        r32 = lambda fn, regs, args: run_llvm(mod32, fn, regs, args)
        g = Group(gen, "c32_tk", "masked-word toolkit of the 32-bit backend: load, store, randomize, xor, share-count conversions (ascon-masked-word-c32.c, clang -O1 LLVM IR)", report)
        for n in (2, 3, 4):
            for ob in basic_obligations(A32, n):
                g.add(r32, ob, "c32")
        for ob in conv_obligations(A32):
            g.add(r32, ob, "c32")
        done(g)
    backends = []
    if mod64:
        backends.append(("c64", A64, lambda fn, regs, args: run_llvm(mod64, fn, regs, args), "c64"))
    if mod32:
        backends.append(("c32", A32, r32, "c32"))
    if asm:
        backends.append(("x86", A64, lambda fn, regs, args: run_x86(asm, fn, regs, args), "x86-64 asm"))
    for be, A, runner, tag in backends:
        for n in (2, 3, 4):
            g = Group(gen, "%s_ops%d" % (be, n), "x%d zero, load_partial (size 0..7), load_32, store_partial (size 0..7), replace (size 0..7) of the %s toolkit" % (n, tag), report)
            for ob in more_obligations(A, n):
                g.add(runner, ob, tag)
            done(g)
        g = Group(gen, "%s_mark" % be, "ascon_masked_word_pad (offset 0..7) and ascon_masked_word_separator of the %s toolkit" % tag, report)
        for ob in marker_obligations(A):
            g.add(runner, ob, tag)
        done(g)

    # ---- masked keys and masked states over the C32 toolkit; x1 conversions over C64 and C32
    with tempfile.TemporaryDirectory(prefix="kmw2") as td:
        w = os.path.join(td, "mkey32.c")
        open(w, "w").write('#include "masking/ascon-masked-word-c32.c"\n#include "masking/ascon-masked-key.c"\n')
        for n in (2, 3, 4):
            g = Group(gen, "c32_key%d" % n, "masked keys, KEY_SHARES=%d, over the 32-bit toolkit (ascon-masked-key.c + ascon-masked-word-c32.c)" % n, report)
            try:
                mod = llvmx.Module(llvmx.compile_ll(w, defs=["ASCON_FORCE_C32", "ASCON_MASKED_KEY_SHARES=%d" % n], incs=incs))
            except Stuck as ex:
                print("MISSING kern_mword2 c32_key x%d: %s" % (n, ex)); continue
            for bits in (128, 160):
                for ob in key_obligations(A32, n, bits):
                    g.add(lambda fn, regs, args, mod=mod: run_llvm(mod, fn, regs, args), ob, "c32, KEY_SHARES=%d" % n)
            done(g)
        for be, A, core, force, x1w in (("c32", A32, "core/ascon-sliced32.c", "ASCON_FORCE_C32", x1word32), ("c64", A64, "core/ascon-sliced64.c", "ASCON_FORCE_C64", x1word64)):
            w = os.path.join(td, "mstate_%s.c" % be)
            open(w, "w").write('#include "masking/ascon-masked-word-%s.c"\n#include "masking/ascon-masked-state.c"\n#include "%s"\n' % (be, core))
            try:
                mod = llvmx.Module(llvmx.compile_ll(w, defs=[force], incs=incs))
            except Stuck as ex:
                print("MISSING kern_mword2 %s_state: %s" % (be, ex)); continue
            runner = lambda fn, regs, args, mod=mod: run_llvm(mod, fn, regs, args)
            if be == "c32":
                g = Group(gen, "c32_st", "masked states over the 32-bit toolkit: ascon_xN_randomize, ascon_xN_copy_from_xM (also in place)", report)
                for ob in state_obligations(A):
                    g.add(runner, ob, be)
                done(g)
            for n in (2, 3, 4):
                g = Group(gen, "%s_x1_%d" % (be, n), "ascon_x%d_copy_from_x1 / ascon_x%d_copy_to_x1 (ascon-masked-state.c over the %s toolkit and the unmasked %s)" % (n, n, be, core), report)
                for ob in x1_obligations(A, x1w, n):
                    g.add(runner, ob, be)
                done(g)

    # ---- index file: the list of all groups (so that the property file states one theorem per backend)
    L = ["(* GENERATED by tools/kern_mword2.py: index of the obligation groups of Gen/MW2_*.v *)",
         "From Coq Require Import List String.", "From AsconV Require Import Sym.Wexpr Sym.Pipe Obl.FnObl Obl.FnOblParts %s." % " ".join("Gen.MW2_%s" % nm for nm, _ in groups),
         "Import ListNotations.", ""]

    def family(fname, pred, what):
        gs = [nm for nm, _ in groups if pred(nm)]
        L.append("(* %s *)" % what)
        L.append("Definition %s_parts : list (list fn_obl) := [%s]." % (fname, "; ".join("%s_obls" % nm for nm in gs)))
        conj = " ".join("(conj %s_ok" % nm for nm in gs) + " I" + ")" * len(gs)
        L.append("Lemma %s_ok : fparts_ok %s_parts. Proof. exact %s. Qed." % (fname, fname, conj))
    family("mw2_c32_toolkit", lambda nm: nm == "c32_tk", "32-bit toolkit: load, store, randomize, xor, conversions")
    family("mw2_c32_keys_states", lambda nm: nm.startswith("c32_key") or nm == "c32_st", "masked keys and masked states over the 32-bit toolkit")
    for be in ("c64", "c32", "x86"):
        family("mw2_%s_ops" % be, lambda nm, be=be: nm.startswith(be + "_ops") or nm == be + "_mark", "remaining word operations, %s" % be)
    family("mw2_x1", lambda nm: "_x1_" in nm, "conversions from and to the unmasked state")
    L.append("Definition mw2_counts : list (string * nat) := [%s]." % "; ".join("(\"%s\"%%string, List.length %s_obls)" % (nm, nm) for nm, _ in groups))
    write_if_changed(os.path.join(gen, "MW2_index.v"), "\n".join(L) + "\n")
    kd = os.path.join(os.path.dirname(gen), "..", "build", "kern")
    os.makedirs(kd, exist_ok=True)
    json.dump(report, open(os.path.join(kd, "mword2.json"), "w"), indent=1)
    bad = [k for k, v in report.items() if not v.get("concrete_ok")]
    print("kern_mword2: %d obligations in %d groups translated in %.1f s, %d with a concrete counter-example or untranslated: %s" %
          (len(report), len(groups), time.time() - t_all, len(bad), " ".join(bad)))


if __name__ == "__main__":
    repo = sys.argv[1] if len(sys.argv) > 1 else os.environ.get("VERIF_REPO", "/repo")
    gen = os.path.join(os.path.dirname(os.path.dirname(os.path.abspath(__file__))), "coq", "Gen")
    os.makedirs(gen, exist_ok=True)
    main(repo, gen)
