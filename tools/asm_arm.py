"""ARM front ends of the symbolic executor (C18): AArch64 (class A64) for
ascon-asm-armv8a-64.S, and the 32-bit ARM / Thumb / Thumb-2 unified syntax
(class A32) for ascon-asm-armv6.S, ascon-asm-armv7m.S and ascon-asm-armv6m.S.

The lowering tables model the mnemonics that occur in those files (plus a few
close relatives) with their architectural semantics (ARM ARM DDI 0487 /
DDI 0406 / DDI 0419): logical operations with the flexible second operand,
rotate/shift by immediate or by (concrete) register, loads/stores with
immediate / register offsets, push/pop/ldm/stm, compare and conditional
branch on concrete values, adr + table load + `mov pc` dispatch.  Flags set by
an S-suffixed instruction on symbolic data are 'unknown'; a conditional branch
on them is Stuck (C11).  NOT validated against hardware or an assembler: none
is available here.  For the ARMv6-M profile the operand forms are also checked
against the 16-bit Thumb encodings, because the assembler would reject
anything else; for A32 / Thumb-2 the modified-immediate rule is checked."""
import re, os
from symx import V, Stuck, mask
from llvmx import Ptr
from asm_base import Machine, LabelAddr, LabelDiff, RetAddr, preprocess, parse, signed, kern_runs, histogram

CONDS = ["eq", "ne", "cs", "hs", "cc", "lo", "mi", "pl", "vs", "vc", "hi", "ls", "ge", "lt", "gt", "le"]


def imm(op):
    s = op.strip()
    if s.startswith("#"):
        s = s[1:]
    return int(s, 0)


def is_imm(op):
    return re.match(r"^#?-?(0x[0-9a-fA-F]+|\d+)$", op.strip()) is not None


# =================================================================== AArch64
def a64_bitmask_ok(n, w):
    """A64 logical immediate: a rotated run of ones inside an element of 2..w bits, replicated; not 0 / all ones"""
    n &= mask(w)
    if n == 0 or n == mask(w):
        return False
    e = 2
    while e <= w:
        elem = n & mask(e)
        if all((n >> (i * e)) & mask(e) == elem for i in range(w // e)) and elem != 0 and elem != mask(e):
            for r in range(e):
                v = ((elem >> r) | (elem << (e - r))) & mask(e)
                if v & (v + 1) == 0:          # 0..01..1
                    return True
        e *= 2
    return False


class A64(Machine):
    W = 64
    REGS = ["x%d" % i for i in range(31)] + ["sp"]
    SP = "sp"
    LINK_REG = "x30"
    CALLEE_SAVED = ["x%d" % i for i in range(19, 30)] + ["x30"]      # + sp (checked separately); x18 is the platform register
    RESERVED = ["x18"]

    def rd(self, name):
        """-> (value, width)"""
        name = name.lower()
        if name in ("xzr", "wzr"):
            w = 64 if name[0] == "x" else 32
            return self.b.const(w, 0)
        if name == "lr":
            name = "x30"
        if name == "sp":
            return self.regs["sp"]
        m = re.match(r"^([xw])(\d+)$", name)
        if not m or int(m.group(2)) > 30:
            raise Stuck("bad register " + name)
        v = self.regs["x" + m.group(2)]
        if m.group(1) == "w":
            if not isinstance(v, V):
                raise Stuck("32-bit view of a pointer register")
            return self.b.trunc(v, 32)
        return v

    def wr(self, name, v):
        name = name.lower()
        if name in ("xzr", "wzr"):
            return
        if name == "lr":
            name = "x30"
        if name == "sp":
            self.setreg("sp", v); return
        m = re.match(r"^([xw])(\d+)$", name)
        if not m or int(m.group(2)) > 30:
            raise Stuck("bad register " + name)
        if m.group(1) == "w":
            if not isinstance(v, V):
                raise Stuck("pointer written to a w register")
            v = self.b.zext(v, 64)          # writes to Wn clear bits 63..32
        self.setreg("x" + m.group(2), v)

    def width_of(self, name):
        return 32 if name.lower()[0] == "w" else 64

    def op2(self, ops, w, arith=False):
        """flexible second operand: #imm | Rm | Rm, lsl/lsr/ror #n"""
        if is_imm(ops[0]):
            n = imm(ops[0])
            if arith and not (0 <= n < 4096 or (n & 0xFFF == 0 and 0 <= n < (1 << 24))):
                raise Stuck("immediate %d is not an A64 arithmetic immediate" % n)
            if not arith and not a64_bitmask_ok(n, w):
                raise Stuck("immediate %d is not an A64 logical (bitmask) immediate" % n)
            return self.b.const(w, n)
        v = self.rd(ops[0])
        if not isinstance(v, V):
            raise Stuck("logical operation on a pointer")
        if len(ops) > 1:
            m = re.match(r"^(lsl|lsr|ror|asr)\s+#?(\d+)$", ops[1].lower())
            if not m:
                raise Stuck("bad shifted-register operand " + ops[1])
            k = int(m.group(2))
            if k >= w:
                raise Stuck("shift amount out of range")
            if m.group(1) == "asr":
                raise Stuck("asr operand not modelled")
            v = {"lsl": self.b.shl, "lsr": self.b.lshr, "ror": self.b.rotr}[m.group(1)](v, k)
        return v

    def addr(self, ops):
        """ops = the operands from the '[' one on ; -> (pointer value, writeback (reg, new value) or None)"""
        m = re.match(r"^\[\s*(\w+)\s*(?:,\s*#?(-?\w+)\s*)?\](!?)$", ops[0])
        if not m:
            raise Stuck("unsupported addressing mode " + " ".join(ops))
        base = self.rd(m.group(1))
        off = int(m.group(2), 0) if m.group(2) else 0
        if not isinstance(base, (Ptr, LabelAddr)):
            raise Stuck("data-dependent address (base register %s is not a pointer)" % m.group(1))
        mk = (lambda d: Ptr(base.region, base.off + d)) if isinstance(base, Ptr) else (lambda d: LabelAddr(base.name, base.delta + d))
        if len(ops) > 1:                       # post-index
            if m.group(2) or m.group(3):
                raise Stuck("bad post-index form")
            return mk(0), (m.group(1), mk(imm(ops[1])))
        if m.group(3):                         # pre-index
            return mk(off), (m.group(1), mk(off))
        return mk(off), None

    def step(self, op, ops):
        b = self.b
        if op in ("and", "uxtb") and getattr(self, "narrow_args", None):
            # masking an 8-bit argument whose upper register bits are unspecified: `and wD, wN, #255` / `uxtb wD, wN`
            mm = re.match(r"^[xw](\d+)$", ops[1].lower())
            src = "x" + mm.group(1) if mm else None
            na = self.narrow_args.get(src) if src else None
            if na and self.regs.get(src) is na[0] and (op == "uxtb" or (len(ops) == 3 and is_imm(ops[2]) and imm(ops[2]) == 255)):
                self.wr(ops[0], b.const(self.width_of(ops[0]), na[1] & 255))
                return
        if op in ("eor", "and", "orr", "bic", "orn", "eon", "ands", "bics"):
            w = self.width_of(ops[0])
            x = self.rd(ops[1])
            y = self.op2(ops[2:], w)
            if not isinstance(x, V):
                raise Stuck("logical operation on a pointer")
            base = op.rstrip("s") if op in ("ands", "bics") else op
            if base in ("bic", "orn", "eon"):
                y = b.not_(y)
            r = {"eor": b.xor, "eon": b.xor, "and": b.and_, "bic": b.and_, "orr": b.or_, "orn": b.or_}[base](x, y)
            self.wr(ops[0], r)
            if op in ("ands", "bics"):
                self.flags = ("cmp", r.conc, 0, w) if r.is_conc() else None
        elif op == "mvn":
            w = self.width_of(ops[0])
            self.wr(ops[0], b.not_(self.op2(ops[1:], w)))
        elif op == "mov":
            w = self.width_of(ops[0])
            if is_imm(ops[1]):
                self.wr(ops[0], b.const(w, imm(ops[1])))
            else:
                self.wr(ops[0], self.rd(ops[1]))
        elif op in ("ror", "lsl", "lsr"):
            w = self.width_of(ops[0])
            x = self.rd(ops[1])
            if not isinstance(x, V):
                raise Stuck("shift of a pointer")
            k = imm(ops[2]) if is_imm(ops[2]) else self.conc(self.rd(ops[2]), "shift/rotate count") % w
            if k >= w:
                raise Stuck("shift amount out of range")
            self.wr(ops[0], {"ror": b.rotr, "lsl": b.shl, "lsr": b.lshr}[op](x, k))
        elif op in ("ldr", "str"):
            w = self.width_of(ops[0])
            if op == "ldr" and ops[1].startswith("="):            # literal pool pseudo-instruction
                self.wr(ops[0], b.const(w, int(ops[1][1:], 0)))
                return
            p, wb = self.addr(ops[1:])
            if op == "ldr":
                v = self.mem_load(p, w // 8)
                self.wr(ops[0], v)
            else:
                self.mem_store(p, self.rd(ops[0]))
            if wb:
                self.wr(wb[0], wb[1])
        elif op in ("ldp", "stp"):
            w = self.width_of(ops[0])
            p, wb = self.addr(ops[2:])
            mk = (lambda d: Ptr(p.region, p.off + d)) if isinstance(p, Ptr) else (lambda d: LabelAddr(p.name, p.delta + d))
            if op == "ldp":
                if ops[0].lower() == ops[1].lower():
                    raise Stuck("ldp with equal destination registers is unpredictable")
                v0 = self.mem_load(mk(0), w // 8)
                v1 = self.mem_load(mk(w // 8), w // 8)
                self.wr(ops[0], v0); self.wr(ops[1], v1)
            else:
                self.mem_store(mk(0), self.rd(ops[0]))
                self.mem_store(mk(w // 8), self.rd(ops[1]))
            if wb:
                self.wr(wb[0], wb[1])
        elif op in ("add", "sub"):
            x = self.rd(ops[1])
            y = b.const(64, imm(ops[2])) if is_imm(ops[2]) else self.rd(ops[2])
            if self.width_of(ops[0]) == 32:
                raise Stuck("32-bit add/sub not modelled")
            self.wr(ops[0], self.add_values(x, y, sub=(op == "sub")))
        elif op in ("cmp", "tst"):
            w = self.width_of(ops[0])
            x = self.rd(ops[0])
            y = self.op2(ops[1:], w, arith=(op == "cmp"))
            if op == "cmp":
                self.flags = ("cmp", self.conc(x, "comparison"), self.conc(y, "comparison"), w)
            else:
                self.flags = ("cmp", self.conc(b.and_(x, y), "test"), 0, w)
        elif op == "b":
            self.jump(ops[0])
        elif (op[0] == "b" and op[1:] in CONDS) or (op.startswith("b.") and op[2:] in CONDS):
            if self.cond(op[2:] if op.startswith("b.") else op[1:]):
                self.jump(ops[0])
        elif op in ("cbz", "cbnz"):
            n = self.conc(self.rd(ops[0]), "compare-and-branch")
            take = (n == 0) == (op == "cbz")
            b.leak.append(("C", op, take))
            if take:
                self.jump(ops[1])
        elif op == "bl":
            self.setreg("x30", RetAddr(self.pc))
            self.jump(ops[0])
        elif op == "ret":
            self.jump_value(self.rd(ops[0]) if ops else self.regs["x30"])
        elif op == "br":
            self.jump_value(self.rd(ops[0]))
        elif op == "nop":
            pass
        else:
            raise Stuck("unsupported AArch64 instruction")

    def abi_facts(self):
        a = Machine.abi_facts(self)
        a["reserved_written"] = [r for r in self.RESERVED if r in self.regs_written]
        if a["reserved_written"]:
            a["callee_saved_bad"] = a["callee_saved_bad"] + a["reserved_written"]
        return a


# =================================================================== ARM 32-bit (A32 / T32 / T16, unified syntax)
ALIASES = {"fp": "r11", "ip": "r12", "sl": "r10", "sb": "r9", "r13": "sp", "r14": "lr", "r15": "pc"}
LOW = ["r%d" % i for i in range(8)]


def arm_imm_ok(n):
    """A32 modified immediate: an 8-bit value rotated right by an even amount"""
    n &= 0xFFFFFFFF
    for r in range(0, 32, 2):
        if ((n << r) | (n >> (32 - r))) & 0xFFFFFFFF < 256:
            return True
    return False


def thumb2_imm_ok(n):
    """T32 modified immediate: 00XY00XY / XY00XY00 / XYXYXYXY / 000000XY or an 8-bit value with leading 1 rotated"""
    n &= 0xFFFFFFFF
    if n < 256:
        return True
    b0 = n & 0xFF
    if n == b0 | (b0 << 16):
        return True
    b1 = (n >> 8) & 0xFF
    if n == (b1 << 8) | (b1 << 24):
        return True
    if n == b0 * 0x01010101:
        return True
    for r in range(8, 32):
        v = ((n << r) | (n >> (32 - r))) & 0xFFFFFFFF          # rotate left by r = undo a rotate right by r
        if v < 256 and v >= 128:
            return True
    return False


class A32(Machine):
    """profile: 'arm' (A32, ARMv6), 'thumb2' (ARMv7-M / ARMv8-M mainline), 'thumb1' (ARMv6-M)"""
    W = 32
    REGS = ["r%d" % i for i in range(13)] + ["sp", "lr"]
    SP = "sp"
    LINK_REG = "lr"
    CALLEE_SAVED = ["r4", "r5", "r6", "r7", "r8", "r9", "r10", "r11"]

    def __init__(self, *a, profile="arm", **kw):
        Machine.__init__(self, *a, **kw)
        self.profile = profile

    def rn(self, name):
        name = name.strip().lower()
        name = ALIASES.get(name, name)
        if name not in self.regs and name != "pc":
            raise Stuck("bad register " + name)
        return name

    def rd(self, name):
        name = self.rn(name)
        if name == "pc":
            raise Stuck("pc used as a data operand")
        return self.regs[name]

    def wr(self, name, v):
        name = self.rn(name)
        if name == "pc":
            self.jump_value(v)
        else:
            self.setreg(name, v)

    def interwork(self, t):
        """loads into pc (pop / ldm) are interworking branches like bx"""
        if self.profile in ("thumb1", "thumb2") and isinstance(t, LabelAddr):
            raise Stuck("pc loaded with the address of a local label in Thumb code: bit 0 clear, the core leaves Thumb state")
        self.jump_value(t)

    def reglist(self, op):
        m = re.match(r"^\{(.*)\}$", op.strip())
        if not m:
            raise Stuck("bad register list " + op)
        out = []
        for part in m.group(1).split(","):
            part = part.strip()
            if "-" in part:
                a, z = [self.rn(x) for x in part.split("-")]
                order = self.REGS + ["pc"]
                out += order[order.index(a):order.index(z) + 1]
            else:
                out.append(self.rn(part))
        order = {r: i for i, r in enumerate(self.REGS + ["pc"])}
        srt = sorted(out, key=lambda r: order[r])
        if srt != out or len(set(out)) != len(out):
            raise Stuck("register list not in ascending order (the assembler warns; transfer order is by register number)")
        return out

    def shift(self, v, kind, k):
        """immediate shift applied to a flexible second operand (no flags)"""
        if kind == "ror":
            if not 1 <= k <= 31:
                raise Stuck("ror amount out of range")
            return self.b.rotr(v, k)
        if kind == "lsl":
            if not 0 <= k <= 31:
                raise Stuck("lsl amount out of range")
            return self.b.shl(v, k)
        if kind == "lsr":
            if not 1 <= k <= 32:
                raise Stuck("lsr amount out of range")
            return self.b.lshr(v, k)
        raise Stuck("shift kind %s not modelled" % kind)

    def op2(self, ops):
        """#imm | Rm | Rm, <shift> #n | Rm, <shift> Rs"""
        if is_imm(ops[0]):
            n = imm(ops[0])
            if self.profile == "arm" and not (arm_imm_ok(n)):
                raise Stuck("immediate %d is not an A32 modified immediate" % n)
            if self.profile == "thumb2" and not thumb2_imm_ok(n):
                raise Stuck("immediate %d is not a T32 modified immediate" % n)
            return self.b.const(32, n)
        v = self.rd(ops[0])
        if not isinstance(v, V):
            raise Stuck("logical operation on a pointer")
        if len(ops) > 1:
            m = re.match(r"^(lsl|lsr|ror|asr|rrx)(?:\s+(#?\w+))?$", ops[1].lower())
            if not m:
                raise Stuck("bad shifted-register operand " + ops[1])
            if self.profile == "thumb1":
                raise Stuck("shifted-register operand is not encodable in ARMv6-M Thumb")
            if is_imm(m.group(2) or ""):
                v = self.shift(v, m.group(1), imm(m.group(2)))
            else:
                if self.profile != "arm":
                    raise Stuck("register-shifted register operand only exists in A32")
                k = self.conc(self.rd(m.group(2)), "shift/rotate count") & 0xFF
                v = self.shift_by_reg(v, m.group(1), k)
        return v

    def shift_by_reg(self, v, kind, k):
        """shift by the bottom byte of a register (k already concrete, 0..255)"""
        if kind == "ror":
            return self.b.rotr(v, k % 32)
        if kind == "lsl":
            return self.b.shl(v, k) if k < 32 else self.b.const(32, 0)
        if kind == "lsr":
            return self.b.lshr(v, k) if k < 32 else self.b.const(32, 0)
        raise Stuck("shift kind %s not modelled" % kind)

    def set_flags(self, r):
        """N,Z (and C from the shifter) of a logical result: known only for concrete results"""
        self.flags = ("cmp", r.conc, 0, 32) if isinstance(r, V) and r.is_conc() else None

    def addr(self, ops):
        """[Rn] | [Rn, #imm] | [Rn, Rm] | [Rn, #imm]! | [Rn], #imm -> (address, writeback)"""
        m = re.match(r"^\[\s*(\w+)\s*(?:,\s*(#?-?\w+)\s*)?\](!?)$", ops[0])
        if not m:
            raise Stuck("unsupported addressing mode " + " ".join(ops))
        base = self.rd(m.group(1))
        off = 0
        if m.group(2):
            if is_imm(m.group(2)):
                off = imm(m.group(2))
            else:
                off = signed(self.conc(self.rd(m.group(2)), "address (index register %s)" % m.group(2)), 32)
        if not isinstance(base, (Ptr, LabelAddr)):
            raise Stuck("data-dependent address (base register %s is not a pointer)" % m.group(1))
        mk = (lambda d: Ptr(base.region, base.off + d)) if isinstance(base, Ptr) else (lambda d: LabelAddr(base.name, base.delta + d))
        if len(ops) > 1:
            if m.group(2) or m.group(3):
                raise Stuck("bad post-index form")
            return mk(0), (m.group(1), mk(imm(ops[1])))
        if m.group(3):
            return mk(off), (m.group(1), mk(off))
        return mk(off), None

    # ---- ARMv6-M: only the 16-bit Thumb encodings (and bl) exist
    def check_thumb1(self, op, ops):
        lo = lambda r: self.rn(r) in LOW
        ok = False
        if op in ("eors", "ands", "orrs", "bics", "mvns", "rors", "lsls", "lsrs", "muls", "adcs", "sbcs"):
            if op in ("lsls", "lsrs") and len(ops) == 3 and is_imm(ops[2]):
                ok = lo(ops[0]) and lo(ops[1]) and 0 <= imm(ops[2]) <= 31
            elif op == "mvns":
                ok = len(ops) == 2 and lo(ops[0]) and lo(ops[1])
            elif len(ops) == 2:
                ok = lo(ops[0]) and not is_imm(ops[1]) and lo(ops[1])
            elif len(ops) == 3:
                ok = lo(ops[0]) and self.rn(ops[0]) == self.rn(ops[1]) and not is_imm(ops[2]) and lo(ops[2])
        elif op == "movs":
            ok = len(ops) == 2 and lo(ops[0]) and ((is_imm(ops[1]) and 0 <= imm(ops[1]) <= 255) or (not is_imm(ops[1]) and lo(ops[1])))
        elif op == "mov":
            ok = len(ops) == 2 and not is_imm(ops[1])
        elif op == "cmp":
            ok = len(ops) == 2 and ((is_imm(ops[1]) and lo(ops[0]) and 0 <= imm(ops[1]) <= 255) or not is_imm(ops[1]))
        elif op in ("ldr", "str"):
            m = re.match(r"^\[\s*(\w+)\s*(?:,\s*(#?-?\w+)\s*)?\]$", ops[1]) if len(ops) == 2 else None
            if op == "ldr" and len(ops) == 2 and not ops[1].startswith("["):
                ok = lo(ops[0])                                    # ldr Rt, label (literal)
            elif m and lo(ops[0]):
                basen = self.rn(m.group(1))
                if m.group(2) is None or is_imm(m.group(2)):
                    o = imm(m.group(2)) if m.group(2) else 0
                    ok = o % 4 == 0 and ((basen == "sp" and 0 <= o <= 1020) or (basen in LOW and 0 <= o <= 124))
                else:
                    ok = basen in LOW and lo(m.group(2))
        elif op in ("add", "sub"):
            if len(ops) == 3 and self.rn(ops[0]) == "sp" and self.rn(ops[1]) == "sp" and is_imm(ops[2]):
                ok = imm(ops[2]) % 4 == 0 and 0 <= imm(ops[2]) <= 508
            elif len(ops) == 2 and self.rn(ops[0]) == "sp" and is_imm(ops[1]):
                ok = imm(ops[1]) % 4 == 0 and 0 <= imm(ops[1]) <= 508
            elif op == "add" and len(ops) == 2 and not is_imm(ops[1]):
                ok = True                                          # add Rdn, Rm (any registers, no flags)
            elif op == "add" and len(ops) == 3 and lo(ops[0]) and self.rn(ops[1]) == "sp" and is_imm(ops[2]):
                ok = imm(ops[2]) % 4 == 0 and 0 <= imm(ops[2]) <= 1020
        elif op in ("adds", "subs"):
            ok = all(is_imm(o) or lo(o) for o in ops)
        elif op == "adr":
            ok = lo(ops[0])
        elif op in ("push", "pop"):
            extra = "lr" if op == "push" else "pc"
            ok = all(r in LOW or r == extra for r in self.reglist(ops[0]))
        elif op in ("b", "bl", "bx", "blx", "nop") or (op[0] == "b" and op[1:] in CONDS):
            ok = True
        if not ok:
            raise Stuck("not encodable in ARMv6-M (16-bit Thumb): the target assembler rejects it")

    def step(self, op, ops):
        b = self.b
        if op.endswith((".w", ".n")):
            if self.profile == "arm" or (self.profile == "thumb1" and op.endswith(".w")):
                raise Stuck("width suffix not available in this instruction set")
            op = op[:-2]
        if self.profile == "thumb1":
            self.check_thumb1(op, ops)
        base, s = op, False
        LOGIC = ("eor", "and", "orr", "bic", "orn", "mvn", "mov", "ror", "lsl", "lsr")
        if op.endswith("s") and op[:-1] in LOGIC:
            base, s = op[:-1], True
        if base in ("eor", "and", "orr", "bic", "orn"):
            if len(ops) == 2 or (len(ops) == 3 and re.match(r"^(lsl|lsr|ror|asr)\b", ops[2].lower())):
                dst, x, rest = ops[0], self.rd(ops[0]), ops[1:]
            else:
                dst, x, rest = ops[0], self.rd(ops[1]), ops[2:]
            y = self.op2(rest)
            if not isinstance(x, V):
                raise Stuck("logical operation on a pointer")
            if base == "orn" and self.profile != "thumb2":
                raise Stuck("orn only exists in Thumb-2")
            if base in ("bic", "orn"):
                y = b.not_(y)
            r = {"eor": b.xor, "and": b.and_, "bic": b.and_, "orr": b.or_, "orn": b.or_}[base](x, y)
            self.wr(dst, r)
            if s:
                self.set_flags(r)
        elif base == "mvn":
            r = b.not_(self.op2(ops[1:]))
            self.wr(ops[0], r)
            if s:
                self.set_flags(r)
        elif base == "mov":
            if is_imm(ops[1]):
                n = imm(ops[1])
                if self.profile == "arm" and not (arm_imm_ok(n) or arm_imm_ok(~n)):
                    raise Stuck("immediate %d is not an A32 modified immediate" % n)
                r = b.const(32, n)
            elif len(ops) > 2:
                r = self.op2(ops[1:])
            else:
                r = self.rd(ops[1])          # plain move: pointers and code addresses travel too
            self.wr(ops[0], r)
            if s:
                self.set_flags(r)
        elif base in ("ror", "lsl", "lsr"):
            if len(ops) == 2:
                dst, x, cnt = ops[0], self.rd(ops[0]), ops[1]
            else:
                dst, x, cnt = ops[0], self.rd(ops[1]), ops[2]
            if not isinstance(x, V):
                raise Stuck("shift of a pointer")
            if is_imm(cnt):
                r = self.shift(x, base, imm(cnt))
            else:
                k = self.conc(self.rd(cnt), "shift/rotate count") & 0xFF          # bottom byte of Rs
                r = self.shift_by_reg(x, base, k)
            self.wr(dst, r)
            if s:
                self.set_flags(r)
        elif op in ("ldr", "str"):
            if op == "ldr" and ops[1].startswith("="):
                self.wr(ops[0], b.const(32, int(ops[1][1:], 0)))
                return
            if op == "ldr" and len(ops) == 2 and ops[1] in self.tables:          # pc-relative literal
                self.wr(ops[0], self.mem_load(LabelAddr(ops[1]), 4))
                return
            p, wb = self.addr(ops[1:])
            if op == "ldr":
                v = self.mem_load(p, 4)
                if wb:
                    self.wr(wb[0], wb[1])
                self.wr(ops[0], v)
            else:
                self.mem_store(p, self.rd(ops[0]))
                if wb:
                    self.wr(wb[0], wb[1])
        elif op in ("ldrd", "strd"):
            if self.profile == "thumb1":
                raise Stuck("ldrd/strd do not exist in ARMv6-M")
            p, wb = self.addr(ops[2:])
            mk = (lambda d: Ptr(p.region, p.off + d)) if isinstance(p, Ptr) else (lambda d: LabelAddr(p.name, p.delta + d))
            if op == "ldrd":
                v0, v1 = self.mem_load(mk(0), 4), self.mem_load(mk(4), 4)
                self.wr(ops[0], v0); self.wr(ops[1], v1)
            else:
                self.mem_store(mk(0), self.rd(ops[0])); self.mem_store(mk(4), self.rd(ops[1]))
            if wb:
                self.wr(wb[0], wb[1])
        elif op == "push":
            regs = self.reglist(ops[0])
            if "pc" in regs or "sp" in regs:
                raise Stuck("push of pc/sp")
            sp = self.regs["sp"]
            self.setreg("sp", Ptr("stack", sp.off - 4 * len(regs)))
            for i, r in enumerate(regs):                    # lowest register at the lowest address
                self.mem_store(Ptr("stack", sp.off - 4 * len(regs) + 4 * i), self.regs[r])
        elif op == "pop":
            regs = self.reglist(ops[0])
            if "sp" in regs:
                raise Stuck("pop of sp")
            sp = self.regs["sp"]
            vals = [self.mem_load(Ptr("stack", sp.off + 4 * i), 4) for i in range(len(regs))]
            self.setreg("sp", Ptr("stack", sp.off + 4 * len(regs)))
            for r, v in zip(regs, vals):
                if r != "pc":
                    self.setreg(r, v)
            if "pc" in regs:
                self.interwork(vals[regs.index("pc")])
        elif op in ("movw", "movt"):
            if self.profile == "thumb1" or self.profile == "arm":
                raise Stuck("movw/movt need ARMv6T2 / Thumb-2")
            n = imm(ops[1])
            if not 0 <= n <= 0xFFFF:
                raise Stuck("16-bit immediate out of range")
            if op == "movw":
                self.wr(ops[0], b.const(32, n))
            else:
                old = self.rd(ops[0])
                if not isinstance(old, V):
                    raise Stuck("movt on a pointer")
                self.wr(ops[0], b.or_(b.and_(old, b.const(32, 0xFFFF)), b.const(32, n << 16)))
        elif op in ("ldm", "ldmia", "stm", "stmia", "ldmib", "stmib"):
            m = re.match(r"^(\w+)(!?)$", ops[0].strip())
            base = self.rd(m.group(1))
            regs = self.reglist(ops[1])
            if not isinstance(base, Ptr):
                raise Stuck("data-dependent address (base register is not a pointer)")
            if op.endswith("ib"):
                if self.profile != "arm" or m.group(2):
                    raise Stuck("ldmib/stmib: A32 only, writeback not modelled")
                base = Ptr(base.region, base.off + 4)
            if op.startswith("ldm"):
                vals = [self.mem_load(Ptr(base.region, base.off + 4 * i), 4) for i in range(len(regs))]
                if m.group(2) and self.rn(m.group(1)) not in regs:
                    self.wr(m.group(1), Ptr(base.region, base.off + 4 * len(regs)))
                for r, v in zip(regs, vals):
                    if r != "pc":
                        self.setreg(r, v)
                if "pc" in regs:
                    self.interwork(vals[regs.index("pc")])
            else:
                for i, r in enumerate(regs):
                    self.mem_store(Ptr(base.region, base.off + 4 * i), self.regs[r])
                if m.group(2):
                    self.wr(m.group(1), Ptr(base.region, base.off + 4 * len(regs)))
        elif op in ("add", "sub", "adds", "subs"):
            if len(ops) == 2:
                dst, x, y = ops[0], self.rd(ops[0]), ops[1]
            else:
                dst, x, y = ops[0], self.rd(ops[1]), ops[2]
            yv = b.const(32, imm(y)) if is_imm(y) else self.rd(y)
            r = self.add_values(x, yv, sub=op.startswith("sub"))
            self.wr(dst, r)
            if op.endswith("s"):
                self.flags = None
        elif op == "adr":
            if ops[1] not in self.labels:
                raise Stuck("adr of unknown label")
            self.wr(ops[0], LabelAddr(ops[1]))
        elif op == "cmp":
            x = self.rd(ops[0])
            y = self.op2(ops[1:])
            self.flags = ("cmp", self.conc(x, "comparison"), self.conc(y, "comparison"), 32)
        elif op == "tst":
            r = b.and_(self.rd(ops[0]), self.op2(ops[1:]))
            self.flags = ("cmp", self.conc(r, "test"), 0, 32)
        elif op == "b":
            self.jump(ops[0])
        elif op[0] == "b" and op[1:] in CONDS:
            if self.cond(op[1:]):
                self.jump(ops[0])
        elif op == "bl":
            self.setreg("lr", RetAddr(self.pc))
            self.jump(ops[0])
        elif op == "bx":
            t = self.regs[self.rn(ops[0])]
            # interworking branch: bit 0 of the target selects the instruction set.  An address made from `adr` / a table of label
            # differences has bit 0 clear; in Thumb code that is a switch to ARM state (INVSTATE fault on the Thumb-only M profiles,
            # Thumb bytes executed as ARM instructions elsewhere).  Only a return address written by bl/blx carries the Thumb bit.
            if self.profile in ("thumb1", "thumb2") and isinstance(t, LabelAddr):
                raise Stuck("bx to the address of a local label in Thumb code: bit 0 of the target is clear, the core leaves Thumb state "
                            "(INVSTATE fault on ARMv6-M/ARMv7-M) - `mov pc, rN` is the branch that ignores bit 0")
            self.jump_value(t)
        elif op == "nop":
            pass
        else:
            raise Stuck("unsupported ARM instruction")


# =================================================================== providers for kern_perm.py
PROFILES = {
    # name: (file, target macros, machine class, machine kwargs, layout)
    "armv8a": ("ascon-asm-armv8a-64.S", ["__aarch64__", "__ARM_ARCH=8", "__ARM_ARCH_8A", "__ARM_ARCH_ISA_A64", "__ARM_64BIT_STATE"], A64, {}, "KL64"),
    "armv7m": ("ascon-asm-armv7m.S", ["__arm__", "__thumb__", "__thumb2__", "__ARM_ARCH=7", "__ARM_ARCH_7M__", "__ARM_ARCH_ISA_THUMB=2", "__ARM_32BIT_STATE"], A32, {"profile": "thumb2"}, "KL32"),
    "armv6": ("ascon-asm-armv6.S", ["__arm__", "__ARM_ARCH=6", "__ARM_ARCH_6__", "__ARM_ARCH_ISA_ARM", "__ARM_32BIT_STATE"], A32, {"profile": "arm"}, "KL32"),
    "armv6m": ("ascon-asm-armv6m.S", ["__arm__", "__thumb__", "__ARM_ARCH=6", "__ARM_ARCH_6M__", "__ARM_ARCH_ISA_THUMB=1", "__ARM_32BIT_STATE"], A32, {"profile": "thumb1"}, "KL32"),
}


def runs(repo, name):
    fn, defs, cls, kw, layout = PROFILES[name]
    path = os.path.join(repo, "src", "core", fn)
    text = preprocess(path, incs=[os.path.join(repo, "src"), os.path.join(repo, "src", "core")], defs=defs)
    items, tables, directives = parse(text, path)
    a0, a1 = ("x0", "x1") if cls is A64 else ("r0", "r1")

    def make(k, cut):
        # AAPCS64 leaves the bits above a uint8_t argument unspecified: the callee must mask (x86-64/ARM32/RISC-V callers extend)
        return cls(items, tables, "ascon_permute", {a0: ("ptr", "state", 0), a1: (("arg8", k) if cls is A64 else ("int", k))},
                   {"state": {"size": 40, "symbolic": True}}, cut=cut, **kw)
    verif = os.path.dirname(os.path.dirname(os.path.abspath(__file__)))
    extra = {"file": "src/core/" + fn, "macros": defs, "isa": cls.__name__ + (":" + kw["profile"] if kw else "")}
    # the file's other function (register wipe): must return with every callee-saved register and sp intact, without touching memory
    free_err = None
    if any(it[0] == "label" and it[1] == "ascon_backend_free" for it in items if isinstance(it, tuple) and len(it) > 1):
        try:
            m = cls(items, tables, "ascon_backend_free", {}, {"state": {"size": 40, "symbolic": True}}, cut=None, **kw)
            m.run()
            a = m.abi_facts()
            a["memory_accesses"] = len([x for seg in getattr(m, "segments", []) for x in seg.b.leak if x[0] in "RW"]) if hasattr(m, "segments") else None
            extra["ascon_backend_free"] = a
            if a["callee_saved_bad"] or not a["sp_restored"]:
                free_err = "at return callee-saved register(s) %s do not hold their entry values%s" % (", ".join(a["callee_saved_bad"]) or "-", "" if a["sp_restored"] else "; sp not restored")
        except Stuck as ex:
            extra["ascon_backend_free"] = {"error": str(ex)}
            free_err = str(ex)
    layout_, one = kern_runs(name, layout, make, lambda lab: lab.startswith(".L"), items, "ascon_permute", os.path.join(verif, "build", "kern"), extra)
    if not free_err:
        return layout_, one

    def one_blocked(k):
        raise Stuck("ascon_backend_free in the same file: " + free_err)
    return layout_, one_blocked


PROVIDERS = {n: runs for n in PROFILES}
