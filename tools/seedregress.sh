#!/bin/bash
# tools/seedregress.sh <names...>: re-run the property's quick check against already confirmed seeded changes
cd /verif
for s in "$@"; do python3 tools/seedtest.py seeded/$s 2>&1 | tail -1; done
