"""Xtensa (LX, GNU as syntax, little-endian core) front end of the symbolic
executor for src/core/ascon-asm-xtensa.S.  The file holds the state as
uint64_t S[5] in host order (layout KL64, ASCON_BACKEND_SLICED64); each word
lives in two 32-bit address registers and is rotated with the funnel shift
`ssai n ; src`.  Two variants are selected by the file's own #if:

  xtensa        -D__XTENSA__ -D__XTENSA_WINDOWED_ABI__   windowed ABI (`entry sp, 32` .. `retw.n`): what
                xtensa-esp32-elf-gcc (ESP32) defines by default
  xtensa_call0  -D__XTENSA__ -D__XTENSA_CALL0_ABI__ [-DESP8266 only moves the section] call0 ABI
                (`addi sp, sp, -32`, spills a12..a15, `ret.n`): ESP8266 (lx106) and call0 builds

Calling convention (Xtensa ISA reference manual 8.1, confirmed by the comment
in tools/genxtensa/ascon_xtensa_64.c): a0 = return address, a1 = sp, a2 =
state pointer, a3 = first_round (promoted to int by the caller).  call0:
preserved a12..a15 and sp.  Windowed: `entry` must be the first instruction;
the callee owns a2..a15 of its window; the caller's registers are restored
by the window rotation of `retw`, which decodes the rotation from a0[31:30]
and reloads spilled frames relative to a1, so a0 must hold its entry value
and a1 the value `entry` gave it when `retw.n` executes.

The lowering table in XT.step (one entry per mnemonic in the file, immediates
checked against their encodable ranges) is the trusted ISA model; there is no
Xtensa assembler or emulator in this sandbox, so it is not cross-checked
against hardware.  The file does not test __XTENSA_EB__: on a big-endian
core the two halves of every word would be swapped; that configuration is not
modelled (and not supported by the file)."""
import os, re, time, random
import asm_rvxt_base
from asm_rvxt_base import Machine, Stuck, Ptr, V, RetAddr, Init, DEAD, sx

REGS = ["a%d" % i for i in range(16)]
B4CONST = [-1, 1, 2, 3, 4, 5, 6, 7, 8, 10, 12, 16, 32, 64, 128, 256]

VARIANTS = {
    "xtensa": (["__XTENSA__", "__XTENSA_WINDOWED_ABI__"], True),
    "xtensa_call0": (["__XTENSA__", "__XTENSA_CALL0_ABI__"], False),
}


class XT(Machine):
    XLEN = 32
    REGS = REGS
    SP = "a1"

    def __init__(self, items, entry, regs_init, regions, windowed=True, **kw):
        self.windowed = windowed
        self.sar = None
        self.entered = None          # frame size given to `entry`
        Machine.__init__(self, items, entry, regs_init, regions, **kw)

    def default_spec(self, r):
        if r == "a0":
            return ("ret",)
        if r == "a1":
            return ("sp",)
        if not self.windowed and r in ("a12", "a13", "a14", "a15"):
            return ("init",)
        return ("sym",)

    def preserved(self):
        return ["a0"] if self.windowed else ["a0", "a12", "a13", "a14", "a15"]

    def canon(self, name):
        r = "a1" if name == "sp" else name
        if r not in REGS:
            raise Stuck("unknown register " + name)
        return r

    def put(self, name, v):
        if self.canon(name) == "a1" and self.windowed and self.entered is not None:
            raise Stuck("a1 modified after `entry` in a windowed function (window spill area would move)")
        Machine.put(self, name, v)

    def step(self, op, ops):
        b = self.b
        if self.windowed and self.entered is None and op != "entry":
            raise Stuck("windowed function does not start with `entry`")
        if op == "entry":
            if not self.windowed:
                raise Stuck("`entry` in a call0 function")
            if self.entered is not None or self.steps != 1:
                raise Stuck("`entry` is not the first instruction")
            if self.canon(ops[0]) != "a1":
                raise Stuck("`entry` on a register other than a1")
            n = self.imm(ops[1], 0, 32760, "entry", 8)
            sp = self.get("a1")
            Machine.put(self, "a1", Ptr(sp.region, sp.off - n))
            self.entered = n
        elif op in ("l32i", "l32i.n"):
            k = self.imm(ops[2], 0, 60 if op.endswith(".n") else 1020, op, 4)
            self.put(ops[0], self.load(self.get(ops[1]), k, 4))
        elif op in ("s32i", "s32i.n"):
            k = self.imm(ops[2], 0, 60 if op.endswith(".n") else 1020, op, 4)
            self.store(self.get(ops[1]), k, self.get(ops[0]), 4)
        elif op in ("movi", "movi.n"):
            k = self.imm(ops[1], -32, 95, op) if op.endswith(".n") else self.imm(ops[1], -2048, 2047, op)
            self.put(ops[0], b.const(32, k))
        elif op in ("mov", "mov.n"):
            self.put(ops[0], self.get(ops[1]))
        elif op in ("xor", "and", "or"):
            f = {"xor": b.xor, "and": b.and_, "or": b.or_}[op]
            self.put(ops[0], f(self.val(ops[1]), self.val(ops[2])))
        elif op == "ssai":
            self.sar = self.imm(ops[0], 0, 31, op)
        elif op == "src":                                   # AR[r] = low 32 bits of ((AR[s] : AR[t]) >> SAR)
            if self.sar is None:
                raise Stuck("`src` with an unknown shift-amount register")
            hi, lo = self.val(ops[1]), self.val(ops[2])
            self.put(ops[0], lo if self.sar == 0 else b.or_(b.lshr(lo, self.sar), b.shl(hi, 32 - self.sar)))
        elif op in ("addi", "addi.n"):
            if op == "addi.n":
                k = int(ops[2], 0)
                if k not in [-1] + list(range(1, 16)):
                    raise Stuck("addi.n immediate not encodable")
            else:
                k = self.imm(ops[2], -128, 127, op)
            a = self.get(ops[1])
            if isinstance(a, Ptr):
                self.put(ops[0], Ptr(a.region, a.off + k))
            else:
                self.put(ops[0], b.const(32, self.conc(a, "addition") + k))
        elif op in ("beqi", "bnei"):
            k = int(ops[1], 0)
            if k not in B4CONST:
                raise Stuck("%s constant %d not encodable (b4const)" % (op, k))
            x = self.conc(self.get(ops[0]), "branch condition")
            self.branch(op, (x == k & 0xFFFFFFFF) == (op == "beqi"), ops[2])
        elif op in ("beqz", "bnez", "beqz.n", "bnez.n"):
            x = self.conc(self.get(ops[0]), "branch condition")
            self.branch(op, (x == 0) == op.startswith("beqz"), ops[1])
        elif op in ("beq", "bne"):
            x, y = self.conc(self.get(ops[0]), "branch condition"), self.conc(self.get(ops[1]), "branch condition")
            self.branch(op, (x == y) == (op == "beq"), ops[2])
        elif op == "j":
            self.jump(ops[0])
        elif op in ("retw", "retw.n"):
            if not self.windowed or self.entered is None:
                raise Stuck("`retw` without `entry`")
            if not isinstance(self.get("a0"), RetAddr):
                raise Stuck("`retw` with a0 not holding the caller's return address / window increment")
            self.b.leak.append(("RET",))
            self.done = True
        elif op in ("ret", "ret.n"):
            if self.windowed:
                raise Stuck("`ret` in a windowed function")
            if not isinstance(self.get("a0"), RetAddr):
                raise Stuck("`ret` with a0 not holding the caller's return address")
            self.b.leak.append(("RET",))
            self.done = True
        elif op in ("nop", "nop.n"):
            pass
        else:
            raise Stuck("unsupported Xtensa instruction: %s %s" % (op, ", ".join(ops)))


def discover_pairs(m1):
    """Which two registers hold the low / high half of state word i at the first cut label?  Found by evaluating the
    (uncut) pass-1 program on a random state; a wrong answer cannot make a wrong chain pass (Coq re-checks)."""
    if m1.snap is None:
        return ()
    rng = random.Random(7)
    b = m1.segments[0].b
    ins = [rng.getrandbits(w) for w in b.in_widths]
    words = [sum(ins[8 * i + k] << (8 * k) for k in range(8)) for i in range(5)]
    cand = [(r, v) for r, v in m1.snap.items() if isinstance(v, V) and not v.is_conc()]
    vals = dict(zip([r for r, _ in cand], b.evaluate(ins, [v for _, v in cand])))
    pairs = []
    for x in words:
        found = {}
        for half, want in (("lo", x & 0xFFFFFFFF), ("hi", x >> 32)):
            for r, got in vals.items():
                if got == want:
                    found.setdefault(half, (r, False))
                elif got == want ^ 0xFFFFFFFF:
                    found.setdefault(half, (r, True))
        if len(found) == 2 and found["lo"][1] == found["hi"][1]:
            pairs.append((found["hi"][0], found["lo"][0]))
    return pairs


def runs(repo, name):
    defs, windowed = VARIANTS[name]
    fn = "ascon-asm-xtensa.S"
    path = os.path.join(repo, "src", "core", fn)
    text = asm_rvxt_base.preprocess(path, incs=[os.path.join(repo, "src"), os.path.join(repo, "src", "core")], defs=defs)
    items, directives = asm_rvxt_base.parse(text)
    ff = asm_rvxt_base.FactFile(name, {
        "file": "src/core/" + fn, "target_macros": defs, "isa": "Xtensa LX (little-endian), %s ABI" % ("windowed" if windowed else "call0"),
        "layout": "KL64", "mnemonics": asm_rvxt_base.histogram(items),
        "mnemonics_ascon_permute": asm_rvxt_base.histogram(asm_rvxt_base.function_items(items, "ascon_permute")),
        "abi": "a0=return a1=sp a2=state a3=first_round; " + ("windowed: entry/retw pairing, a0 and a1 unchanged at retw" if windowed else "call0: preserved a12-a15, sp"),
        "sp_alignment": 16,
        "has_gnu_stack_note": any(d == ".section" and a.split(",")[0].strip() == ".note.GNU-stack" for d, a in directives)})
    state = {"state": {"size": 40, "symbolic": True}}

    def make_for(entry, regs):
        def make(mode, live, pairs):
            return XT(items, entry, regs, dict(state), windowed=windowed, cut=lambda lab: lab.startswith(".L"), mode=mode, live=live, pairs=pairs)
        return make

    def sp_expected(m):
        return m.entry_sp - m.entered if windowed else m.entry_sp

    if any(it == ("label", "ascon_backend_free") for it in items):
        try:
            m = make_for("ascon_backend_free", {})("trace", None, ())
            m.run()
            f = m.frame_facts(m.preserved(), sp_expected(m))
            f["memory_accesses"] = len([x for x in m.segments[0].b.leak if x[0] in "RW"])
            ff.data["ascon_backend_free"] = f
        except Stuck as ex:
            ff.data["ascon_backend_free"] = {"error": str(ex)}
    else:
        ff.data["ascon_backend_free"] = "not defined in this variant (ASCON_BACKEND_FREE is not set for the windowed ABI)"
    ff.write()
    bf = ff.data["ascon_backend_free"]
    free_err = (bf.get("error") or ("ascon_backend_free accesses memory" if bf.get("memory_accesses") else None)) if isinstance(bf, dict) else None

    def one(k):
        t0 = time.time()
        if free_err:
            ff.fail(k, "ascon_backend_free: " + free_err)
            raise Stuck("ascon_backend_free in the same file: " + free_err)
        make = make_for("ascon_permute", {"a2": ("ptr", "state", 0), "a3": ("int", k)})
        try:
            probe = make("trace", None, ())
            segs, facts = asm_rvxt_base.two_pass(make, [("m", "state", i) for i in range(40)], probe.preserved(), sp_expected, pairs_of=discover_pairs)
            if facts["frame_bytes"] % 16:
                raise Stuck("frame of %d bytes breaks the 16-byte stack alignment" % facts["frame_bytes"])
        except Stuck as ex:
            ff.fail(k, str(ex))
            raise
        facts["translate_seconds"] = round(time.time() - t0, 3)
        ff.record(k, facts)
        return segs
    return "KL64", one
PROVIDERS = {n: runs for n in VARIANTS}
