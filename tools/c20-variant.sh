#!/bin/sh
# C20: select which /repo code the byte_array model describes.
#   tools/c20-variant.sh pinned        operator[]/pop_back detach always; leaked blocks are shared   (/repo at 91fae7b)
#   tools/c20-variant.sh fixed-index   after fixes/C20-subscript-detach.patch
#   tools/c20-variant.sh fixed         after fixes/C20-subscript-detach.patch and fixes/C20-bytearray-unshare-leaked.patch
# Sets fix_ba_index / fix_ba_leak in coq/Model/C20Config.v and installs the
# matching coq/Props/Properties_C20.v.<variant> as coq/Props/Properties_C20.v.
set -e
d=$(cd "$(dirname "$0")/.." && pwd)
case "$1" in
  pinned)      i=false; l=false ;;
  fixed-index) i=true;  l=false ;;
  fixed)       i=true;  l=true ;;
  *) echo "usage: $0 pinned|fixed-index|fixed" >&2; exit 2 ;;
esac
sed -i -e "s/^Definition fix_ba_index : bool := [a-z]*\./Definition fix_ba_index : bool := $i./" \
       -e "s/^Definition fix_ba_leak : bool := [a-z]*\./Definition fix_ba_leak : bool := $l./" "$d/coq/Model/C20Config.v"
cp "$d/coq/Props/Properties_C20.v.$1" "$d/coq/Props/Properties_C20.v"
grep -n "^Definition fix_ba_\(index\|leak\)" "$d/coq/Model/C20Config.v"
