#!/usr/bin/env python3
"""(T) translator for the masked permutation kernels (C10): ascon_x{2,3,4}_permute of the C64 masked
backend as clang -O1 LLVM IR (and, via asm_x86, the x86-64 masked assembly), executed symbolically for
every first_round 0..12 with ALL shares and ALL randomness symbolic, cut at the loop head; emits
coq/Gen/Masked_<name>.v: interfaces with their value programs and the segments; Coq checks
value_out(segment v) = round(value_in v) for all v."""
import os, sys, random, hashlib, re
sys.path.insert(0, os.path.dirname(os.path.abspath(__file__)))
import llvmx
from symx import Stuck
from kern_perm import ascon_round, renumber_inputs

M64 = (1 << 64) - 1
MAXS = 4


def rotl(x, k):
    k %= 64
    return ((x << k) | (x >> (64 - k))) & M64 if k else x


def mem_value_prog(n, nbytes_total):
    """value program over the memory interface: state (5 x MAXS x 8 bytes, little-endian words) then the rest"""
    outs = []
    for i in range(5):
        terms = []
        for j in range(n):
            base = 32 * i + 8 * j
            e = "(WIn %d)" % base
            for b in range(1, 8):
                e = "(WConcat (WIn %d) %s)" % (base + b, e)
            if j:
                e = "(WRotr %d %s)" % (64 - 11 * j, e)
            terms.append(e)
        v = terms[0]
        for t in terms[1:]:
            v = "(WXor %s %s)" % (v, t)
        outs.append(v)
    return "{| p_body := []; p_outs := [%s] |}" % "; ".join(outs)


def var_value_prog(n, mapping):
    """mapping: (i, j) -> (position, inverted)"""
    outs = []
    for i in range(5):
        terms = []
        for j in range(n):
            pos, inv = mapping[(i, j)]
            if isinstance(pos, list):
                e = "(WIn %d)" % pos[0]
                for p in pos[1:]:
                    e = "(WConcat (WIn %d) %s)" % (p, e)
            else:
                e = "(WIn %d)" % pos
            if inv:
                e = "(WNot %s)" % e
            if j:
                e = "(WRotr %d %s)" % (64 - 11 * j, e)
            terms.append(e)
        v = terms[0]
        for t in terms[1:]:
            v = "(WXor %s %s)" % (v, t)
        outs.append(v)
    return "{| p_body := []; p_outs := [%s] |}" % "; ".join(outs)


def llvm_provider(repo, n):
    src = os.path.join(repo, "src", "masking", "ascon-x%d-c64.c" % n)
    txt = llvmx.compile_ll(src, defs=["ASCON_FORCE_C64"], incs=[os.path.join(repo, "src"), os.path.join(repo, "src", "ascon"), os.path.join(repo, "src", "masking")])
    mod = llvmx.Module(txt)
    fname = "@ascon_x%d_permute" % n

    def one(k):
        e = llvmx.Exec(mod, fname, [("ptr", "state", 0), ("int", k), ("ptr", "preserve", 0)],
                       {"state": {"size": 5 * 8 * MAXS, "symbolic": True}, "preserve": {"size": 8 * (n - 1), "symbolic": True}},
                       cut=True, cut_exits=False)
        return e.run()
    return one


def x86_provider(repo, n):
    import asm_x86
    path = os.path.join(repo, "src", "masking", "ascon-x%d-asm-x86-64.S" % n)
    text = asm_x86.preprocess(path, incs=[os.path.join(repo, "src"), os.path.join(repo, "src", "masking"), os.path.join(repo, "src", "core")])
    items, tables, directives = asm_x86.parse(text)

    def one(k):
        m = asm_x86.X86(items, tables, "ascon_x%d_permute" % n,
                        {"rdi": ("ptr", "state", 0), "rsi": ("int", k), "rdx": ("ptr", "preserve", 0)},
                        {"state": {"size": 5 * 8 * MAXS, "symbolic": True}, "preserve": {"size": 8 * (n - 1), "symbolic": True}},
                        cut=lambda lab: lab == ".L0")
        return m.run()
    return one


def run_kernel(name, n, one):
    rng = random.Random(7)
    ifaces, iface_ids, segtab, chains, errors = [], {}, {}, {}, []

    def iface_id(widths, vprog):
        key = (tuple(widths), vprog)
        if key not in iface_ids:
            iface_ids[key] = len(ifaces)
            ifaces.append(key)
        return iface_ids[key]

    mem_total = 5 * 8 * MAXS + 8 * (n - 1)
    mem_if = iface_id([8] * mem_total, mem_value_prog(n, mem_total))
    for k in range(13):
        try:
            segs = one(k)
        except Stuck as ex:
            errors.append("first_round=%d: %s" % (k, ex)); continue
        shares = [[rng.getrandbits(64) for _ in range(MAXS)] for _ in range(5)]
        mem = []
        for i in range(5):
            for j in range(MAXS):
                mem += [(shares[i][j] >> (8 * b)) & 255 for b in range(8)]
        mem += [rng.getrandbits(8) for _ in range(8 * (n - 1))]
        extra = segs[0].b.in_widths[mem_total:]
        entry_if = iface_id([8] * mem_total + list(extra), mem_value_prog(n, mem_total))
        vals = mem + [rng.getrandbits(wd) for wd in extra]
        mapping_by_name = None
        cur_if = entry_if
        ids, ok = [], True
        for si, s in enumerate(segs):
            last = si == len(segs) - 1
            if any(o is None for o in s.outs):
                errors.append("first_round=%d: output memory left uninitialised" % k); ok = False; break
            vals = s.b.evaluate(vals, s.outs)
            if not last:
                widths = [8 if d[0] == "mem" else d[2] for d in s.out_desc]
                if mapping_by_name is None:
                    mapping_by_name = {}
                    memvals = {(d[1], d[2]): v for v, d in zip(vals, s.out_desc) if d[0] == "mem"}
                    for (i, j) in [(i, j) for i in range(5) for j in range(n)]:
                        for pos, (v, d) in enumerate(zip(vals, s.out_desc)):
                            if d[0] not in ("phi", "reg") or d[2] != 64:
                                continue
                            if v == shares[i][j]:
                                mapping_by_name[(i, j)] = (d[0], d[1], False); break
                            if v == (~shares[i][j] & M64):
                                mapping_by_name[(i, j)] = (d[0], d[1], True); break
                        if (i, j) not in mapping_by_name:
                            off = 32 * i + 8 * j
                            if all(("state", off + b) in memvals for b in range(8)):
                                mv = sum(memvals[("state", off + b)] << (8 * b) for b in range(8))
                                if mv == shares[i][j]:
                                    mapping_by_name[(i, j)] = ("memgroup", off, False)
                                elif mv == (~shares[i][j] & M64):
                                    mapping_by_name[(i, j)] = ("memgroup", off, True)
                    if len(mapping_by_name) != 5 * n:
                        errors.append("first_round=%d: cannot identify the shares at the loop head (%d of %d found)" % (k, len(mapping_by_name), 5 * n)); ok = False; break
                posmap = {}
                names = {(d[0], d[1]): pos for pos, d in enumerate(s.out_desc)}
                mempos = {(d[1], d[2]): pos for pos, d in enumerate(s.out_desc) if d[0] == "mem"}
                for key, (kind, nm, inv) in mapping_by_name.items():
                    if kind == "memgroup":
                        if not all(("state", nm + b) in mempos for b in range(8)):
                            errors.append("first_round=%d: share bytes at state+%d not symbolic at cut %d" % (k, nm, si)); ok = False; break
                        posmap[key] = ([mempos[("state", nm + b)] for b in range(8)], inv)
                        continue
                    if (kind, nm) not in names:
                        errors.append("first_round=%d: share variable %s missing at cut %d" % (k, nm, si)); ok = False; break
                    posmap[key] = (names[(kind, nm)], inv)
                if not ok:
                    break
                out_if = iface_id(widths, var_value_prog(n, posmap))
                outs = s.outs
                rounds = [k + si - 1] if si >= 1 else []
            else:
                out_if = mem_if
                outs = s.outs[:mem_total]
                rounds = [k + si - 1] if (si >= 1 and k + si - 1 < 12) else []
            text = "{| vs_prog := %s; vs_in := %d; vs_out := %d; vs_rounds := [%s] |}" % (s.b.coq_prog(outs), cur_if, out_if, "; ".join(map(str, rounds)))
            h = hashlib.sha1(text.encode()).hexdigest()[:12]
            if h not in segtab:
                segtab[h] = (len(segtab), text)
            ids.append(segtab[h][0])
            cur_if = out_if
        if ok:
            chains[k] = ids
    return ifaces, segtab, chains, errors, (entry_if if chains else 0), mem_if


def emit(name, ifaces, segtab, chains, out, entry_if=0, exit_if=0):
    L = ["(* GENERATED by tools/kern_masked.py from /repo's current source (%s) *)" % name,
         "From Coq Require Import List NArith.", "From AsconV Require Import Sym.Wexpr Sym.VKernel.", "Import ListNotations.", "Local Open Scope nat_scope.", ""]
    for idx, (widths, vprog) in enumerate(ifaces):
        L.append("Definition %s_if%d : viface := {| vi_w := [%s]; vi_val := %s |}." % (name, idx, "; ".join(map(str, widths)), vprog))
    L.append("Definition %s_ifaces : list viface := [%s]." % (name, "; ".join("%s_if%d" % (name, i) for i in range(len(ifaces)))))
    items = sorted(segtab.values())
    for idx, text in items:
        L.append("Definition %s_seg%d : vseg := %s." % (name, idx, text))
    L.append("Definition %s_segs : list vseg := [%s]." % (name, "; ".join("%s_seg%d" % (name, idx) for idx, _ in items)))
    L.append("Definition %s_entry : nat := %d." % (name, entry_if))
    L.append("Definition %s_exit : nat := %d." % (name, exit_if))
    L.append("Definition %s_chains : list (nat * list nat) := [%s]." % (name, "; ".join("(%d, [%s])" % (k, "; ".join(map(str, chains[k]))) for k in sorted(chains))))
    from symx import write_if_changed
    write_if_changed(out, "\n".join(L) + "\n")


if __name__ == "__main__":
    repo = sys.argv[1] if len(sys.argv) > 1 else "/repo"
    gen = os.path.join(os.path.dirname(os.path.dirname(os.path.abspath(__file__))), "coq", "Gen")
    os.makedirs(gen, exist_ok=True)
    for n in (2, 3, 4):
        for name, prov in (("mx%d_c64" % n, llvm_provider), ("mx%d_x86" % n, x86_provider)):
            try:
                ifaces, segtab, chains, errors, ein, eout = run_kernel(name, n, prov(repo, n))
            except Stuck as ex:
                ifaces, segtab, chains, errors, ein, eout = [], {}, {}, [str(ex)], 0, 0
            emit(name, ifaces, segtab, chains, os.path.join(gen, "Masked_%s.v" % name), ein, eout)
            from symx import write_if_changed
            write_if_changed(os.path.join(gen, "MaskedObl_%s.v" % name),
                "(* GENERATED: the obligation for %s, in its own file so that make checks the kernels in parallel *)\n"
                "From AsconV Require Import Obl.KernMaskedDefs Gen.Masked_%s.\n"
                "Lemma %s_ok : vbackend_ok %s_ifaces %s_entry %s_exit %s_segs %s_chains = true. Proof. vm_compute. reflexivity. Qed.\n"
                % ((name,) * 8) +
                # the entry / exit value programs are the hand-written Obl/MWordSpec.state_val (syntactic check)
                "Lemma %s_std_ok : vstd_ok MWordSpec.B64 %d %d %s_ifaces %s_entry %s_exit = true. Proof. vm_compute. reflexivity. Qed.\n"
                % (name, n, MAXS, name, name, name))
            for e in errors:
                print("MISSING kern_masked %s: %s" % (name, e))
            print("kern_masked %s: %d interfaces, %d segments, %d chains" % (name, len(ifaces), len(segtab), len(chains)))
