#!/usr/bin/env python3
"""Confirm a delivered seeded change: patch applies to /repo's HEAD in a scratch worktree, default build works,
the complete existing test suite passes, the demonstration prints DEMONSTRATED.  Writes <dir>/confirm.json."""
import os, sys, json, subprocess, shutil, tempfile, time


def sh(cmd, cwd=None, timeout=1800):
    p = subprocess.run(cmd, cwd=cwd, stdout=subprocess.PIPE, stderr=subprocess.STDOUT, timeout=timeout)
    return p.returncode, p.stdout.decode("utf-8", "replace")


def main():
    d = os.path.abspath(sys.argv[1])
    wt = tempfile.mkdtemp(prefix="seedcf-", dir="/work")
    os.rmdir(wt)
    res = {"dir": d}
    try:
        rc, out = sh(["git", "-C", "/repo", "worktree", "add", "--detach", wt])
        rc, out = sh(["git", "-C", wt, "apply", os.path.join(d, "patch.diff")])
        res["applies"] = rc == 0
        if rc == 0:
            rc, out = sh(["cmake", "-G", "Ninja", "-S", wt, "-B", wt + "/_b"])
            rc, out = sh(["ninja", "-C", wt + "/_b"])
            res["builds"] = rc == 0
            if rc == 0:
                rc, out = sh(["ctest", "--test-dir", wt + "/_b", "-j16", "--timeout", "900"])
                res["ctest_ok"] = rc == 0 and "100% tests passed" in out
                res["ctest_tail"] = out[-200:]
        # the demonstration as delivered (it manages its own copies / the agent's worktree)
        if os.path.exists(os.path.join(d, "demo.sh")):
            t0 = time.time()
            rc, out = sh(["bash", os.path.join(d, "demo.sh")], cwd=d, timeout=900)
            if not (rc == 0 and "DEMONSTRATED:" in out) and res.get("applies"):
                # some demonstrations expect a worktree that already has the patch: hand them the patched scratch worktree
                subprocess.call(["rm", "-rf", wt + "/_b"])
                env = dict(os.environ, WT=wt, SRC=wt, WORKTREE=wt, TREE=wt)
                p = subprocess.run(["bash", os.path.join(d, "demo.sh"), wt], cwd=d, stdout=subprocess.PIPE, stderr=subprocess.STDOUT, timeout=900, env=env)
                rc, out = p.returncode, p.stdout.decode("utf-8", "replace")
            if not (rc == 0 and "DEMONSTRATED:" in out) and res.get("applies"):
                # demonstrations that hard-code the sub-agent's own worktree: apply the patch there for the run, then restore it
                awt = os.path.join("/work/seed", os.path.basename(d).split("-")[0])
                if os.path.isdir(awt) and subprocess.call(["git", "-C", awt, "apply", os.path.join(d, "patch.diff")]) == 0:
                    try:
                        rc, out = sh(["bash", os.path.join(d, "demo.sh")], cwd=d, timeout=900)
                    finally:
                        subprocess.call(["git", "-C", awt, "checkout", "--", "."])
                        subprocess.call(["git", "-C", awt, "clean", "-fdxq"])
            res["demo_exit"] = rc
            res["demonstrated"] = rc == 0 and any(l.startswith("DEMONSTRATED:") for l in out.split("\n"))
            res["demo_line"] = next((l for l in out.split("\n") if l.startswith("DEMONSTRATED:")), out[-300:])[:400]
            res["demo_s"] = round(time.time() - t0, 1)
    finally:
        subprocess.call(["git", "-C", "/repo", "worktree", "remove", "--force", wt], stdout=subprocess.DEVNULL, stderr=subprocess.DEVNULL)
        shutil.rmtree(wt, ignore_errors=True)
    benign = os.path.basename(d).split("-")[-1].startswith("b")       # behaviour-preserving rewrites (<ID>-b<n>): nothing to demonstrate
    if benign:
        res["benign"] = True
        res["demonstrated"] = None
    res["confirmed"] = bool(res.get("applies") and res.get("builds") and res.get("ctest_ok") and (benign or res.get("demonstrated")))
    json.dump(res, open(os.path.join(d, "confirm.json"), "w"), indent=1)
    print(os.path.basename(d), "CONFIRMED" if res["confirmed"] else "NOT-CONFIRMED", {k: v for k, v in res.items() if k in ("applies", "builds", "ctest_ok", "demonstrated")})


if __name__ == "__main__":
    main()
