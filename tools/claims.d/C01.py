# property id -> claim text; read by tools/mkmanifest.py
CLAIMS["C01"] = {
 "text": "Coq theorems C01_oneshot / C01_incremental / C01_length (Props/Properties_C01.v): the C-shaped model of ascon*_aead_encrypt and of the incremental API equals the byte-level ASCON v1.2 specification for every key, nonce, AD, plaintext and every split into calls, for all three variants (no bound on lengths). Tie to the code: the extracted model is run against the library built from /repo's working tree (one-shot, incremental, masked, C++ entry points; default and C32 builds in quick, all five backends in thorough) and the spec is validated on the repository's KAT files.",
 "note": "Trusted: Coq kernel; Spec/Aead.v as a transcription of ASCON v1.2 (KAT-validated); Model/Aeadm.v faithful to the C only as far as the differential run shows; extraction (ExtrOcamlBasic only); harness and generators. Print Assumptions: closed under the global context.",
 "technique": "machine-checked proof in Coq (model = spec by induction over byte strings) + extracted-model differential correspondence with the built library",
}
