# property id -> claim text; read by tools/mkmanifest.py
CLAIMS["C16"] = {
 "text": "PARTIAL. Proved (Coq, Props/Properties_C16.v, no axioms): the footprint theorem C16_interleave - for any number of threads whose steps "
         "read only W_i u R_i and write only W_i with W_i disjoint from W_j u R_j, EVERY interleaving leaves on each thread's footprint, and shows to "
         "each of its steps, exactly what the thread computes alone (C16_sequential: = the sequential composition; C16_race_free: no reachable "
         "pair of enabled steps of different threads conflicts; C16_frame: shared constant objects are unchanged). Tie of the footprint hypothesis "
         "to the code (T), re-derived from /repo's current tree on every run by tools/globals.py and decided by vm_compute on the regenerated "
         "coq/Gen/Globals.v: no non-const non-thread-local static-storage object in any translation unit (clang AST with the build's flags) and no "
         "writable section in libascon_static.a (readelf) in the five production back ends (C16_no_globals, C16_no_globals_backends); the only "
         "exceptions are accounted for by name (C16_checkar_globals: `acquired` in the CHECK_ACQUIRE_RELEASE diagnostic build, which is therefore "
         "not re-entrant; C16_trngnone_thread_local: thread-local `global_prng` of the unselected TRNG back end; C16_text_statics_accounted: "
         "`due_init_done` of the Arduino Due driver); every parameter through which a shared pre-computed ISAP key, masked key or constant input "
         "is passed is pointer-to-const (C16_shared_keys_const, C16_shared_inputs_const) and no library function converts pointer-to-const to "
         "pointer-to-non-const (C16_no_const_dropping_conversions). NOT proved, only OBSERVED: that the compiled C touches nothing but the objects "
         "it is passed - an actual data race is a runtime event; it is sampled by harness/x_threads.cpp (2..16 threads, own objects of every "
         "stateful type + shared const ISAP keys, masked keys, states and inputs, perturbed schedules) under ThreadSanitizer on builds of the "
         "working tree (x86-64 assembly back end and C back ends), with every thread's results compared to the sequential run.",
 "note": "Trusted: Coq kernel; Model/Conc.v (sequentially consistent interleavings of steps with declared read/write sets) as a model of threads; "
         "tools/globals.py + clang 14 parser + readelf; the C type system for 'const parameters are not written without a const-dropping conversion' "
         "(integer-cast laundering, unions, inline assembly are outside it); gcc's ThreadSanitizer (assembly files are not instrumented) and the "
         "sandbox scheduler for the sampled runs. save_key takes a non-const key by signature, so it is classified as an owner operation, not a shared use. "
         "Print Assumptions: closed under the global context for all 14 theorems.",
 "technique": "machine-checked proof in Coq (footprint/non-interference theorem by induction on the interleaving) + translator tie (static-storage, "
              "section and const-qualification facts regenerated from the source and objects, decided by vm_compute) + ThreadSanitizer differential "
              "observation (threads vs sequential)",
}
