#!/usr/bin/env python3
"""C18 sub-check 1 - generator equality (translation validation).

Copies <repo>/tools to a scratch directory (outside /repo and /verif), builds
the generator programs with the host compiler (plain `make`, as the README
says), runs the `generate` rule of every generator Makefile exactly as
written - the rules redirect into ../../src/core and ../../src/masking, which
in the scratch copy are fresh empty directories - and compares every file
that appeared there byte for byte with the checked-in file of the same name.

Also reports checked-in *-asm-*.S files that no generator rule produces, and
optionally runs genavr's own self test (`genavr --test`: the generated AVR
code is run on the interpreter that ships in tools/genavr against the
generator's C reference).

Prints one JSON object:
  {"ok": bool, "build_ok": bool, "build_log_tail": str,
   "files": [{"file": "src/core/ascon-asm-x86-64.S", "generator": "genx86",
              "command": "bin/ascon_x86_64", "identical": bool, "bytes": n, "sha256": "...",
              "diff": "first lines of the unified diff" }...],
   "ungenerated": [checked-in assembly files without a generator rule],
   "missing_checked_in": [files a rule produces that are not checked in],
   "avr_selftest": {"ran": bool, "ok": bool, "tests": n, "failed": n, "output_tail": str},
   "wall_s": float}
usage: gencmp.py [repo] [--avr-test] [--keep DIR]
"""
import os, sys, re, json, time, shutil, subprocess, tempfile, hashlib, difflib, glob

EXPECTED = [
    "src/core/ascon-asm-armv6.S", "src/core/ascon-asm-armv6m.S", "src/core/ascon-asm-armv7m.S", "src/core/ascon-asm-armv8a-64.S",
    "src/core/ascon-asm-avr5.S", "src/core/ascon-asm-i386.S", "src/core/ascon-asm-m68k.S", "src/core/ascon-asm-riscv32e.S",
    "src/core/ascon-asm-riscv32i.S", "src/core/ascon-asm-riscv64i.S", "src/core/ascon-asm-x86-64.S", "src/core/ascon-asm-xtensa.S",
    "src/masking/ascon-word-asm-x86-64.S", "src/masking/ascon-x2-asm-avr5.S", "src/masking/ascon-x2-asm-x86-64.S",
    "src/masking/ascon-x3-asm-avr5.S", "src/masking/ascon-x3-asm-x86-64.S", "src/masking/ascon-x4-asm-x86-64.S",
]


def sh(cmd, cwd, timeout=900):
    p = subprocess.run(cmd, cwd=cwd, shell=isinstance(cmd, str), stdout=subprocess.PIPE, stderr=subprocess.STDOUT, timeout=timeout)
    return p.returncode, p.stdout.decode("utf-8", "replace")


def generate_rules(tools_dir):
    """-> {relative output path: (generator dir, command text)} read from `make -n generate` of every sub-directory."""
    rules = {}
    for mk in sorted(glob.glob(os.path.join(tools_dir, "*", "Makefile"))):
        d = os.path.dirname(mk)
        rc, out = sh(["make", "-n", "generate"], d)
        for line in out.split("\n"):
            m = re.match(r"^\s*(.*?)\s*>\s*(\.\./\.\./src/\S+)\s*$", line)
            if m:
                rel = os.path.normpath(os.path.join("tools", os.path.basename(d), m.group(2)))
                rules[rel] = (os.path.basename(d), m.group(1).strip())
    return rules


def run(repo, avr_test=False, keep=None):
    t0 = time.time()
    res = {"ok": False, "build_ok": False, "build_log_tail": "", "files": [], "ungenerated": [], "missing_checked_in": [],
           "avr_selftest": {"ran": False}, "repo": repo}
    scratch = keep or tempfile.mkdtemp(prefix="verif-gencmp-")
    try:
        tools = os.path.join(scratch, "tools")
        shutil.copytree(os.path.join(repo, "tools"), tools, symlinks=True)
        # stale host binaries / objects in the copied tree must not be used
        sh(["make", "clean"], tools)
        for sub in ("src/core", "src/masking"):
            os.makedirs(os.path.join(scratch, sub))
        rc, log = sh(["make", "-j16", "all"], tools)
        if rc != 0:
            # the top-level Makefile loops over the sub-directories in one shell line: -j only helps inside; retry serially for a clean log
            rc, log = sh(["make", "all"], tools)
        res["build_ok"] = rc == 0
        res["build_log_tail"] = log[-3000:]
        rules = generate_rules(tools)
        rc2, glog = sh(["make", "generate"], tools)
        res["generate_ok"] = rc2 == 0
        if rc2 != 0:
            res["build_log_tail"] += "\n--- make generate ---\n" + glog[-3000:]
        produced = sorted(os.path.relpath(p, scratch) for p in glob.glob(os.path.join(scratch, "src", "*", "*")))
        for rel in produced:
            new = open(os.path.join(scratch, rel), "rb").read()
            gen, cmd = rules.get(rel, ("?", "?"))
            ent = {"file": rel, "generator": "tools/" + gen, "command": "cd tools/%s && %s > ../../%s" % (gen, cmd, rel), "bytes": len(new)}
            old_p = os.path.join(repo, rel)
            if not os.path.exists(old_p):
                res["missing_checked_in"].append(rel)
                continue
            old = open(old_p, "rb").read()
            ent["sha256"] = hashlib.sha256(old).hexdigest()
            ent["identical"] = old == new
            if old != new:
                a = old.decode("utf-8", "replace").split("\n")
                b = new.decode("utf-8", "replace").split("\n")
                d = list(difflib.unified_diff(a, b, "checked-in/" + rel, "generated/" + rel, lineterm="", n=2))
                ent["diff"] = "\n".join(d[:60])
                ent["diff_lines"] = sum(1 for l in d if l[:1] in "+-" and l[:3] not in ("+++", "---"))
                ent["generated_empty"] = len(new) == 0
            res["files"].append(ent)
        checked_in = sorted(os.path.relpath(p, repo) for p in glob.glob(os.path.join(repo, "src", "*", "*.S")))
        res["checked_in_asm"] = checked_in
        res["ungenerated"] = [f for f in sorted(set(checked_in) | set(EXPECTED)) if f not in produced]
        if avr_test:
            d = os.path.join(tools, "genavr")
            if os.path.exists(os.path.join(d, "genavr")):
                rc3, out = sh(["./genavr", "--test"], d, timeout=600)
                lines = [l for l in out.split("\n") if l.strip()]
                nok = sum(1 for l in lines if l.endswith("tests succeeded"))
                nfail = sum(1 for l in lines if re.search(r"fail", l, re.I))
                res["avr_selftest"] = {"ran": True, "ok": rc3 == 0 and nfail == 0, "exit": rc3, "tests": nok + nfail, "passed": nok, "failed": nfail,
                                       "command": "cd tools/genavr && ./genavr --test", "output": lines[:40],
                                       "what": "the generator's in-memory AVR instruction lists (ASCON, x2 with 2 and 3 shares, x3) executed by the generator's own "
                                               "interpreter (tools/genavr/interpret.cpp) on its fixed vectors (first_round 0 and 4)"}
            else:
                res["avr_selftest"] = {"ran": False, "reason": "tools/genavr/genavr was not built"}
        res["ok"] = (res["build_ok"] and res["generate_ok"] and not res["ungenerated"] and not res["missing_checked_in"]
                     and all(f.get("identical") for f in res["files"]) and len(res["files"]) > 0)
    finally:
        if not keep:
            shutil.rmtree(scratch, ignore_errors=True)
    res["wall_s"] = round(time.time() - t0, 2)
    return res


if __name__ == "__main__":
    args = [a for a in sys.argv[1:] if not a.startswith("--")]
    repo = args[0] if args else os.environ.get("VERIF_REPO", "/repo")
    keep = None
    if "--keep" in sys.argv:
        keep = sys.argv[sys.argv.index("--keep") + 1]
        args = [a for a in args if a != keep]
        repo = args[0] if args else os.environ.get("VERIF_REPO", "/repo")
    r = run(repo, avr_test="--avr-test" in sys.argv, keep=keep)
    json.dump(r, sys.stdout, indent=1)
    print()
    sys.exit(0 if r["ok"] else 1)
