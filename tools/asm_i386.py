"""i386 (AT&T syntax, cdecl) front end of the symbolic executor (C18) for
ascon-asm-i386.S: 32-bit registers, arguments on the stack above the return
address.  The lowering table models the mnemonics that occur in the file (and
a few close relatives) with their architectural semantics (Intel SDM vol. 2);
flags produced from symbolic data are 'unknown' and a conditional jump on
them is Stuck.  The host can execute x86-64 only and no 32-bit runtime is
installed, so this table is NOT validated by execution; it shares its shape
with asm_x86.py, which is cross-checked natively."""
import re, os
from symx import V, Stuck, mask
from llvmx import Ptr
from asm_base import Machine, LabelAddr, LabelDiff, RetAddr, preprocess, parse, signed, kern_runs

REGS32 = ["eax", "ebx", "ecx", "edx", "esi", "edi", "ebp", "esp"]
JCC = {"je": "eq", "jz": "eq", "jne": "ne", "jnz": "ne", "ja": "hi", "jnbe": "hi", "jbe": "ls", "jna": "ls", "jae": "hs", "jnb": "hs", "jb": "lo", "jnae": "lo",
       "jge": "ge", "jnl": "ge", "jl": "lt", "jnge": "lt", "jg": "gt", "jnle": "gt", "jle": "le", "jng": "le"}


class I386(Machine):
    W = 32
    REGS = REGS32
    SP = "esp"
    CALLEE_SAVED = ["ebx", "esi", "edi", "ebp"]
    RET_ON_STACK = True

    def addr(self, op):
        """disp(base,index,scale) -> abstract address"""
        m = re.match(r"^(-?[.\w$]*)\((%\w+)?(?:,(%\w+)(?:,(\d+))?)?\)$", op)
        if not m:
            raise Stuck("bad memory operand " + op)
        d = m.group(1)
        if d and not re.match(r"^-?(0x[0-9a-fA-F]+|\d+)$", d):
            raise Stuck("symbolic displacement " + op)
        disp = int(d, 0) if d else 0
        if not m.group(2):
            raise Stuck("absolute address " + op)
        base = self.regs.get(m.group(2)[1:])
        if base is None:
            raise Stuck("bad base register " + m.group(2))
        idx = 0
        if m.group(3):
            iv = self.regs.get(m.group(3)[1:])
            idx = signed(self.conc(iv, "address (index register %s)" % m.group(3)), 32) * int(m.group(4) or 1)
        if isinstance(base, LabelAddr):
            return LabelAddr(base.name, base.delta + disp + idx)
        if not isinstance(base, Ptr):
            raise Stuck("data-dependent address (base register %s is not a pointer)" % m.group(2))
        return Ptr(base.region, base.off + disp + idx)

    def src(self, op):
        if op.startswith("$"):
            return self.b.const(32, int(op[1:], 0))
        if op.startswith("%"):
            if op[1:] not in self.regs:
                raise Stuck("unsupported register " + op)
            return self.regs[op[1:]]
        return self.mem_load(self.addr(op), 4)

    def dst_set(self, op, v):
        if op.startswith("%"):
            if op[1:] not in self.regs:
                raise Stuck("unsupported register " + op)
            self.setreg(op[1:], v)
        elif op.startswith("$"):
            raise Stuck("immediate as destination")
        else:
            self.mem_store(self.addr(op), v)

    def step(self, op, ops):
        b = self.b
        if len(ops) == 2 and not ops[0].startswith(("%", "$")) and not ops[1].startswith(("%", "$")):
            raise Stuck("two memory operands")
        if op in ("movl", "mov"):
            self.dst_set(ops[1], self.src(ops[0]))              # mov does not change the flags
        elif op == "leal":
            self.dst_set(ops[1], self.addr(ops[0]))
        elif op in ("xorl", "andl", "orl"):
            s, d = self.src(ops[0]), self.src(ops[1])
            if not isinstance(s, V) or not isinstance(d, V):
                raise Stuck("logical operation on a pointer")
            r = {"x": b.xor, "a": b.and_, "o": b.or_}[op[0]](d, s)
            self.dst_set(ops[1], r)
            self.flags = ("cmp", r.conc, 0, 32) if r.is_conc() else None
        elif op == "notl":
            v = self.src(ops[0])
            if not isinstance(v, V):
                raise Stuck("logical operation on a pointer")
            self.dst_set(ops[0], b.not_(v))                       # not does not change the flags
        elif op in ("rorl", "roll", "shll", "shrl"):
            if len(ops) == 2:
                if not ops[0].startswith("$"):
                    if ops[0] != "%cl":
                        raise Stuck("bad shift count operand")
                    k = self.conc(self.regs["ecx"], "shift/rotate count") & 31
                else:
                    k = int(ops[0][1:], 0) & 31                   # the count is masked to 5 bits
            else:
                k = 1
            v = self.src(ops[-1])
            if not isinstance(v, V):
                raise Stuck("shift of a pointer")
            r = {"ror": b.rotr, "rol": b.rotl, "shl": b.shl, "shr": b.lshr}[op[:3]](v, k)
            self.dst_set(ops[-1], r)
            self.flags = None
        elif op in ("addl", "subl"):
            s, d = self.src(ops[0]), self.src(ops[1])
            r = self.add_values(d, s, sub=(op == "subl"))
            self.dst_set(ops[1], r)
            self.flags = ("cmp", r.conc, 0, 32) if isinstance(r, V) and r.is_conc() else None
        elif op == "cmpl":
            s, d = self.src(ops[0]), self.src(ops[1])          # AT&T: cmpl s, d computes d - s
            self.flags = ("cmp", self.conc(d, "comparison"), self.conc(s, "comparison"), 32)
        elif op == "testl":
            s, d = self.src(ops[0]), self.src(ops[1])
            self.flags = ("cmp", self.conc(b.and_(d, s), "test"), 0, 32)
        elif op in JCC:
            if self.cond(JCC[op]):
                self.jump(ops[0])
        elif op == "jmp":
            if ops[0].startswith("*"):
                self.jump_value(self.src(ops[0][1:]))
            else:
                self.jump(ops[0])
        elif op == "pushl":
            self.push(self.src(ops[0]))
        elif op == "popl":
            self.dst_set(ops[0], self.pop())
        elif op == "call":
            tgt = ops[0].split("@")[0]
            if tgt not in self.labels:
                raise Stuck("call to unknown function " + tgt)
            self.push(RetAddr(self.pc))
            self.jump(tgt)
        elif op in ("ret", "retl"):
            if ops:
                raise Stuck("ret with a pop count is not cdecl")
            ra = self.pop()
            if not isinstance(ra, RetAddr):
                raise Stuck("return address was overwritten or the stack is unbalanced")
            self.jump_value(ra)
        elif op == "nop":
            pass
        else:
            raise Stuck("unsupported i386 instruction")


PROFILES = {
    "i386": ("ascon-asm-i386.S", ["__i386__", "__i386", "i386", "__linux__", "__ELF__"], "KL32"),
}


def runs(repo, name):
    fn, defs, layout = PROFILES[name]
    path = os.path.join(repo, "src", "core", fn)
    text = preprocess(path, incs=[os.path.join(repo, "src"), os.path.join(repo, "src", "core")], defs=defs)
    items, tables, directives = parse(text, path)

    def make(k, cut):
        # cdecl: ascon_permute(state, first_round) - both arguments on the stack, first argument at 4(%esp)
        return I386(items, tables, "ascon_permute", {}, {"state": {"size": 40, "symbolic": True}}, cut=cut,
                    stack_args=[("ptr", "state", 0), ("int", k)])
    verif = os.path.dirname(os.path.dirname(os.path.abspath(__file__)))
    return kern_runs(name, layout, make, lambda lab: lab.startswith(".L"), items, "ascon_permute",
                     os.path.join(verif, "build", "kern"), {"file": "src/core/" + fn, "macros": defs, "isa": "i386 (AT&T, cdecl)"})


PROVIDERS = {n: runs for n in PROFILES}
