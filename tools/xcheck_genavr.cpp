// Driver for tools/xcheck_avr.py (C18): runs one of the AVR ASCON permutations in the GENERATOR's own interpreter
// (/repo/tools/genavr/interpret.cpp, written by the library's author independently of tools/asm_avr.py) on a
// given state / first_round / register file and prints the machine state after EVERY executed instruction, so
// that the front end's concrete execution of the checked-in .S text can be compared with it instruction by
// instruction.  Built in a scratch copy of /repo/tools/genavr:
//     g++ -I. -I../common -o xg xcheck_genavr.cpp algorithm_ascon*.cpp code.cpp code_out.cpp
// (interpret.cpp is #included because exec_insn and AVRState are local to that file).
//
// usage: xg <plain|x2_2|x2_3|x3> <first_round> <state hex> <preserve hex or -> <32 register bytes hex>
// output: one line per executed instruction   I <type> <reg1> <reg2> <r0..r31 hex> <c> <t>
//         then                                 S <state hex>   and   P <preserve hex>
#define private public
#define protected public
#include "interpret.cpp"
#undef private
#undef protected
#include "gen.h"
#include <cstdio>
#include <cstdlib>
#include <string>
#include <vector>

static std::vector<unsigned char> unhex(const char *s)
{
    std::vector<unsigned char> out;
    if (s[0] == '-')
        return out;
    for (size_t i = 0; s[i] && s[i + 1]; i += 2) {
        char b[3] = {s[i], s[i + 1], 0};
        out.push_back((unsigned char)strtoul(b, 0, 16));
    }
    return out;
}

static void puthex(const unsigned char *p, size_t n)
{
    for (size_t i = 0; i < n; ++i)
        printf("%02x", p[i]);
}

int main(int argc, char *argv[])
{
    if (argc < 6) {
        fprintf(stderr, "usage: %s variant first_round state preserve regs\n", argv[0]);
        return 2;
    }
    std::string variant = argv[1];
    unsigned first_round = (unsigned)atoi(argv[2]);
    std::vector<unsigned char> state = unhex(argv[3]), preserve = unhex(argv[4]), regs = unhex(argv[5]);
    Code code;
    bool masked = true;
    if (variant == "plain") {
        gen_ascon_permutation(code);
        masked = false;
    } else if (variant == "x2_2") {
        gen_ascon_x2_permutation(code, 2);
    } else if (variant == "x2_3") {
        gen_ascon_x2_permutation(code, 3);
    } else if (variant == "x3") {
        gen_ascon_x3_permutation(code);
    } else {
        return 2;
    }
    try {
        AVRState s;
        for (int i = 0; i < 32 && i < (int)regs.size(); ++i)
            s.r[i] = regs[i];
        s.r[1] = 0;
        unsigned state_address = s.alloc_buffer(&state[0], state.size());
        unsigned preserve_address = 0;
        if (masked)
            preserve_address = s.alloc_buffer(&preserve[0], preserve.size());
        s.setPair(30, state_address);
        if (masked)
            s.setPair(26, preserve_address);
        s.push16(0xFFFF);
        if (masked)
            s.push16(preserve_address);
        unsigned fp = s.pair(32) - code.m_localsSize - 1;
        s.setPair(28, fp);
        s.setPair(32, fp);
        s.r[22] = (unsigned char)first_round;
        printf("L %u %d\n", code.m_localsSize, code.size());
        long steps = 0;
        while (s.pc != code.size()) {
            if (s.pc < 0 || s.pc > code.size())
                throw std::invalid_argument("program counter out of range");
            Insn insn = code[(s.pc)++];
            exec_insn(s, code, insn);
            if (insn.type() == Insn::LABEL)
                continue;
            if (++steps > 2000000)
                throw std::invalid_argument("step limit");
            printf("I %d %d %d ", (int)insn.type(), (int)insn.reg1(), (int)insn.reg2());
            puthex(s.r, 32);
            printf(" %d %d\n", (int)s.c, (int)s.t);
        }
        printf("S ");
        puthex(&s.memory[state_address], state.size());
        printf("\n");
        if (masked) {
            printf("P ");
            puthex(&s.memory[preserve_address], preserve.size());
            printf("\n");
        }
        printf("E r1=%d sp_ok=%d\n", (int)s.r[1], (int)(s.pair(32) == fp));
    } catch (std::exception &e) {
        printf("X %s\n", e.what());
        return 1;
    }
    return 0;
}
