#!/bin/bash
# tools/runquick.sh [ids...]: the quick tier of every check, one after the other (what `vp check` does), one summary line each
cd /verif
ids="$@"; [ -z "$ids" ] && ids="C01 C02 C03 C04 C05 C06 C07 C08 C09 C10 C11 C12 C13 C14 C15 C16 C17 C18 C19 C20"
for id in $ids; do
  t0=$(date +%s); ./check $id > build/quick-$id.log 2>&1; rc=$?
  echo "$id exit=$rc $(( $(date +%s) - t0 ))s $(grep -c '^VIOLATION' build/quick-$id.log) violation line(s) $(grep -c '^KNOWN-FINDING' build/quick-$id.log) known $(tail -1 build/quick-$id.log | cut -c1-120)"
done
