#!/usr/bin/env python3
"""Run checks against a seeded change (seeded/<name>/patch.diff or any dir with patch.diff).

  tools/seedtest.py <dir> [--ids C01,C09] [--tier quick|thorough] [--in-place]

Default: a scratch git worktree of /repo's HEAD outside /repo and /verif gets the patch and the checks run
against it through VERIF_REPO (evidence then goes to build/evidence-scratch, /repo is never touched).
--in-place: `git -C /repo apply`, run, `git -C /repo checkout -- .` (as the brief describes).
Prints one line per check: CAUGHT / MISSED, and writes <dir>/result.json."""
import os, sys, json, subprocess, shutil, tempfile, time

VERIF = os.path.dirname(os.path.dirname(os.path.abspath(__file__)))


def main():
    d = os.path.abspath(sys.argv[1])
    args = sys.argv[2:]
    tier = args[args.index("--tier") + 1] if "--tier" in args else "quick"
    meta = json.load(open(os.path.join(d, "meta.json"))) if os.path.exists(os.path.join(d, "meta.json")) else {}
    ids = args[args.index("--ids") + 1].split(",") if "--ids" in args else [meta.get("property") or os.path.basename(d).split("-")[0]]
    inplace = "--in-place" in args
    patch = os.path.join(d, "patch.diff")
    env = dict(os.environ)
    wt = None
    if inplace:
        subprocess.check_call(["git", "-C", "/repo", "apply", patch])
    else:
        wt = tempfile.mkdtemp(prefix="seedwt-", dir="/work" if os.path.isdir("/work") else None)
        os.rmdir(wt)
        subprocess.check_call(["git", "-C", "/repo", "worktree", "add", "--detach", wt], stdout=subprocess.DEVNULL, stderr=subprocess.DEVNULL)
        subprocess.check_call(["git", "-C", wt, "apply", patch])
        env["VERIF_REPO"] = wt
    # translators whose output the property's theorem files depend on (everything else is skipped for this run: shorter critical
    # section when several seeded changes are tested at once; lib/stdflow.py refuses the run if this table is too small)
    HOOKS = {"C03": "10", "C08": "20,27-kern-byteops", "C09": "10,20,40-skeleton", "C10": "25,26,27-kern-masked-c32,28,29", "C11": "20,40-kern-ct,41",
             "C12": "30", "C14": "28-kern-mword2,29", "C16": "60", "C18": "20,21,22,23,24,25,50", "C20": "70"}
    results = {}
    try:
        for pid in ids:
            if "--all-hooks" not in args:
                env["VERIF_GEN_HOOKS"] = HOOKS.get(pid, "")
            t0 = time.time()
            p = subprocess.run([os.path.join(VERIF, "check"), pid, "--tier", tier], env=env, stdout=subprocess.PIPE, stderr=subprocess.STDOUT)
            out = p.stdout.decode("utf-8", "replace")
            vio = [l for l in out.split("\n") if l.startswith("VIOLATION")]
            caught = p.returncode == 1 and bool(vio)
            first = ""
            lines = out.split("\n")
            for i, l in enumerate(lines):
                if l.startswith("VIOLATION"):
                    first = "\n".join(lines[i:i + 4])[:700]
                    break
            results[pid] = {"tier": tier, "exit": p.returncode, "caught": caught, "violations": len(vio),
                            "no_failing_input": all(l.rstrip().endswith("no-failing-input-found") for l in vio) if vio else None,
                            "first": first, "wall_s": round(time.time() - t0, 1)}
            print("%s %s by check %s (%s tier, exit %d, %d violation line(s), %.0fs)" %
                  (os.path.basename(d), "CAUGHT" if caught else "MISSED", pid, tier, p.returncode, len(vio), time.time() - t0))
            if not caught and p.returncode not in (0, 1):
                print(out[-1500:])
    finally:
        if inplace:
            subprocess.call(["git", "-C", "/repo", "checkout", "--", "."])
        else:
            subprocess.call(["git", "-C", "/repo", "worktree", "remove", "--force", wt], stdout=subprocess.DEVNULL, stderr=subprocess.DEVNULL)
            shutil.rmtree(wt, ignore_errors=True)
    rp = os.path.join(d, "result.json")
    old = json.load(open(rp)) if os.path.exists(rp) else {}
    old.update(results)
    json.dump(old, open(rp, "w"), indent=1)


if __name__ == "__main__":
    main()
