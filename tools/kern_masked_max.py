#!/usr/bin/env python3
"""(T) translator for the masked permutation kernels under the NON-DEFAULT container sizes (C10 / C18).

ASCON_MASKED_MAX_SHARES = k changes sizeof(ascon_masked_word_t) to 8*k bytes, i.e. the stride between the five
words of an ascon_masked_state_t, selects other #if bodies in src/masking/ascon-x{2,3}-asm-x86-64.S and other
strides in the C kernels.  tools/kern_masked.py / kern_masked_c32.py translate the MAX_SHARES = 4 layout only.
This tool translates ascon_x{n}_permute for every other valid (n shares, MAX_SHARES = k) pair

        x2: k = 2, 3        x3: k = 3                    (x2/x3/x4 with k = 4: kern_masked*.py)

for the x86-64 assembly (gcc -E -DASCON_MASKED_MAX_SHARES=k, tools/asm_x86.py), the 64-bit C kernels
(clang -O1 LLVM IR, -DASCON_FORCE_C64 -DASCON_MASKED_MAX_SHARES=k) and the 32-bit C kernels (-DASCON_FORCE_C32 ...),
for every first_round 0..12 with ALL shares and ALL preserved random words symbolic, cut at the loop head.  The
state region has exactly 5*8*k bytes: an access with the stride of another layout leaves the region and is Stuck.

Emits coq/Gen/Masked_mx{n}_{c64,x86,c32}_max{k}.v (+ _if/_p<i> for c32) and the obligation files
Gen/MaskedObl_mx{n}_{...}_max{k}.v (`vbackend_ok ... = true` by vm_compute; one file per kernel so that make checks
them in parallel).  The entry/exit interfaces are the memory image; their value programs are ALSO written by hand
in Coq (Obl/MWordSpec.state_val B64|B32 n k) and every obligation file carries `<name>_std_ok : vstd_ok be n k ... = true`
(Obl/KernMaskedDefs.v: the generated value programs are syntactically those, the interfaces are 40*k + 8*(n-1) bytes), so
the stride 8*k is part of the theorem statements of Props/Properties_C10_maxshares*.v and not only of this file.

build/kern/masked_max.json: per kernel the counts and, when a chain does not hold concretely, a counter-example
(first_round, input bytes, value got / wanted) found by evaluating the translated chain on random shares."""
import os, sys, random, hashlib, json, time
sys.path.insert(0, os.path.dirname(os.path.abspath(__file__)))
import llvmx
from symx import Stuck, write_if_changed
import kern_masked_c32 as k32
from kern_perm import ascon_round

M64 = (1 << 64) - 1
PAIRS = [(2, 2), (2, 3), (3, 3)]           # (shares, MAX_SHARES) below the default container size


def rotl(x, k):
    k %= 64
    return ((x << k) | (x >> (64 - k))) & M64 if k else x


def mem_value_prog(n, maxs):
    """value program over the memory interface: five masked words of 8*maxs bytes, n little-endian shares each,
    share j stored rotated right by 11*j (same text as Obl/MWordSpec.state_val B64 n maxs evaluates to)"""
    outs = []
    for i in range(5):
        terms = []
        for j in range(n):
            base = 8 * maxs * i + 8 * j
            e = "(WIn %d)" % base
            for b in range(1, 8):
                e = "(WConcat (WIn %d) %s)" % (base + b, e)
            if j:
                e = "(WRotr %d %s)" % (64 - 11 * j, e)
            terms.append(e)
        v = terms[0]
        for t in terms[1:]:
            v = "(WXor %s %s)" % (v, t)
        outs.append(v)
    return "{| p_body := []; p_outs := [%s] |}" % "; ".join(outs)


def var_value_prog(n, mapping):
    outs = []
    for i in range(5):
        terms = []
        for j in range(n):
            pos, inv = mapping[(i, j)]
            if isinstance(pos, list):
                e = "(WIn %d)" % pos[0]
                for p in pos[1:]:
                    e = "(WConcat (WIn %d) %s)" % (p, e)
            else:
                e = "(WIn %d)" % pos
            if inv:
                e = "(WNot %s)" % e
            if j:
                e = "(WRotr %d %s)" % (64 - 11 * j, e)
            terms.append(e)
        v = terms[0]
        for t in terms[1:]:
            v = "(WXor %s %s)" % (v, t)
        outs.append(v)
    return "{| p_body := []; p_outs := [%s] |}" % "; ".join(outs)


def incs_of(repo):
    return [os.path.join(repo, "src"), os.path.join(repo, "src", "ascon"), os.path.join(repo, "src", "masking"), os.path.join(repo, "src", "core")]


def c64_provider(repo, n, maxs):
    src = os.path.join(repo, "src", "masking", "ascon-x%d-c64.c" % n)
    txt = llvmx.compile_ll(src, defs=["ASCON_FORCE_C64", "ASCON_MASKED_MAX_SHARES=%d" % maxs], incs=incs_of(repo))
    mod = llvmx.Module(txt)
    fname = "@ascon_x%d_permute" % n
    if fname not in mod.funcs:
        raise Stuck("%s is not defined when compiling %s with -DASCON_FORCE_C64 -DASCON_MASKED_MAX_SHARES=%d" % (fname, src, maxs))

    def one(k):
        e = llvmx.Exec(mod, fname, [("ptr", "state", 0), ("int", k), ("ptr", "preserve", 0)],
                       {"state": {"size": 5 * 8 * maxs, "symbolic": True}, "preserve": {"size": 8 * (n - 1), "symbolic": True}},
                       cut=True, cut_exits=False)
        return e.run()
    return one


def x86_provider(repo, n, maxs):
    import asm_x86
    path = os.path.join(repo, "src", "masking", "ascon-x%d-asm-x86-64.S" % n)
    text = asm_x86.preprocess(path, incs=incs_of(repo), defs=["ASCON_MASKED_MAX_SHARES=%d" % maxs])
    items, tables, directives = asm_x86.parse(text)
    fn = "ascon_x%d_permute" % n
    if not any(it[0] == "label" and it[1] == fn for it in items):
        raise Stuck("label %s not found in %s preprocessed with -DASCON_MASKED_MAX_SHARES=%d" % (fn, path, maxs))

    def one(k):
        m = asm_x86.X86(items, tables, fn,
                        {"rdi": ("ptr", "state", 0), "rsi": ("int", k), "rdx": ("ptr", "preserve", 0)},
                        {"state": {"size": 5 * 8 * maxs, "symbolic": True}, "preserve": {"size": 8 * (n - 1), "symbolic": True}},
                        cut=lambda lab: lab == ".L0")
        return m.run()
    return one


def spec_rounds(words, k):
    x = list(words)
    for r in range(k, 12):
        x = ascon_round(x, r)
    return x


def run_kernel(name, n, maxs, one):
    """kern_masked.run_kernel with the word stride 8*maxs instead of 32; additionally evaluates every chain on the
    random shares used to find the loop-head variables and compares the unmasked value with the reference rounds"""
    rng = random.Random(7)
    wb = 8 * maxs
    ifaces, iface_ids, segtab, chains, errors, cex = [], {}, {}, {}, [], None

    def iface_id(widths, vprog):
        key = (tuple(widths), vprog)
        if key not in iface_ids:
            iface_ids[key] = len(ifaces)
            ifaces.append(key)
        return iface_ids[key]

    mem_total = 5 * wb + 8 * (n - 1)
    mem_if = iface_id([8] * mem_total, mem_value_prog(n, maxs))
    entry_if = 0
    for k in range(13):
        try:
            segs = one(k)
        except Stuck as ex:
            errors.append("first_round=%d: %s" % (k, ex)); continue
        shares = [[rng.getrandbits(64) for _ in range(maxs)] for _ in range(5)]
        mem = []
        for i in range(5):
            for j in range(maxs):
                mem += [(shares[i][j] >> (8 * b)) & 255 for b in range(8)]
        mem += [rng.getrandbits(8) for _ in range(8 * (n - 1))]
        extra = segs[0].b.in_widths[mem_total:]
        entry_if = iface_id([8] * mem_total + list(extra), mem_value_prog(n, maxs))
        vals = mem + [rng.getrandbits(wd) for wd in extra]
        vals0 = list(vals)
        mapping_by_name = None
        cur_if = entry_if
        ids, ok = [], True
        for si, s in enumerate(segs):
            last = si == len(segs) - 1
            if any(o is None for o in s.outs):
                errors.append("first_round=%d: output memory left uninitialised" % k); ok = False; break
            vals = s.b.evaluate(vals, s.outs)
            if not last:
                widths = [8 if d[0] == "mem" else d[2] for d in s.out_desc]
                if mapping_by_name is None:
                    mapping_by_name = {}
                    memvals = {(d[1], d[2]): v for v, d in zip(vals, s.out_desc) if d[0] == "mem"}
                    for (i, j) in [(i, j) for i in range(5) for j in range(n)]:
                        for pos, (v, d) in enumerate(zip(vals, s.out_desc)):
                            if d[0] not in ("phi", "reg") or d[2] != 64:
                                continue
                            if v == shares[i][j]:
                                mapping_by_name[(i, j)] = (d[0], d[1], False); break
                            if v == (~shares[i][j] & M64):
                                mapping_by_name[(i, j)] = (d[0], d[1], True); break
                        if (i, j) not in mapping_by_name:
                            off = wb * i + 8 * j
                            if all(("state", off + b) in memvals for b in range(8)):
                                mv = sum(memvals[("state", off + b)] << (8 * b) for b in range(8))
                                if mv == shares[i][j]:
                                    mapping_by_name[(i, j)] = ("memgroup", off, False)
                                elif mv == (~shares[i][j] & M64):
                                    mapping_by_name[(i, j)] = ("memgroup", off, True)
                    if len(mapping_by_name) != 5 * n:
                        errors.append("first_round=%d: cannot identify the shares at the loop head (%d of %d found)" % (k, len(mapping_by_name), 5 * n)); ok = False; break
                posmap = {}
                names = {(d[0], d[1]): pos for pos, d in enumerate(s.out_desc)}
                mempos = {(d[1], d[2]): pos for pos, d in enumerate(s.out_desc) if d[0] == "mem"}
                for key, (kind, nm, inv) in mapping_by_name.items():
                    if kind == "memgroup":
                        if not all(("state", nm + b) in mempos for b in range(8)):
                            errors.append("first_round=%d: share bytes at state+%d not symbolic at cut %d" % (k, nm, si)); ok = False; break
                        posmap[key] = ([mempos[("state", nm + b)] for b in range(8)], inv)
                        continue
                    if (kind, nm) not in names:
                        errors.append("first_round=%d: share variable %s missing at cut %d" % (k, nm, si)); ok = False; break
                    posmap[key] = (names[(kind, nm)], inv)
                if not ok:
                    break
                out_if = iface_id(widths, var_value_prog(n, posmap))
                outs = s.outs
                rounds = [k + si - 1] if si >= 1 else []
            else:
                out_if = mem_if
                outs = s.outs[:mem_total]
                rounds = [k + si - 1] if (si >= 1 and k + si - 1 < 12) else []
            text = "{| vs_prog := %s; vs_in := %d; vs_out := %d; vs_rounds := [%s] |}" % (s.b.coq_prog(outs), cur_if, out_if, "; ".join(map(str, rounds)))
            h = hashlib.sha1(text.encode()).hexdigest()[:12]
            if h not in segtab:
                segtab[h] = (len(segtab), text)
            ids.append(segtab[h][0])
            cur_if = out_if
        if ok:
            chains[k] = ids
            # concrete replay of the chain: unmasked value after = rounds k..11 of the unmasked value before
            def val(bs):
                out = []
                for i in range(5):
                    x = 0
                    for j in range(n):
                        x ^= rotl(sum(bs[wb * i + 8 * j + b] << (8 * b) for b in range(8)), 11 * j)
                    out.append(x)
                return out
            got, want = val(vals[:5 * wb]), spec_rounds(val(vals0[:5 * wb]), k)
            if got != want and cex is None:
                cex = {"first_round": k, "state_and_preserve_bytes": "".join("%02x" % b for b in vals0[:mem_total]),
                       "value_got": ["%016x" % x for x in got], "value_want": ["%016x" % x for x in want]}
    return ifaces, segtab, chains, errors, (entry_if if chains else 0), mem_if, cex


def emit64(name, what, n, maxs, ifaces, segtab, chains, gen, entry_if, exit_if):
    L = ["(* GENERATED by tools/kern_masked_max.py from /repo's current source (%s) *)" % what,
         "From Coq Require Import List NArith.", "From AsconV Require Import Sym.Wexpr Sym.VKernel.", "Import ListNotations.", "Local Open Scope nat_scope.", ""]
    for idx, (widths, vprog) in enumerate(ifaces):
        L.append("Definition %s_if%d : viface := {| vi_w := [%s]; vi_val := %s |}." % (name, idx, "; ".join(map(str, widths)), vprog))
    L.append("Definition %s_ifaces : list viface := [%s]." % (name, "; ".join("%s_if%d" % (name, i) for i in range(len(ifaces)))))
    items = sorted(segtab.values())
    for idx, text in items:
        L.append("Definition %s_seg%d : vseg := %s." % (name, idx, text))
    L.append("Definition %s_segs : list vseg := [%s]." % (name, "; ".join("%s_seg%d" % (name, idx) for idx, _ in items)))
    L.append("Definition %s_entry : nat := %d." % (name, entry_if))
    L.append("Definition %s_exit : nat := %d." % (name, exit_if))
    L.append("Definition %s_chains : list (nat * list nat) := [%s]." % (name, "; ".join("(%d, [%s])" % (k, "; ".join(map(str, chains[k]))) for k in sorted(chains))))
    write_if_changed(os.path.join(gen, "Masked_%s.v" % name), "\n".join(L) + "\n")
    write_if_changed(os.path.join(gen, "MaskedObl_%s.v" % name),
        "(* GENERATED by tools/kern_masked_max.py: the obligation for %s, in its own file so that make checks the kernels in parallel *)\n"
        "From AsconV Require Import Obl.KernMaskedDefs Gen.Masked_%s.\n"
        "Lemma %s_ok : vbackend_ok %s_ifaces %s_entry %s_exit %s_segs %s_chains = true. Proof. vm_compute. reflexivity. Qed.\n"
        % ((name,) * 8) +
        # the entry / exit value programs are the hand-written Obl/MWordSpec.state_val B64 n maxs (syntactic check), the interfaces
        # are 40*maxs + 8*(n-1) bytes (+ registers on entry)
        "Lemma %s_std_ok : vstd_ok MWordSpec.B64 %d %d %s_ifaces %s_entry %s_exit = true. Proof. vm_compute. reflexivity. Qed.\n"
        % (name, n, maxs, name, name, name))


C32_PARTS = {(2, 2): 1, (2, 3): 1, (3, 3): 2}


def main(repo, gen):
    report = {}
    for (n, maxs) in PAIRS:
        for be, prov, src in (("c64", c64_provider, "ascon-x%d-c64.c" % n), ("x86", x86_provider, "ascon-x%d-asm-x86-64.S" % n)):
            name = "mx%d_%s_max%d" % (n, be, maxs)
            t0 = time.time()
            try:
                ifaces, segtab, chains, errors, ein, eout, cex = run_kernel(name, n, maxs, prov(repo, n, maxs))
            except Stuck as ex:
                ifaces, segtab, chains, errors, ein, eout, cex = [], {}, {}, [str(ex)], 0, 0, None
            emit64(name, "src/masking/%s, ascon_x%d_permute, -DASCON_MASKED_MAX_SHARES=%d: masked words of %d bytes" % (src, n, maxs, 8 * maxs),
                   n, maxs, ifaces, segtab, chains, gen, ein, eout)
            for e in errors:
                print("MISSING kern_masked_max %s: %s" % (name, e))
            if cex:
                print("NOTE kern_masked_max %s: the translated chain for first_round=%d does not compute the rounds on a random input" % (name, cex["first_round"]))
            print("kern_masked_max %s: %d interfaces, %d segments, %d chains (%.1f s)" % (name, len(ifaces), len(segtab), len(chains), time.time() - t0))
            if cex:
                cex["error"] = ("first_round=%d on the memory image %s...: unmasked value after the translated chain = %s, rounds %d..11 of the unmasked value before = %s"
                                % (cex["first_round"], cex["state_and_preserve_bytes"][:48], " ".join(cex["value_got"]), cex["first_round"], " ".join(cex["value_want"])))
            elif errors:
                cex = {"error": errors[0]}
            report[name] = {"title": "ascon_x%d_permute of src/masking/%s with -DASCON_MASKED_MAX_SHARES=%d" % (n, src, maxs),
                            "file": "src/masking/" + src, "function": "ascon_x%d_permute" % n, "shares": n, "max_shares": maxs, "interfaces": len(ifaces),
                            "segments": len(segtab), "chains": len(chains), "errors": errors, "concrete_ok": cex is None, "counterexample": cex}
        # 32-bit C kernels: kern_masked_c32 is already generic in the container size
        name = "mx%d_c32_max%d" % (n, maxs)
        t0 = time.time()
        try:
            ifaces, segtab, chains, errors, ein, eout = k32.run_kernel(name, n, k32.llvm_provider(repo, n, maxs), maxs)
        except Stuck as ex:
            ifaces, segtab, chains, errors, ein, eout = [], {}, {}, [str(ex)], 0, 0
        k32.emit(name, ifaces, segtab, chains, gen, ein, eout, C32_PARTS[(n, maxs)], std=(n, maxs))
        for e in errors:
            print("MISSING kern_masked_max %s: %s" % (name, e))
        print("kern_masked_max %s: %d interfaces, %d segments in %d files, %d chains (%.1f s)" % (name, len(ifaces), len(segtab), C32_PARTS[(n, maxs)], len(chains), time.time() - t0))
        report[name] = {"title": "ascon_x%d_permute of src/masking/ascon-x%d-c32.c with -DASCON_MASKED_MAX_SHARES=%d" % (n, n, maxs),
                        "file": "src/masking/ascon-x%d-c32.c" % n, "function": "ascon_x%d_permute" % n, "shares": n, "max_shares": maxs, "interfaces": len(ifaces),
                        "segments": len(segtab), "chains": len(chains), "errors": errors, "concrete_ok": not errors, "counterexample": {"error": errors[0]} if errors else None}
    kd = os.path.join(os.path.dirname(gen), "..", "build", "kern")
    os.makedirs(kd, exist_ok=True)
    json.dump(report, open(os.path.join(kd, "masked_max.json"), "w"), indent=1)


if __name__ == "__main__":
    repo = sys.argv[1] if len(sys.argv) > 1 else os.environ.get("VERIF_REPO", "/repo")
    gen = os.path.join(os.path.dirname(os.path.dirname(os.path.abspath(__file__))), "coq", "Gen")
    os.makedirs(gen, exist_ok=True)
    main(repo, gen)
