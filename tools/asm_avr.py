"""AVR (avr5 core, avr-gcc ABI) front end of the symbolic executor for C18: lowers the preprocessed text of
src/core/ascon-asm-avr5.S, src/masking/ascon-x2-asm-avr5.S and src/masking/ascon-x3-asm-avr5.S instruction by
instruction into tools/symx.py programs (symbolic data, concrete control), cut at the head of the round loop.

Machine model
  r0..r31   8-bit cells holding a bit-vector (symx.V, concrete or symbolic), one byte of an abstract 16-bit pointer
            (PB: region + offset + which half), one byte of the return address (RB), a saved SREG (SregSnap) or nothing
            (dead across a cut).  X/Y/Z and the adiw/sbiw/movw pairs are two such cells; a pair is a pointer only when
            both halves are the two halves of ONE pointer - anything else used as an address is Stuck.
  SREG      C and T are 1-bit DATA (a V of width 8 holding 0/1, possibly symbolic: the rotate-through-carry chains and
            bst/bld move state bits through them); Z is control only (concrete or unknown); I is `entry` or 0;
            N, V, S, H are not modelled (no modelled instruction reads them; the branches that do are unsupported).
            A conditional branch or skip on anything symbolic is Stuck.
  SP        SPL/SPH (I/O 0x3d/0x3e), AVR convention: points at the first FREE byte; push stores then decrements.  The
            function's frame is (SP, entry SP]; the two return-address bytes lie above it and are touched by `ret` only.
            A stack access at or below SP (an interrupt may overwrite it) or above the frame is Stuck.  While the two
            halves of SP are inconsistent (`out 0x3e` .. `out 0x3d`) interrupts must be off: I = 0, or the single
            instruction after the `out 0x3f` that restores SREG (the hardware executes one more instruction before it
            takes a pending interrupt - the sequence avr-gcc itself emits; assumption stated in the evidence).
  memory    regions `state`, `preserve`, `stack` of symx.Memory; addresses are abstract (region + concrete offset), so
            a data-dependent address or an out-of-region access is Stuck.  16-bit pointer arithmetic is modelled on
            the pair (adiw/sbiw, ld/st post-increment/pre-decrement, and the fused subi/sbci | subi/sbc pair on the two
            halves); the abstract offset moves by the signed 16-bit amount (objects do not wrap around 0xFFFF).
  addition  adc/add with symbolic operands (the `adc rX,r1` that closes a rotate-left chain) is emitted as a ripple
            adder made of xor/and/shl steps, so Coq sees the real adder - nothing is assumed about bit 0 being clear.

Each function is executed twice per first_round (same scheme as tools/asm_rvxt_base.py): pass 1 uncut (ABI facts at
`ret`: r2-r17, r28, r29 and SP hold their entry values, r1 = 0, I restored; access log -> liveness at the cuts), pass 2
cut at the loop head: only live locations travel through the interface, every other symbolic cell is poisoned, so a
wrong liveness result can only make a run Stuck.  For the plain permutation the 40 live state bytes (32 in memory, 8+8
in registers at the loop head) are packed into five 64-bit interface words at the cut and unpacked on the other side
(an identity applied by the translator, located by concrete evaluation; Coq re-checks every segment against the
specification, so a wrong packing cannot prove anything).

Trusted: the lowering table below (one entry per mnemonic), the parser, and the stuck rules.  What validates the
table on a run is tools/xcheck_avr.py (llvm-mc's reading and encoding of every instruction; the instruction streams
executed concretely here and in genavr's own interpreter, compared after every instruction; clang-compiled kernels
through this front end against native execution)."""
import re, os, sys, json, hashlib, bisect, random
sys.path.insert(0, os.path.dirname(os.path.abspath(__file__)))
from symx import Builder, Memory, V, Stuck, mask
from llvmx import Segment
import asm_base

VERIF = os.path.dirname(os.path.dirname(os.path.abspath(__file__)))


class PB:
    """byte k (0 = low, 1 = high) of the 16-bit address of region+off"""
    __slots__ = ("region", "off", "k")

    def __init__(self, region, off, k):
        self.region, self.off, self.k = region, off, k

    def __repr__(self):
        return "%s(&%s%+d)" % ("hi8" if self.k else "lo8", self.region, self.off)


class RB:
    """byte k of a return address (idx = item index to continue at, -1 = the caller)"""
    __slots__ = ("idx", "k")

    def __init__(self, idx, k):
        self.idx, self.k = idx, k

    def __repr__(self):
        return "%s(ret@%d)" % ("hi8" if self.k else "lo8", self.idx)


class SregSnap:
    """SREG as read by `in rd,0x3f`"""
    __slots__ = ("I", "C", "Z", "T")

    def __init__(self, I, C, Z, T):
        self.I, self.C, self.Z, self.T = I, C, Z, T

    def __repr__(self):
        return "<SREG I=%s>" % self.I


def same_obj(a, b):
    if isinstance(a, V) and isinstance(b, V):
        return a.w == b.w and ((a.is_conc() and b.is_conc() and a.conc == b.conc) or (not a.is_conc() and not b.is_conc() and a.ref == b.ref))
    if isinstance(a, PB) and isinstance(b, PB):
        return (a.region, a.off, a.k) == (b.region, b.off, b.k)
    if isinstance(a, RB) and isinstance(b, RB):
        return (a.idx, a.k) == (b.idx, b.k)
    return False


REG_ALIAS = {"xl": 26, "xh": 27, "yl": 28, "yh": 29, "zl": 30, "zh": 31}
PAIR = {"x": 26, "y": 28, "z": 30}
CALLEE_SAVED = list(range(2, 18)) + [28, 29]
IO_SPL, IO_SPH, IO_SREG = 0x3d, 0x3e, 0x3f
HEADROOM = 32          # bytes of the caller's frame modelled above the return address (never touched)


def function_items(items, entry):
    """the items of one function: from its label to the next named (non-numeric, non-.L) label"""
    start = None
    for i, it in enumerate(items):
        if it[0] == "label" and it[1] == entry and start is None:
            start = i
        elif it[0] == "label" and start is not None and not it[1].startswith(".L") and not it[1].isdigit():
            return items[start:i]
    return items[start:] if start is not None else []


def histogram(items, entry):
    h = {}
    for it in function_items(items, entry):
        if it[0] == "ins":
            h[it[1]] = h.get(it[1], 0) + 1
    return h


class AVR:
    """Symbolic execution of one function of a parsed AVR .S file.

    regs_init: register number -> ('ptr', region, off) for the low register of a pair (the high one follows) | ('int', value);
               r1 is the constant 0 (avr-gcc's zero register); every other register is a fresh symbolic input.
    regions:   name -> dict(size, symbolic, init, writable), as for llvmx.Exec.
    cut:       predicate on (label name, item index) where the run is cut; live: list (per cut, in order) of sets of
               live locations from an uncut run (None = uncut run that logs accesses); pack: optional callback
               pack(machine, values, descs) -> list of groups (8 interface positions, most significant byte first) that
               travel as one 64-bit word."""

    def __init__(self, items, entry, regs_init, regions, cut=None, live=None, pack=None, stack_size=512, trace=None):
        self.items = items
        self.label_pos = {}
        for i, it in enumerate(items):
            if it[0] == "label":
                self.label_pos.setdefault(it[1], []).append(i)
        if entry not in self.label_pos:
            raise Stuck("function %s not found (wrong preprocessor profile?)" % entry)
        self.b = Builder()
        self.mem = Memory(self.b)
        self.region_order = []
        self.seg_in_desc = []
        for name, spec in regions.items():
            self.mem.add(name, spec["size"], init=spec.get("init"), symbolic=spec.get("symbolic", False), writable=spec.get("writable", True))
            self.region_order.append(name)
            if spec.get("symbolic"):
                self.seg_in_desc += [("mem", name, i) for i in range(spec["size"])]
        self.mem.add("stack", stack_size)
        self.objs = {}                                   # stack offset -> PB / RB / SregSnap stored there
        self.entry_sp = stack_size - HEADROOM - 3        # first free byte; the return address is at entry_sp+1 (high), +2 (low)
        self.objs[self.entry_sp + 1] = RB(-1, 1)
        self.objs[self.entry_sp + 2] = RB(-1, 0)
        self.sp_lo, self.sp_hi = PB("stack", self.entry_sp, 0), PB("stack", self.entry_sp, 1)
        self.min_sp = self.entry_sp
        self.r = [None] * 32
        for n in range(32):
            spec = regs_init.get(n)
            if n == 1 and spec is None:
                self.r[n] = self.b.const(8, 0)
            elif spec is None:
                if self.r[n] is None:
                    self.r[n] = self.b.inp(8)
                    self.seg_in_desc.append(("reg", "r%d" % n, 8))
            elif spec[0] == "ptr":
                self.r[n], self.r[n + 1] = PB(spec[1], spec[2], 0), PB(spec[1], spec[2], 1)
            else:
                self.r[n] = self.b.const(8, spec[1])
        self.init_r = list(self.r)
        self.C = self.T = self.Z = None                  # unknown on entry: reading them before writing is Stuck
        self.I = "entry"
        self.grace = False
        self.cut, self.live, self.pack = cut, live, pack
        self.segments, self.cut_steps, self.cut_labels = [], [], []
        self.acc = {} if live is None else None          # location -> [(step, 'R'|'W')]
        self.pc = self.label_pos[entry][0]
        self.steps = 0
        self.done = False
        self.trace = trace
        self.ctl = []                                    # control trace (jumps, skips): concrete by construction
        self.sp_window_violation = None
        self.b.leak = []

    # ------------------------------------------------------------------ access log
    def note(self, loc, kind):
        if self.acc is not None:
            self.acc.setdefault(loc, []).append((self.steps, kind))

    # ------------------------------------------------------------------ registers
    def rd(self, n):
        self.note(("r", n), "R")
        v = self.r[n]
        if v is None:
            raise Stuck("read of r%d, which holds no value here (dead across the cut)" % n)
        return v

    def rdv(self, n, what="data"):
        v = self.rd(n)
        if not isinstance(v, V):
            raise Stuck("r%d holds %r where %s is needed" % (n, v, what))
        return v

    def wr(self, n, v):
        self.note(("r", n), "W")
        if isinstance(v, V) and v.w != 8:
            raise Stuck("internal: r%d written with a %d-bit value" % (n, v.w))
        self.r[n] = v

    def conc(self, v, what):
        if not isinstance(v, V) or not v.is_conc():
            raise Stuck("data-dependent " + what)
        return v.conc

    def rd_pair_ptr(self, n, what):
        lo, hi = self.rd(n), self.rd(n + 1)
        if isinstance(lo, PB) and isinstance(hi, PB) and lo.k == 0 and hi.k == 1 and (lo.region, lo.off) == (hi.region, hi.off):
            return lo.region, lo.off
        raise Stuck("%s: r%d:r%d = (%r, %r) is not a pointer (data-dependent or torn address)" % (what, n + 1, n, hi, lo))

    def wr_pair_ptr(self, n, region, off):
        self.wr(n, PB(region, off, 0))
        self.wr(n + 1, PB(region, off, 1))

    # ------------------------------------------------------------------ flags (data)
    def getC(self):
        c = self.C
        if callable(c):
            c = self.C = c()
        if c is None:
            raise Stuck("the carry flag is read but holds no modelled value here (unknown on entry, after pointer arithmetic, or across the cut)")
        return c

    def setZ(self, v):
        self.Z = (v.conc == 0) if isinstance(v, V) and v.is_conc() else None

    def subZ(self, res, with_carry):
        """Z of sub/cp (result is zero) and of sbc/sbci/cpc (result is zero AND Z was set before)"""
        if not with_carry:
            self.Z = res.conc == 0
        elif res.conc != 0:
            self.Z = False
        else:
            self.Z = self.Z          # unchanged (None stays unknown)

    # ------------------------------------------------------------------ stack pointer
    def get_sp(self):
        lo, hi = self.sp_lo, self.sp_hi
        if isinstance(lo, PB) and isinstance(hi, PB) and lo.k == 0 and hi.k == 1 and lo.region == hi.region == "stack" and lo.off == hi.off:
            return lo.off
        raise Stuck("the stack pointer is used while SPL/SPH = (%r, %r) do not form one stack address" % (lo, hi))

    def sp_consistent(self):
        lo, hi = self.sp_lo, self.sp_hi
        return isinstance(lo, PB) and isinstance(hi, PB) and lo.k == 0 and hi.k == 1 and lo.region == hi.region == "stack" and lo.off == hi.off

    def set_sp(self, off):
        if off < 8:
            raise Stuck("stack overflow in the model")
        if off > self.entry_sp + 2:
            raise Stuck("stack pointer moved above the return address")
        self.sp_lo, self.sp_hi = PB("stack", off, 0), PB("stack", off, 1)
        self.min_sp = min(self.min_sp, off)

    # ------------------------------------------------------------------ memory
    def check_stack(self, off, write, what):
        sp = self.get_sp()
        if off <= sp:
            raise Stuck("stack %s at or below the stack pointer (outside the function's frame; an interrupt may overwrite it): entry sp%+d, sp = entry sp%+d" % (what, off - self.entry_sp, sp - self.entry_sp))
        if off > self.entry_sp:
            raise Stuck("stack %s above the function's own frame (entry sp%+d: the return address / the caller's frame)" % (what, off - self.entry_sp))

    def mem_load(self, region, off):
        if region is None:
            raise Stuck("null pointer dereference")
        self.note(("m", region, off), "R")
        if region == "stack":
            self.check_stack(off, False, "read")
            if self.objs.get(off) is not None:
                return self.objs[off]
        return self.mem.load(region, off, 1)

    def mem_store(self, region, off, v):
        if region is None:
            raise Stuck("null pointer dereference")
        self.note(("m", region, off), "W")
        if region == "stack":
            self.check_stack(off, True, "write")
            self.objs.pop(off, None)
        if not isinstance(v, V):
            if region != "stack":
                raise Stuck("a pointer / return address / SREG byte is stored outside the stack")
            self.mem.regions["stack"].check(off, 1, "write")
            self.mem.regions["stack"].cells[off] = None
            self.objs[off] = v
            return
        self.mem.store(region, off, v)

    def push(self, v):
        sp = self.get_sp()
        self.note(("m", "stack", sp), "W")
        if sp > self.entry_sp:
            raise Stuck("push above the function's own frame")
        self.mem.regions["stack"].check(sp, 1, "write")
        self.objs.pop(sp, None)
        if isinstance(v, V):
            self.mem.store("stack", sp, v)
        else:
            self.mem.regions["stack"].cells[sp] = None
            self.objs[sp] = v
        self.set_sp(sp - 1)

    def pop(self, ret=False):
        sp = self.get_sp() + 1
        self.note(("m", "stack", sp), "R")
        if sp > self.entry_sp and not ret:
            raise Stuck("pop above the function's own frame (entry sp%+d: the return address / the caller's frame)" % (sp - self.entry_sp))
        if sp > self.entry_sp + 2:
            raise Stuck("return address popped from above the frame")
        v = self.objs.get(sp)
        if v is None:
            v = self.mem.load("stack", sp, 1)
        self.set_sp(sp)
        return v

    # ------------------------------------------------------------------ operands
    def reg(self, s):
        s = s.strip().lower()
        if s in REG_ALIAS:
            return REG_ALIAS[s]
        m = re.match(r"^r(\d+)$", s)
        if not m or int(m.group(1)) > 31:
            raise Stuck("not a register: " + s)
        return int(m.group(1))

    def imm(self, s, bits=8):
        s = s.strip()
        m = re.match(r"^(lo8|hi8)\((.*)\)$", s)
        try:
            if m:
                n = int(m.group(2), 0)
                n = (n >> 8) if m.group(1) == "hi8" else n
            else:
                n = int(s, 0)
        except ValueError:
            raise Stuck("immediate operand is not a literal: " + s)
        if not -(1 << (bits - 1)) <= n < (1 << bits) and not m:
            raise Stuck("immediate %s does not fit %d bits" % (s, bits))
        return n & mask(bits)

    def ptr_operand(self, s, disp_ok):
        """-> (pair register, mode, displacement): mode '' | '+' (post-increment) | '-' (pre-decrement)"""
        t = s.strip().lower().replace(" ", "")
        m = re.match(r"^(-?)([xyz])(\+?)(\d+|0x[0-9a-f]+)?$", t)
        if not m:
            raise Stuck("not a pointer operand: " + s)
        pre, p, plus, q = m.groups()
        if q is not None:
            if pre or not plus or p == "x" or not disp_ok:
                raise Stuck("displacement addressing is ldd/std with Y or Z only: " + s)
            q = int(q, 0)
            if q > 63:
                raise Stuck("displacement above 63: " + s)
            return PAIR[p], "", q
        if pre and plus:
            raise Stuck("not a pointer operand: " + s)
        return PAIR[p], ("-" if pre else "+" if plus else ""), 0

    def address(self, s, disp_ok, rd=None):
        n, mode, q = self.ptr_operand(s, disp_ok)
        if rd is not None and mode and rd in (n, n + 1):
            raise Stuck("ld/st with pointer update on a register of the pointer itself is undefined")
        region, off = self.rd_pair_ptr(n, "address")
        if mode == "-":
            off -= 1
            self.wr_pair_ptr(n, region, off)
        ea = off + q
        if mode == "+":
            self.wr_pair_ptr(n, region, off + 1)
        return region, ea

    # ------------------------------------------------------------------ arithmetic
    def add8(self, a, b, cin):
        """a + b + cin (cin: V holding 0/1, or None) -> (sum, carry-out thunk or V)"""
        bld = self.b
        if a.is_conc() and b.is_conc() and (cin is None or cin.is_conc()):
            t = a.conc + b.conc + (cin.conc if cin is not None else 0)
            return bld.const(8, t), bld.const(8, t >> 8)

        def ripple(x, y):
            for _ in range(8):
                if y.is_conc() and y.conc == 0:
                    break
                x, y = bld.xor(x, y), bld.shl(bld.and_(x, y), 1)
            return x
        s = ripple(a, b)
        if cin is not None:
            s = ripple(s, cin)

        def cout():
            # carry out of bit 7 of a + b + cin with sum s:  (a & b) | ((a | b) & ~s), bit 7
            return bld.lshr(bld.or_(bld.and_(a, b), bld.and_(bld.or_(a, b), bld.not_(s))), 7)
        return s, cout

    def sub8(self, a, b, cin, what):
        if not (a.is_conc() and b.is_conc() and (cin is None or cin.is_conc())):
            raise Stuck("symbolic subtraction / comparison (%s) is not modelled" % what)
        t = a.conc - b.conc - (cin.conc if cin is not None else 0)
        return self.b.const(8, t), self.b.const(8, 1 if t < 0 else 0)

    # ------------------------------------------------------------------ labels and jumps
    def resolve(self, name):
        m = re.match(r"^(\d+)([bf])$", name)
        if m:
            pos = self.label_pos.get(m.group(1), [])
            if m.group(2) == "b":
                c = [p for p in pos if p < self.pc]
                if c:
                    return c[-1]
            else:
                c = [p for p in pos if p >= self.pc]
                if c:
                    return c[0]
            raise Stuck("numeric label %s has no definition in that direction" % name)
        pos = self.label_pos.get(name)
        if not pos:
            raise Stuck("jump to unknown label " + name)
        if len(pos) > 1:
            raise Stuck("label %s is defined %d times" % (name, len(pos)))
        return pos[0]

    def jump(self, name):
        t = self.resolve(name)
        self.ctl.append(("J", name, t))
        self.pc = t          # the label item itself is processed (cut) on arrival

    def skip_next(self):
        while self.pc < len(self.items) and self.items[self.pc][0] != "ins":
            if self.items[self.pc][0] == "label":
                raise Stuck("skip over a label")
            self.pc += 1
        if self.pc >= len(self.items):
            raise Stuck("skip at the end of the file")
        self.pc += 1

    def branch(self, cond, label, what):
        if cond is None:
            raise Stuck("conditional branch on a flag that is data-dependent or not modelled here (%s)" % what)
        self.ctl.append(("B", what, bool(cond)))
        if cond:
            self.jump(label)

    # ------------------------------------------------------------------ one instruction
    def step(self, op, ops):
        b = self.b
        if self.sp_window_violation is None and not self.sp_consistent() and not (self.I == 0 or self.grace):
            self.sp_window_violation = "line %d: %s executes while SPL/SPH are inconsistent and interrupts may be enabled" % (self.cur_line, op)
        grace_now = False
        if op in ("mov",):
            self.wr(self.reg(ops[0]), self.rd(self.reg(ops[1])))
        elif op == "movw":
            d, s = self.reg(ops[0]), self.reg(ops[1])
            if d % 2 or s % 2:
                raise Stuck("movw needs even registers")
            lo, hi = self.rd(s), self.rd(s + 1)
            self.wr(d, lo); self.wr(d + 1, hi)
        elif op == "ldi":
            d = self.reg(ops[0])
            if d < 16:
                raise Stuck("ldi needs r16..r31")
            self.wr(d, b.const(8, self.imm(ops[1])))
        elif op in ("eor", "and", "or"):
            d, s = self.reg(ops[0]), self.reg(ops[1])
            x, y = self.rdv(d), self.rdv(s)
            if op == "eor":
                res = b.const(8, 0) if d == s else b.xor(x, y)
            elif op == "and":
                res = x if d == s else b.and_(x, y)
            else:
                res = x if d == s else b.or_(x, y)
            self.wr(d, res); self.setZ(res)
        elif op in ("andi", "ori", "cbr", "sbr"):
            d = self.reg(ops[0])
            if d < 16:
                raise Stuck(op + " needs r16..r31")
            k = self.imm(ops[1])
            x = self.rdv(d)
            res = b.and_(x, b.const(8, k)) if op == "andi" else b.and_(x, b.const(8, ~k)) if op == "cbr" else b.or_(x, b.const(8, k))
            self.wr(d, res); self.setZ(res)
        elif op in ("clr", "ser", "tst"):
            d = self.reg(ops[0])
            if op == "clr":
                res = b.const(8, 0); self.wr(d, res)
            elif op == "ser":
                if d < 16:
                    raise Stuck("ser needs r16..r31")
                self.wr(d, b.const(8, 255)); res = None
            else:
                res = self.rdv(d)
            if res is not None:
                self.setZ(res)
        elif op == "com":
            d = self.reg(ops[0])
            res = b.not_(self.rdv(d))
            self.wr(d, res); self.C = b.const(8, 1); self.setZ(res)
        elif op == "neg":
            d = self.reg(ops[0])
            res, _ = self.sub8(b.const(8, 0), self.rdv(d), None, "neg")
            self.wr(d, res); self.C = b.const(8, 1 if res.conc else 0); self.setZ(res)
        elif op == "swap":
            d = self.reg(ops[0])
            self.wr(d, b.rotr(self.rdv(d), 4))
        elif op in ("lsl", "rol"):
            d = self.reg(ops[0])
            x = self.rdv(d)
            cin = self.getC() if op == "rol" else None
            res = b.shl(x, 1)
            if cin is not None:
                res = b.or_(res, cin)
            self.C = b.lshr(x, 7)
            self.wr(d, res); self.setZ(res)
        elif op in ("lsr", "ror", "asr"):
            d = self.reg(ops[0])
            x = self.rdv(d)
            res = b.lshr(x, 1)
            if op == "ror":
                res = b.or_(res, b.shl(self.getC(), 7))
            elif op == "asr":
                res = b.or_(res, b.and_(x, b.const(8, 0x80)))
            self.C = b.and_(x, b.const(8, 1))
            self.wr(d, res); self.setZ(res)
        elif op == "bst":
            d, k = self.reg(ops[0]), self.imm(ops[1])
            if k > 7:
                raise Stuck("bit number above 7")
            self.T = b.and_(b.lshr(self.rdv(d), k), b.const(8, 1))
        elif op == "bld":
            d, k = self.reg(ops[0]), self.imm(ops[1])
            if k > 7:
                raise Stuck("bit number above 7")
            if self.T is None:
                raise Stuck("the T flag is read but holds no modelled value here")
            self.wr(d, b.or_(b.and_(self.rdv(d), b.const(8, ~(1 << k))), b.shl(self.T, k)))
        elif op in ("add", "adc"):
            d, s = self.reg(ops[0]), self.reg(ops[1])
            x = self.rd(d)
            if isinstance(x, PB):
                if op != "add" or x.k != 0:
                    raise Stuck("%s on a pointer half outside the fused add/adc pair" % op)
                self.fused_ptr_arith(d, "add", self.conc(self.rdv(s), "pointer arithmetic"))
            elif isinstance(self.r[s], PB):
                # index + pointer:  add rd,ps ; adc rd+1,ps+1   with rd+1:rd a concrete 16-bit index and ps+1:ps a pointer
                if op != "add" or self.r[s].k != 0 or s % 2 or d + 1 > 31:
                    raise Stuck("%s with a pointer half as the addend outside the fused add/adc pair" % op)
                j = self.pc
                while j < len(self.items) and self.items[j][0] != "ins":
                    if self.items[j][0] == "label":
                        raise Stuck("add of a pointer half directly before a label")
                    j += 1
                if j >= len(self.items) or self.items[j][1] != "adc" or self.reg(self.items[j][2][0]) != d + 1 or self.reg(self.items[j][2][1]) != s + 1:
                    raise Stuck("add rd,<pointer low> is not followed by adc rd+1,<pointer high>")
                region, off = self.rd_pair_ptr(s, "16-bit pointer arithmetic")
                k16 = self.conc(self.rdv(d), "pointer arithmetic") | (self.conc(self.rdv(d + 1), "pointer arithmetic") << 8)
                delta = k16 - 0x10000 if k16 & 0x8000 else k16
                self.wr_pair_ptr(d, region, off + delta)
                self.C = self.Z = None
                self.pc = j + 1
                self.steps += 1
                if self.trace:
                    self.trace(self, self.items[self.cur_index], fused=1)
                    self.trace_item = self.items[j]
            else:
                res, c = self.add8(self.rdv(d), self.rdv(s), self.getC() if op == "adc" else None)
                self.wr(d, res); self.C = c; self.setZ(res)
        elif op in ("sub", "sbc", "cp", "cpc"):
            d, s = self.reg(ops[0]), self.reg(ops[1])
            x = self.rd(d)
            if isinstance(x, PB):
                if op != "sub" or x.k != 0:
                    raise Stuck("%s on a pointer half outside the fused sub/sbc pair" % op)
                self.fused_ptr_arith(d, "sub", self.conc(self.rdv(s), "pointer arithmetic"))
            else:
                res, c = self.sub8(self.rdv(d), self.rdv(s), self.getC() if op in ("sbc", "cpc") else None, op)
                if op in ("sub", "sbc"):
                    self.wr(d, res)
                self.C = c
                self.subZ(res, op in ("sbc", "cpc"))
        elif op in ("subi", "sbci", "cpi"):
            d = self.reg(ops[0])
            if d < 16:
                raise Stuck(op + " needs r16..r31")
            k = self.imm(ops[1])
            x = self.rd(d)
            if isinstance(x, PB):
                if op != "subi" or x.k != 0:
                    raise Stuck("%s on a pointer half outside the fused subi/sbci pair" % op)
                self.fused_ptr_arith(d, "subi", k)
            else:
                res, c = self.sub8(self.rdv(d), b.const(8, k), self.getC() if op == "sbci" else None, op)
                if op != "cpi":
                    self.wr(d, res)
                self.C = c
                self.subZ(res, op == "sbci")
        elif op in ("inc", "dec"):
            d = self.reg(ops[0])
            x = self.conc(self.rdv(d), "inc/dec operand")
            res = b.const(8, x + (1 if op == "inc" else -1))
            self.wr(d, res); self.setZ(res)
        elif op in ("adiw", "sbiw"):
            d = self.reg(ops[0])
            if d not in (24, 26, 28, 30):
                raise Stuck(op + " needs r24, r26, r28 or r30")
            k = self.imm(ops[1], 6)
            lo, hi = self.rd(d), self.rd(d + 1)
            if isinstance(lo, V) and isinstance(hi, V):
                n = self.conc(lo, "adiw/sbiw operand") | (self.conc(hi, "adiw/sbiw operand") << 8)
                t = n + k if op == "adiw" else n - k
                self.wr(d, b.const(8, t)); self.wr(d + 1, b.const(8, t >> 8))
                self.C = b.const(8, 1 if (t < 0 or t > 0xFFFF) else 0)
                self.Z = (t & 0xFFFF) == 0
            else:
                region, off = self.rd_pair_ptr(d, op)
                self.wr_pair_ptr(d, region, off + (k if op == "adiw" else -k))
                self.C = self.Z = None          # depend on the absolute address
        elif op in ("ld", "ldd"):
            d = self.reg(ops[0])
            region, ea = self.address(ops[1], op == "ldd", d)
            self.wr(d, self.mem_load(region, ea))
        elif op in ("st", "std"):
            s = self.reg(ops[1])
            v = self.rd(s)
            region, ea = self.address(ops[0], op == "std", s)
            self.mem_store(region, ea, v)
        elif op == "push":
            self.push(self.rd(self.reg(ops[0])))
        elif op == "pop":
            self.wr(self.reg(ops[0]), self.pop())
        elif op == "in":
            d, a = self.reg(ops[0]), self.imm(ops[1], 6)
            if a == IO_SPL:
                self.wr(d, self.sp_lo)
            elif a == IO_SPH:
                self.wr(d, self.sp_hi)
            elif a == IO_SREG:
                c = self.C
                self.wr(d, SregSnap(self.I, c, self.Z, self.T))
            else:
                raise Stuck("in from I/O address 0x%02x is not modelled" % a)
        elif op == "out":
            a, s = self.imm(ops[0], 6), self.reg(ops[1])
            v = self.rd(s)
            if a in (IO_SPL, IO_SPH):
                if not isinstance(v, PB) or v.region != "stack" or v.k != (0 if a == IO_SPL else 1):
                    raise Stuck("SP%s loaded with %r, not the matching half of a stack address" % ("L" if a == IO_SPL else "H", v))
                if a == IO_SPL:
                    self.sp_lo = v
                else:
                    self.sp_hi = v
                if self.sp_consistent():
                    self.set_sp(v.off)
            elif a == IO_SREG:
                if not isinstance(v, SregSnap):
                    raise Stuck("SREG written with something that is not a saved SREG")
                self.I, self.C, self.Z, self.T = v.I, v.C, v.Z, v.T
                grace_now = True
            else:
                raise Stuck("out to I/O address 0x%02x is not modelled" % a)
        elif op == "cli":
            self.I = 0
        elif op in ("clc", "sec", "clt", "set"):
            v = b.const(8, 1 if op[0] == "s" else 0)
            if op[2] == "c":
                self.C = v
            else:
                self.T = v
        elif op == "nop":
            pass
        elif op == "cpse":
            x = self.conc(self.rdv(self.reg(ops[0])), "compare-and-skip")
            y = self.conc(self.rdv(self.reg(ops[1])), "compare-and-skip")
            self.ctl.append(("S", x == y))
            if x == y:
                self.skip_next()
        elif op in ("rjmp", "jmp"):
            self.jump(ops[0])
        elif op in ("breq", "brne"):
            self.branch(None if self.Z is None else (self.Z if op == "breq" else not self.Z), ops[0], op)
        elif op in ("brcs", "brcc", "brlo", "brsh"):
            c = self.getC()
            self.branch(None if not c.is_conc() else ((c.conc == 1) if op in ("brcs", "brlo") else (c.conc == 0)), ops[0], op)
        elif op in ("rcall", "call"):
            t = self.resolve(ops[0])
            self.push(RB(self.pc, 0)); self.push(RB(self.pc, 1))
            self.ctl.append(("C", ops[0]))
            self.pc = t
        elif op == "ret":
            hi, lo = self.pop(ret=True), self.pop(ret=True)
            if not (isinstance(hi, RB) and isinstance(lo, RB) and hi.k == 1 and lo.k == 0 and hi.idx == lo.idx):
                raise Stuck("ret: the return address was overwritten or the stack is unbalanced (popped %r, %r)" % (hi, lo))
            self.ctl.append(("R", hi.idx))
            if hi.idx < 0:
                self.done = True
            else:
                self.pc = hi.idx
        else:
            raise Stuck("unsupported AVR instruction")
        self.grace = grace_now

    def fused_ptr_arith(self, d, op1, klo):
        """16-bit arithmetic on the two halves of ONE pointer, recognised as an instruction pair:
             subi rd,lo ; sbci rd+1,hi     subi rd,lo ; sbc rd+1,rz     sub rd,rx ; sbc rd+1,ry     add rd,rx ; adc rd+1,ry
           (rx, ry, rz concrete).  The abstract offset moves by the signed 16-bit amount; C and Z depend on the absolute
           address and become unknown."""
        j = self.pc
        while j < len(self.items) and self.items[j][0] != "ins":
            if self.items[j][0] == "label":
                raise Stuck("%s on a pointer half directly before a label" % op1)
            j += 1
        if j >= len(self.items):
            raise Stuck("%s on a pointer half at the end of the file" % op1)
        _, op2, ops2, line2 = self.items[j]
        allowed = {"subi": ("sbci", "sbc"), "sub": ("sbc",), "add": ("adc",)}[op1]
        if op2 not in allowed or self.reg(ops2[0]) != d + 1:
            raise Stuck("%s on the low half of a pointer is not followed by %s on the high half" % (op1, "/".join(allowed)))
        region, off = self.rd_pair_ptr(d, "16-bit pointer arithmetic")
        if op2 == "sbci":
            khi = self.imm(ops2[1])
        else:
            khi = self.conc(self.rdv(self.reg(ops2[1])), "pointer arithmetic")
        k16 = (khi << 8) | klo
        delta = (k16 if op1 == "add" else -k16) & 0xFFFF
        delta = delta - 0x10000 if delta & 0x8000 else delta
        self.wr_pair_ptr(d, region, off + delta)
        self.C = self.Z = None
        self.pc = j + 1
        self.steps += 1
        if self.trace:
            self.trace(self, self.items[self.cur_index], fused=1)
            self.trace_item = self.items[j]

    # ------------------------------------------------------------------ cut
    def locations(self):
        """(location, value) for every symbolic cell, registers first"""
        out = []
        for n in range(32):
            v = self.r[n]
            if isinstance(v, V) and not v.is_conc():
                out.append((("r", n), v))
        for rn in sorted(self.mem.regions):
            reg = self.mem.regions[rn]
            if not reg.writable:
                continue
            for i, c in enumerate(reg.cells):
                if c is None:
                    continue
                v = self.mem._cell_val(c)
                if not v.is_conc():
                    out.append((("m", rn, i), v))
        return out

    def do_cut(self, label):
        ci = len(self.cut_steps)
        self.cut_steps.append(self.steps)
        self.cut_labels.append(label)
        if self.live is None:
            return                       # uncut (logging) run: only remember where the cut is
        if ci >= len(self.live):
            raise Stuck("more cuts in the cut run than in the uncut run")
        live = self.live[ci]
        vals, descs, binds, index = [], [], [], {}
        for loc, v in self.locations():
            if loc not in live:
                if loc[0] == "r":
                    self.r[loc[1]] = None
                else:
                    self.mem.regions[loc[1]].cells[loc[2]] = None
                continue
            key = v.ref
            if key not in index:
                index[key] = len(vals)
                vals.append(v); binds.append([])
                descs.append(("reg", "r%d" % loc[1], 8) if loc[0] == "r" else ("mem", loc[1], loc[2]))
            binds[index[key]].append(loc)
        groups = self.pack(self, vals, descs) if self.pack else []
        grouped = set(p for g in groups for p in g)
        outs, odesc = [], []
        for gi, g in enumerate(groups):
            w = vals[g[0]]
            for p in g[1:]:
                w = self.b.concat(w, vals[p])          # first member most significant
            outs.append(w); odesc.append(("reg", "w%d" % gi, 8 * len(g)))
        rest = [p for p in range(len(vals)) if p not in grouped]
        outs += [vals[p] for p in rest]
        odesc += [descs[p] for p in rest]
        seg = Segment(self.b, self.seg_in_desc, outs, odesc)
        seg.out_binds = [[loc for p in g for loc in binds[p]] for g in groups] + [list(binds[p]) for p in rest]      # every location an output is bound to
        self.segments.append(seg)
        nb = Builder()
        self.b = nb
        self.mem.b = nb
        newv = {}
        for g in groups:
            wv = nb.inp(8 * len(g))
            for j, p in enumerate(g):
                newv[p] = nb.byte_of(wv, len(g) - 1 - j)
        for p in rest:
            newv[p] = nb.inp(8)
        for p, locs in enumerate(binds):
            for loc in locs:
                if loc[0] == "r":
                    self.r[loc[1]] = newv[p]
                else:
                    self.mem.regions[loc[1]].cells[loc[2]] = ("v", newv[p])
        self.seg_in_desc = odesc
        self.C = self.T = self.Z = None          # flags do not travel: a read before the next write is Stuck

    # ------------------------------------------------------------------ run
    def run(self, max_steps=600000):
        while not self.done:
            if self.pc >= len(self.items):
                raise Stuck("execution ran off the end of the file")
            it = self.items[self.pc]
            self.pc += 1
            if it[0] == "label":
                if self.cut and self.cut(it[1], self.pc - 1):
                    self.do_cut(it[1])
                continue
            if it[0] == "data":
                raise Stuck("execution fell into a data word")
            self.steps += 1
            if self.steps > max_steps:
                raise Stuck("step limit exceeded (%d instructions): the loop does not terminate for this first_round" % max_steps)
            self.cur_line = it[3]
            self.cur_index = self.pc - 1
            self.trace_item = None
            try:
                self.step(it[1], it[2])
            except Stuck as ex:
                raise Stuck("line %d: %s %s: %s" % (it[3], it[1], ", ".join(it[2]), ex))
            if self.trace:
                self.trace(self, self.trace_item or it)
        outs, desc = [], []
        self.steps += 1
        for rn in self.region_order:
            r = self.mem.regions[rn]
            if not r.writable:
                continue
            for i, c in enumerate(r.cells):
                self.note(("m", rn, i), "R")
                outs.append(None if c is None else self.mem._cell_val(c)); desc.append(("mem", rn, i))
        self.final_r = list(self.r)
        self.segments.append(Segment(self.b, self.seg_in_desc, outs, desc))
        return self.segments

    def liveness(self):
        """per cut: the set of locations whose first access after the cut is a read"""
        out = []
        for cs in self.cut_steps:
            live = set()
            for loc, lst in self.acc.items():
                i = bisect.bisect_right(lst, (cs, "Z"))
                if i < len(lst) and lst[i][1] == "R":
                    live.add(loc)
            out.append(live)
        return out

    # ------------------------------------------------------------------ ABI / frame facts of a finished, uncut run
    def abi_facts(self):
        bad = [("r%d" % n) for n in CALLEE_SAVED if not same_obj(self.init_r[n], self.final_r[n])]
        r1 = self.final_r[1]
        r1_ok = isinstance(r1, V) and r1.is_conc() and r1.conc == 0
        sp_ok = self.sp_consistent() and self.sp_lo.off == self.entry_sp + 2
        entry_refs = set(v.ref for v in self.init_r if isinstance(v, V) and not v.is_conc())
        residual = ["r%d" % n for n in range(32) if isinstance(self.final_r[n], V) and not self.final_r[n].is_conc() and self.final_r[n].ref not in entry_refs]
        touched = {}
        for loc, lst in self.acc.items():
            if loc[0] == "m":
                lo, hi, rw = touched.get(loc[1], (loc[2], loc[2], set()))
                touched[loc[1]] = (min(lo, loc[2]), max(hi, loc[2]), rw | set(k for s, k in lst if s <= self.steps - 1))
        regions = {}
        for rn, (lo, hi, rw) in touched.items():
            if rn == "stack":
                regions[rn] = {"lowest": lo - self.entry_sp, "highest": hi - self.entry_sp, "kinds": "".join(sorted(rw))}
            else:
                regions[rn] = {"lowest": lo, "highest": hi, "size": self.mem.regions[rn].size, "kinds": "".join(sorted(rw))}
        return {"callee_saved_bad": bad, "r1_zero": r1_ok, "sp_restored": sp_ok, "i_flag_restored": self.I == "entry",
                "sp_update_atomic": self.sp_window_violation is None, "sp_update_note": self.sp_window_violation,
                "frame_bytes": self.entry_sp - self.min_sp, "steps": self.steps - 1, "residual_regs": residual, "regions": regions,
                "control_hash": hashlib.sha256(repr(self.ctl).encode()).hexdigest()[:16]}


# ---------------------------------------------------------------------------------------------------- profiles
AVR_DEFS = ["__AVR__", "__AVR_ARCH__=5"]
PROFILES = {
    # name: (file below /repo, extra -D, function, shares n, MAX_SHARES (stride of a masked word / 8), layout)
    "avr5": ("src/core/ascon-asm-avr5.S", [], "ascon_permute", 1, 1, "KL8"),
    "avr5_x2": ("src/masking/ascon-x2-asm-avr5.S", ["ASCON_MASKED_MAX_SHARES=2"], "ascon_x2_permute", 2, 2, "KL8"),
    "avr5_x2m3": ("src/masking/ascon-x2-asm-avr5.S", ["ASCON_MASKED_MAX_SHARES=3"], "ascon_x2_permute", 2, 3, "KL8"),
    "avr5_x3": ("src/masking/ascon-x3-asm-avr5.S", ["ASCON_MASKED_MAX_SHARES=3"], "ascon_x3_permute", 3, 3, "KL8"),
}


def stub_include_dir():
    """<avr/io.h> is not installed here and the files use raw I/O addresses only: an empty stand-in"""
    d = os.path.join(VERIF, "build", "kern", "avr-include")
    os.makedirs(os.path.join(d, "avr"), exist_ok=True)
    p = os.path.join(d, "avr", "io.h")
    if not os.path.exists(p):
        open(p, "w").write("/* empty stand-in for <avr/io.h>: the generated files use raw I/O addresses (0x3d, 0x3e, 0x3f) */\n")
    return d


def incs(repo):
    return [os.path.join(repo, "src"), os.path.join(repo, "src", "core"), os.path.join(repo, "src", "masking"), stub_include_dir()]


def load(repo, name, extra_defs=None):
    rel, defs, fn, n, maxs, layout = PROFILES[name]
    path = os.path.join(repo, rel)
    text = asm_base.preprocess(path, incs=incs(repo), defs=AVR_DEFS + (defs if extra_defs is None else extra_defs))
    items, tables, directives = asm_base.parse(text, path)
    return items, directives, text, path


def loop_heads(items, entry):
    """item indices of the labels that are the final target of a backward rjmp (through leapfrog `rjmp` chains)"""
    fi = function_items(items, entry)
    base = next(i for i, it in enumerate(items) if it[0] == "label" and it[1] == entry)
    pos = {}
    for i, it in enumerate(fi):
        if it[0] == "label":
            pos.setdefault(it[1], []).append(base + i)
    heads = set()

    def target(ref, at):
        m = re.match(r"^(\d+)([bf])$", ref)
        if m:
            c = [p for p in pos.get(m.group(1), []) if (p < at if m.group(2) == "b" else p >= at)]
            return (c[-1] if m.group(2) == "b" else c[0]) if c else None
        c = pos.get(ref)
        return c[0] if c else None
    for i, it in enumerate(fi):
        if it[0] == "ins" and it[1] in ("rjmp", "jmp") and it[2]:
            at = base + i
            t = target(it[2][0], at)
            if t is None or t >= at:
                continue
            for _ in range(8):          # follow leapfrogs: a label directly followed by an unconditional jump
                j = t + 1
                while j < len(items) and items[j][0] == "label":
                    j += 1
                if j < len(items) and items[j][0] == "ins" and items[j][1] in ("rjmp", "jmp"):
                    t2 = target(items[j][2][0], j)
                    if t2 is None:
                        break
                    t = t2
                else:
                    break
            heads.add(t)
    return heads


def make_machine(items, name, k, cut=None, live=None, pack=None, concrete=None, trace=None):
    rel, defs, fn, n, maxs, layout = PROFILES[name]
    regs = {24: ("ptr", "state", 0), 22: ("int", k)}
    regions = {"state": {"size": 40 * maxs, "symbolic": concrete is None}}
    if n > 1:
        regs[20] = ("ptr", "preserve", 0)
        regions["preserve"] = {"size": 8 * (n - 1), "symbolic": concrete is None}
    if concrete is not None:
        regions["state"]["init"] = concrete["state"]
        if n > 1:
            regions["preserve"]["init"] = concrete["preserve"]
        highs = set(rn + 1 for rn, sp in regs.items() if sp[0] == "ptr")
        for rn, val in concrete.get("regs", {}).items():
            if rn not in regs and rn not in highs:
                regs[rn] = ("int", val)
    return AVR(items, fn, regs, regions, cut=cut, live=live, pack=pack, trace=trace)


def kern_runs(repo, name, pack_factory=None, json_dir=None):
    """-> (layout, one, facts): one(k) = the segments of the run cut at the loop head (after an uncut run that yields the
    ABI / frame facts and the liveness); the facts are collected in build/kern/<name>.json; a violated ABI fact raises
    Stuck (`ABI: ...`), which the drivers print as a MISSING line."""
    rel, defs, fn, n, maxs, layout = PROFILES[name]
    items, directives, text, path = load(repo, name)
    heads = loop_heads(items, fn)
    cut = lambda lab, idx: idx in heads
    json_dir = json_dir or os.path.join(VERIF, "build", "kern")
    facts = {"name": name, "file": rel, "isa": "AVR (avr5 core, avr-gcc ABI)", "layout": layout, "macros": AVR_DEFS + defs, "function": fn,
             "mnemonics": histogram(items, fn), "instructions": sum(histogram(items, fn).values()), "callee_saved_ok": True, "per_first_round": {},
             "abi": "avr-gcc: r2-r17, r28, r29 and SP restored, r1 = 0, SREG I restored, SP updated with interrupts off; every access inside state / preserve / own frame",
             "has_gnu_stack_note": any(d == ".section" and ".note.GNU-stack" in a for d, a in directives),
             "loop_head_labels": sorted(items[h][1] for h in heads), "shares": n, "max_shares": maxs}

    def flush():
        os.makedirs(json_dir, exist_ok=True)
        with open(os.path.join(json_dir, name + ".json"), "w") as f:
            json.dump(facts, f, indent=1, sort_keys=True)

    # the file's other function (register wipe, core file only): same ABI facts, no memory access
    free_err = None
    if "ascon_backend_free" in [it[1] for it in items if it[0] == "label"]:
        try:
            mf = AVR(items, "ascon_backend_free", {24: ("ptr", "state", 0)}, {"state": {"size": 40 * maxs, "symbolic": True}})
            mf.run()
            af = mf.abi_facts()
            facts["ascon_backend_free"] = {k_: af[k_] for k_ in ("callee_saved_bad", "r1_zero", "sp_restored", "i_flag_restored", "frame_bytes", "steps", "regions")}
            pf = (["callee-saved register(s) %s do not hold their entry values" % ", ".join(af["callee_saved_bad"])] if af["callee_saved_bad"] else []) + \
                 ([] if af["r1_zero"] else ["r1 is not zero"]) + ([] if af["sp_restored"] else ["the stack pointer is not restored"]) + \
                 ([] if af["i_flag_restored"] else ["the interrupt flag is not restored"]) + \
                 (["it accesses memory (%s)" % ", ".join(sorted(r for r in af["regions"] if r != "stack" and af["regions"][r]["kinds"]))]
                  if [r for r in af["regions"] if r != "stack" and af["regions"][r]["kinds"]] else [])
            if pf:
                free_err = "; ".join(pf)
        except Stuck as ex:
            facts["ascon_backend_free"] = {"error": str(ex)}
            free_err = str(ex)

    def one(k):
        try:
            if free_err:
                raise Stuck("ABI: ascon_backend_free in the same file: " + free_err)
            if k >= 12:
                raise Stuck("outside the documented range: first_round is `between 0 and 11`; the round loop is do-while (the constant is compared with 0x3C only "
                            "after a round), so first_round = 12 executes 256 rounds instead of none")
            m = make_machine(items, name, k, cut=cut)
            m.run()
            a = m.abi_facts()
            facts["per_first_round"][str(k)] = a
            facts["frame_bytes"] = max(facts.get("frame_bytes", 0), a["frame_bytes"])
            problems = []
            if a["callee_saved_bad"]:
                problems.append("callee-saved register(s) %s do not hold their entry values" % ", ".join(a["callee_saved_bad"]))
            if not a["r1_zero"]:
                problems.append("r1 is not zero")
            if not a["sp_restored"]:
                problems.append("the stack pointer is not restored")
            if not a["i_flag_restored"]:
                problems.append("the interrupt flag is not restored")
            if not a["sp_update_atomic"]:
                problems.append(a["sp_update_note"])
            if problems:
                facts["callee_saved_ok"] = False
                raise Stuck("ABI: at return " + "; ".join(problems))
            live = m.liveness()
            mc = make_machine(items, name, k, cut=cut, live=live, pack=pack_factory(k) if pack_factory else None)
            segs = mc.run()
            a["segments"] = len(segs)
            a["cut_labels"] = mc.cut_labels
            a["interface_sizes"] = [len(s.outs) for s in segs[:-1]]
            return segs
        except Stuck as ex:
            facts["per_first_round"].setdefault(str(k), {})["error"] = str(ex)
            raise
        finally:
            flush()
    return layout, one, facts


# ---------------------------------------------------------------------------------------------------- plain permutation
def plain_pack_factory(seeds=(11, 12, 13)):
    """locates, at every cut, the 40 canonical state bytes among the live interface values by concrete evaluation on
    len(seeds) random states, and asks the machine to pack them into five 64-bit words (x0..x4, big-endian)"""
    import kern_perm

    def factory(kk):
        st = {"vals": None, "xs": None, "cuts": 0}

        def pack(m, vals, descs):
            if st["vals"] is None:
                st["vals"], st["xs"] = [], []
                for sd in seeds:
                    rng = random.Random(sd * 1000 + kk)
                    xs = [rng.getrandbits(64) for _ in range(5)]
                    ins = kern_perm.mem_bytes("KL8", xs) + [rng.getrandbits(w) for w in m.b.in_widths[40:]]
                    st["vals"].append(ins); st["xs"].append(xs)
            if st["cuts"] > 0:
                st["xs"] = [kern_perm.ascon_round(xs, kk + st["cuts"] - 1) for xs in st["xs"]]
            st["cuts"] += 1
            ev = [m.b.evaluate(ins, vals) for ins in st["vals"]]
            want = [kern_perm.mem_bytes("KL8", xs) for xs in st["xs"]]
            sig = {}
            for p in range(len(vals)):
                sig.setdefault(tuple(e[p] for e in ev), []).append(p)
            groups, used = [], set()
            for wi in range(5):
                g = []
                for bi in range(8):
                    key = tuple(w[8 * wi + bi] for w in want)
                    c = [p for p in sig.get(key, []) if p not in used]
                    if not c:
                        raise Stuck("cannot locate byte %d of x%d at cut %d (after %d rounds): the loop head does not hold the expected state" % (bi, wi, st["cuts"] - 1, st["cuts"] - 1))
                    g.append(c[0]); used.add(c[0])
                groups.append(g)
            # the values the next segment starts from: packed words, then the rest in order
            rest = [p for p in range(len(vals)) if p not in used]
            nxt = []
            for e, xs in zip(ev, st["xs"]):
                words = []
                for g in groups:
                    w = 0
                    for p in g:
                        w = (w << 8) | e[p]
                    words.append(w)
                nxt.append(words + [e[p] for p in rest])
            st["vals"] = nxt
            return groups
        return pack
    return factory


def runs(repo, name):
    """provider in the shape kern_perm.run_backend expects: (layout, one)"""
    layout, one, facts = kern_runs(repo, name, pack_factory=plain_pack_factory())
    return layout, one


PROVIDERS = {"avr5": runs}
