#!/usr/bin/env python3
"""C18 sub-check 4 - no executable stack on ELF targets.

Given a CMake/Ninja build directory of the tree (targets ascon, ascon_static,
asconcrypt, asconsum built) and the tree itself:

 (a) host artefacts: every object assembled from a .S file must carry a
     `.note.GNU-stack` section without the X flag (readelf -SW); libascon.so,
     asconcrypt and asconsum must have a GNU_STACK program header without E
     (readelf -lW);
 (b) what the CMake build passes to the assembler for .S files (FLAGS of the
     ASM rules in build.ninja): `--noexecstack` present or not - this is what
     covers CMake builds for the ELF targets that cannot be assembled here;
 (c) source scan of every checked-in *.S file: does the text carry a
     `.section .note.GNU-stack,"",@progbits` / `%progbits` directive (any
     syntax variant) - this is what covers builds that do not go through the
     CMake files (Arduino / PlatformIO library layout, hand-written makefiles);
 (d) a demonstration of (c) on the host: the x86-64 files assembled the way a
     plain build system would (`gcc -c file.S`, no extra flags) and a probe
     program linked against the permutation object; GNU_STACK of the probe.

Prints one JSON object."""
import os, sys, re, json, glob, subprocess, tempfile, shutil, time

NOTE_RE = re.compile(r"^\s*\.section\s+\.note\.GNU-stack\s*,\s*\"\"\s*(?:,\s*[@%]progbits)?", re.M)
# the ISA each file is for, and whether that target uses ELF objects at all / has an OS that honours PT_GNU_STACK
TARGET_OF = {
    "ascon-asm-armv6.S": "ARMv6 (ELF: Linux, bare metal)", "ascon-asm-armv6m.S": "ARMv6-M (ELF, bare metal)",
    "ascon-asm-armv7m.S": "ARMv7-M / Thumb-2 (ELF: bare metal, Linux ARMv7-A)", "ascon-asm-armv8a-64.S": "AArch64 (ELF: Linux; Mach-O: macOS)",
    "ascon-asm-avr5.S": "AVR5 (ELF, bare metal)", "ascon-asm-i386.S": "i386 (ELF: Linux/BSD; PE: Windows; Mach-O)",
    "ascon-asm-m68k.S": "m68k (ELF: Linux, bare metal)", "ascon-asm-riscv32e.S": "RV32E (ELF, bare metal)",
    "ascon-asm-riscv32i.S": "RV32I (ELF: bare metal, Linux)", "ascon-asm-riscv64i.S": "RV64I (ELF: Linux, bare metal)",
    "ascon-asm-x86-64.S": "x86-64 (ELF: Linux/BSD; PE: Windows; Mach-O: macOS)", "ascon-asm-xtensa.S": "Xtensa (ELF: ESP32/ESP8266, Linux)",
    "ascon-word-asm-x86-64.S": "x86-64", "ascon-x2-asm-x86-64.S": "x86-64", "ascon-x3-asm-x86-64.S": "x86-64", "ascon-x4-asm-x86-64.S": "x86-64",
    "ascon-x2-asm-avr5.S": "AVR5", "ascon-x3-asm-avr5.S": "AVR5",
}


def sh(cmd, cwd=None, timeout=300):
    p = subprocess.run(cmd, cwd=cwd, stdout=subprocess.PIPE, stderr=subprocess.STDOUT, timeout=timeout)
    return p.returncode, p.stdout.decode("utf-8", "replace")


def note_of_object(path):
    """-> (has_note, executable, readelf line)"""
    rc, out = sh(["readelf", "-SW", path])
    for l in out.split("\n"):
        if ".note.GNU-stack" in l:
            m = re.search(r"\.note\.GNU-stack\s+\S+\s+[0-9a-f]+\s+[0-9a-f]+\s+[0-9a-f]+\s+[0-9a-f]+\s+([A-Za-z]*)\s", l + " ")
            flags = m.group(1) if m else "?"
            return True, "X" in flags, l.strip()
    return False, None, None


def gnu_stack_of(path):
    """-> (flags string like 'RW' / 'RWE' / None when there is no GNU_STACK header, readelf line)"""
    rc, out = sh(["readelf", "-lW", path])
    for l in out.split("\n"):
        if "GNU_STACK" in l:
            m = re.search(r"GNU_STACK\s+0x[0-9a-f]+\s+0x[0-9a-f]+\s+0x[0-9a-f]+\s+0x[0-9a-f]+\s+0x[0-9a-f]+\s+([RWE ]+?)\s+0x", l)
            return (m.group(1).replace(" ", "") if m else "?"), l.strip()
    return None, None


def asm_flags(bdir):
    """FLAGS of every ASM compile rule in build.ninja -> {object: flags}"""
    p = os.path.join(bdir, "build.ninja")
    res = {}
    if not os.path.exists(p):
        return res
    cur = None
    for l in open(p, errors="replace"):
        m = re.match(r"^build (\S+\.S\.o): ASM_COMPILER", l)
        if m:
            cur = m.group(1)
        elif l.startswith("build "):
            cur = None
        elif cur and l.strip().startswith("FLAGS ="):
            res[cur] = l.split("=", 1)[1].strip()
    return res


def run(bdir, repo):
    t0 = time.time()
    res = {"objects": [], "binaries": [], "asm_rules": 0, "asm_rules_noexecstack": 0, "sources": [], "plain_build": None}
    # (a) objects
    objs = sorted(glob.glob(os.path.join(bdir, "**", "*.S.o"), recursive=True))
    for o in objs:
        has, ex, line = note_of_object(o)
        res["objects"].append({"object": os.path.relpath(o, bdir), "note": has, "executable": ex, "readelf": line})
    bins = []
    for pat in ("src/libascon.so", "apps/asconcrypt/asconcrypt", "apps/asconsum/asconsum"):
        p = os.path.join(bdir, pat)
        if os.path.exists(p):
            bins.append(p)
    for b in bins:
        fl, line = gnu_stack_of(b)
        res["binaries"].append({"file": os.path.relpath(b, bdir), "gnu_stack": fl, "readelf": line,
                                "ok": fl is not None and "E" not in fl})
    res["expected_binaries_found"] = len(bins)
    # (b) CMake assembler flags
    fl = asm_flags(bdir)
    res["asm_rules"] = len(fl)
    res["asm_rules_noexecstack"] = sum(1 for v in fl.values() if "--noexecstack" in v)
    res["asm_flags_sample"] = sorted(set(fl.values()))[:3]
    res["cmake_passes_noexecstack"] = len(fl) > 0 and res["asm_rules_noexecstack"] == len(fl)
    # (c) sources
    for s in sorted(glob.glob(os.path.join(repo, "src", "*", "*.S"))):
        txt = open(s, errors="replace").read()
        m = NOTE_RE.search(txt)
        guarded = None
        if m:
            # the directive must not sit inside the file's outer backend #if only for non-ELF branches: report the nearest preceding #if line
            pre = txt[:m.start()].split("\n")
            cond = [l for l in pre if re.match(r"^\s*#\s*(if|elif|else|endif)", l)]
            guarded = cond[-1].strip() if cond else None
        # every build assembles every .S file: for a target or backend selection that deselects the file's code the object is empty,
        # and it must carry the note all the same - preprocess with no target macro at all (only __ELF__)
        rc_e, out_e = sh(["gcc", "-E", "-undef", "-D__ELF__", "-x", "assembler-with-cpp", "-I" + os.path.join(repo, "src"),
                          "-I" + os.path.join(repo, "src", "core"), "-I" + os.path.join(repo, "src", "masking"), s])
        desel = rc_e == 0 and bool(NOTE_RE.search(out_e))
        res["sources"].append({"file": os.path.relpath(s, repo), "target": TARGET_OF.get(os.path.basename(s), "?"), "note_directive": bool(m) and desel,
                               "note_when_code_deselected": desel,
                               "directive": m.group(0).strip() if m else None, "nearest_conditional": guarded})
    # (d) plain (non-CMake) build of the host files
    x86 = [s for s in sorted(glob.glob(os.path.join(repo, "src", "*", "*-x86-64.S")))]
    if x86:
        d = tempfile.mkdtemp(prefix="verif-execstack-")
        try:
            pb = {"objects": [], "command": "gcc -c -Isrc -Isrc/core -Isrc/masking <file>.S   (what a build system that knows nothing of CMakeLists.txt does)"}
            inc = ["-I" + os.path.join(repo, "src"), "-I" + os.path.join(repo, "src", "core"), "-I" + os.path.join(repo, "src", "masking")]
            perm_o = None
            for s in x86:
                o = os.path.join(d, os.path.basename(s) + ".o")
                rc, out = sh(["gcc", "-c"] + inc + [s, "-o", o])
                if rc != 0:
                    pb["objects"].append({"file": os.path.relpath(s, repo), "assembled": False, "log": out[-400:]})
                    continue
                has, ex, line = note_of_object(o)
                pb["objects"].append({"file": os.path.relpath(s, repo), "assembled": True, "note": has, "executable": ex})
                if os.path.basename(s) == "ascon-asm-x86-64.S":
                    perm_o = o
            if perm_o:
                open(os.path.join(d, "probe.c"), "w").write(
                    "extern void ascon_permute(void *, unsigned char);\nint main(void) { unsigned char s[40] = {0}; ascon_permute(s, 0); return s[0] == 0; }\n")
                rc, out = sh(["gcc", os.path.join(d, "probe.c"), perm_o, "-o", os.path.join(d, "probe")])
                fl2, line = gnu_stack_of(os.path.join(d, "probe")) if rc == 0 else (None, None)
                pb["probe"] = {"command": "gcc probe.c ascon-asm-x86-64.S.o -o probe && readelf -lW probe | grep GNU_STACK", "linked": rc == 0,
                               "gnu_stack": fl2, "readelf": line, "linker_says": [l for l in out.split("\n") if "GNU-stack" in l or "executable stack" in l][:2]}
            res["plain_build"] = pb
        finally:
            shutil.rmtree(d, ignore_errors=True)
    res["host_ok"] = (len(res["objects"]) > 0 and all(o["note"] and not o["executable"] for o in res["objects"])
                      and len(res["binaries"]) == 3 and all(b["ok"] for b in res["binaries"]))
    res["sources_ok"] = len(res["sources"]) > 0 and all(s["note_directive"] for s in res["sources"])
    res["wall_s"] = round(time.time() - t0, 2)
    return res


if __name__ == "__main__":
    r = run(sys.argv[1], sys.argv[2] if len(sys.argv) > 2 else os.environ.get("VERIF_REPO", "/repo"))
    json.dump(r, sys.stdout, indent=1)
    print()
    sys.exit(0 if r["host_ok"] and (r["sources_ok"] or r["cmake_passes_noexecstack"]) else 1)
