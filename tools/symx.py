"""Symbolic execution core shared by the translators (LLVM IR from clang for
the C kernels, per-ISA lowerings for the .S files).

Values are bit-vectors of a known width that are either concrete (a Python
int) or symbolic (a reference into the SSA program being built).  Control
flow, addresses and shift amounts must be concrete: anything else raises
Stuck, which is how a secret-dependent branch/address/shift (C11) or an
out-of-region access (C12) shows up.  The SSA program is emitted as Coq data
(Sym/Wexpr.v `prog`) and re-checked there for all inputs."""


import re


class Stuck(Exception):
    pass


class V:
    """A bit-vector value: width in bits; conc = int or None; ref = wexpr string when symbolic."""
    __slots__ = ("w", "conc", "ref")

    def __init__(self, w, conc=None, ref=None):
        self.w, self.conc, self.ref = w, conc, ref

    def is_conc(self):
        return self.conc is not None

    def __repr__(self):
        return "V%d(%s)" % (self.w, hex(self.conc) if self.is_conc() else self.ref)


def mask(w):
    return (1 << w) - 1


class Builder:
    """One straight-line segment: inputs (WIn i), instructions (WTmp i)."""

    def __init__(self):
        self.in_widths = []
        self.body = []          # wexpr strings
        self.fns = []           # parallel: python evaluators (ins, tmps) -> int, for layout discovery / counter-example search
        self.widths = []
        self.cse = {}
        self.leak = []          # control-flow / address trace (all concrete): for C11 evidence

    # ---- leaves
    def inp(self, w):
        self.in_widths.append(w)
        return V(w, None, "(WIn %d)" % (len(self.in_widths) - 1))

    def const(self, w, n):
        return V(w, n & mask(w))

    def acc(self, v):
        """python accessor for a value: (ins, tmps) -> int"""
        if v.is_conc():
            c = v.conc
            return lambda ins, tmps: c
        m = re.match(r"\(W(In|Tmp) (\d+)\)", v.ref)
        i = int(m.group(2))
        if m.group(1) == "In":
            return lambda ins, tmps: ins[i]
        return lambda ins, tmps: tmps[i]

    def evaluate(self, ins, outs):
        tmps = []
        for f in self.fns:
            tmps.append(f(ins, tmps))
        return [self.acc(o)(ins, tmps) for o in outs]

    def _emit(self, w, text, fn=None):
        if text in self.cse:
            return V(w, None, self.cse[text])
        self.body.append(text)
        self.fns.append(fn)
        self.widths.append(w)
        ref = "(WTmp %d)" % (len(self.body) - 1)
        self.cse[text] = ref
        return V(w, None, ref)

    def ref(self, v):
        return "(WConst %d %d)" % (v.w, v.conc) if v.is_conc() else v.ref

    # ---- operations
    def _bin(self, name, f, a, b):
        if a.w != b.w:
            raise Stuck("width mismatch in %s: %d vs %d" % (name, a.w, b.w))
        if a.is_conc() and b.is_conc():
            return self.const(a.w, f(a.conc, b.conc))
        fa, fb, m = self.acc(a), self.acc(b), mask(a.w)
        return self._emit(a.w, "(%s %s %s)" % (name, self.ref(a), self.ref(b)), lambda ins, tmps: f(fa(ins, tmps), fb(ins, tmps)) & m)

    def xor(self, a, b):
        if a.is_conc() and a.conc == 0:
            return b
        if b.is_conc() and b.conc == 0:
            return a
        if b.is_conc() and b.conc == mask(b.w):
            return self.not_(a)
        if a.is_conc() and a.conc == mask(a.w):
            return self.not_(b)
        return self._bin("WXor", lambda x, y: x ^ y, a, b)

    def and_(self, a, b):
        for x, y in ((a, b), (b, a)):
            if x.is_conc() and x.conc == 0:
                return self.const(x.w, 0)
            if x.is_conc() and x.conc == mask(x.w):
                return y
        return self._bin("WAnd", lambda x, y: x & y, a, b)

    def or_(self, a, b):
        for x, y in ((a, b), (b, a)):
            if x.is_conc() and x.conc == 0:
                return y
            if x.is_conc() and x.conc == mask(x.w):
                return self.const(x.w, mask(x.w))
        return self._bin("WOr", lambda x, y: x | y, a, b)

    def not_(self, a):
        if a.is_conc():
            return self.const(a.w, ~a.conc)
        fa, m = self.acc(a), mask(a.w)
        return self._emit(a.w, "(WNot %s)" % a.ref, lambda ins, tmps: ~fa(ins, tmps) & m)

    def shl(self, a, k):
        if k == 0:
            return a
        if k >= a.w:
            return self.const(a.w, 0)
        if a.is_conc():
            return self.const(a.w, a.conc << k)
        fa, m = self.acc(a), mask(a.w)
        return self._emit(a.w, "(WShl %d %s)" % (k, a.ref), lambda ins, tmps: (fa(ins, tmps) << k) & m)

    def lshr(self, a, k):
        if k == 0:
            return a
        if k >= a.w:
            return self.const(a.w, 0)
        if a.is_conc():
            return self.const(a.w, a.conc >> k)
        fa = self.acc(a)
        return self._emit(a.w, "(WShr %d %s)" % (k, a.ref), lambda ins, tmps: fa(ins, tmps) >> k)

    def rotr(self, a, k):
        k %= a.w
        if k == 0:
            return a
        if a.is_conc():
            return self.const(a.w, (a.conc >> k) | (a.conc << (a.w - k)))
        fa, m, w = self.acc(a), mask(a.w), a.w
        return self._emit(a.w, "(WRotr %d %s)" % (k, a.ref), lambda ins, tmps: ((fa(ins, tmps) >> k) | (fa(ins, tmps) << (w - k))) & m)

    def rotl(self, a, k):
        return self.rotr(a, (a.w - k % a.w) % a.w)

    def zext(self, a, w):
        if w == a.w:
            return a
        if w < a.w:
            raise Stuck("zext to a smaller width")
        if a.is_conc():
            return self.const(w, a.conc)
        fa = self.acc(a)
        return self._emit(w, "(WZext %d %s)" % (w, a.ref), lambda ins, tmps: fa(ins, tmps))

    def trunc(self, a, w):
        if w == a.w:
            return a
        if w > a.w:
            raise Stuck("trunc to a larger width")
        if a.is_conc():
            return self.const(w, a.conc)
        fa, m = self.acc(a), mask(w)
        return self._emit(w, "(WTrunc %d %s)" % (w, a.ref), lambda ins, tmps: fa(ins, tmps) & m)

    def concat(self, hi, lo):
        if hi.is_conc() and lo.is_conc():
            return self.const(hi.w + lo.w, (hi.conc << lo.w) | lo.conc)
        fh, fl, lw = self.acc(hi), self.acc(lo), lo.w
        return self._emit(hi.w + lo.w, "(WConcat %s %s)" % (self.ref(hi), self.ref(lo)), lambda ins, tmps: (fh(ins, tmps) << lw) | fl(ins, tmps))

    def byte_of(self, v, k):
        """bits [8k, 8k+8) of v"""
        return self.trunc(self.lshr(v, 8 * k), 8)

    # arithmetic: concrete only, except x + 0 etc.
    def add(self, a, b):
        if a.is_conc() and b.is_conc():
            return self.const(a.w, a.conc + b.conc)
        raise Stuck("symbolic addition")

    def sub(self, a, b):
        if a.is_conc() and b.is_conc():
            return self.const(a.w, a.conc - b.conc)
        raise Stuck("symbolic subtraction")

    def coq_prog(self, outs):
        return "{| p_body := [%s]; p_outs := [%s] |}" % ("; ".join(self.body), "; ".join(self.ref(o) for o in outs))


class Region:
    """A memory object of known size: bytes are ('v', V8) or ('b', V, k) = byte k of a wider value."""

    def __init__(self, name, size, writable=True):
        self.name, self.size, self.writable = name, size, writable
        self.cells = [None] * size
        self.written = set()

    def check(self, off, n, what):
        if off < 0 or off + n > self.size:
            raise Stuck("out-of-bounds %s of %d byte(s) at offset %d of region %s (size %d)" % (what, n, off, self.name, self.size))


class Memory:
    def __init__(self, b):
        self.b = b
        self.regions = {}

    def add(self, name, size, init=None, symbolic=False, writable=True):
        r = Region(name, size, writable)
        for i in range(size):
            if symbolic:
                r.cells[i] = ("v", self.b.inp(8))
            elif init is not None:
                r.cells[i] = ("v", self.b.const(8, init[i]))
            else:
                r.cells[i] = None          # uninitialised
        self.regions[name] = r
        return r

    def load(self, name, off, nbytes):
        r = self.regions[name]
        r.check(off, nbytes, "read")
        self.b.leak.append(("R", name, off, nbytes))
        cells = r.cells[off:off + nbytes]
        if any(c is None for c in cells):
            raise Stuck("read of uninitialised memory: region %s offset %d" % (name, off))
        # whole-value fast path
        c0 = cells[0]
        if c0[0] == "b" and c0[2] == 0 and c0[1].w == 8 * nbytes and all(c[0] == "b" and c[1] is c0[1] and c[2] == i for i, c in enumerate(cells)):
            return c0[1]
        vals = [self._cell_val(c) for c in cells]
        v = vals[0]
        for x in vals[1:]:
            v = self.b.concat(x, v)          # little-endian: later bytes are more significant
        return v

    def _cell_val(self, c):
        return c[1] if c[0] == "v" else self.b.byte_of(c[1], c[2])

    def store(self, name, off, v):
        nbytes = v.w // 8
        r = self.regions[name]
        r.check(off, nbytes, "write")
        if not r.writable:
            raise Stuck("write to read-only region %s" % name)
        self.b.leak.append(("W", name, off, nbytes))
        for i in range(nbytes):
            r.cells[off + i] = ("v", v) if nbytes == 1 else ("b", v, i)
            r.written.add(off + i)

    def byte_values(self, name):
        r = self.regions[name]
        return [None if c is None else self._cell_val(c) for c in r.cells]


def write_if_changed(path, text):
    """Gen files keep their timestamp when the translation is unchanged, so make does not re-check them."""
    import os
    if os.path.exists(path) and open(path).read() == text:
        return False
    open(path, "w").write(text)
    return True
