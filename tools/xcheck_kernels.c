/* Test kernels for tools/xcheck_asm.py (C18): straight-line code in the shape of the ASCON assembly kernels.
 * The SAME source is (a) compiled natively and executed (reference) and (b) compiled by clang for each target
 * ISA to assembly text, which is then run through the symbolic front ends (asm_arm.py, asm_m68k.py, ...) and
 * evaluated on the same inputs.  A disagreement means a lowering-table entry (or the compiler) is wrong. */
#include <stdint.h>
#define ROR32(x, n) (((x) >> (n)) | ((x) << (32 - (n))))
#define ROR64(x, n) (((x) >> (n)) | ((x) << (64 - (n))))

#define HALF(h, c) do { \
        uint32_t x0 = s[0 + h], x1 = s[2 + h], x2 = s[4 + h], x3 = s[6 + h], x4 = s[8 + h], t0, t1, t2, t3, t4; \
        x2 ^= (c); \
        x0 ^= x4; x4 ^= x3; x2 ^= x1; \
        t0 = ~x0 & x1; t1 = ~x1 & x2; t2 = ~x2 & x3; t3 = ~x3 & x4; t4 = ~x4 & x0; \
        x0 ^= t1; x1 ^= t2; x2 ^= t3; x3 ^= t4; x4 ^= t0; \
        x1 ^= x0; x0 ^= x4; x3 ^= x2; x2 = ~x2; \
        s[0 + h] = x0; s[2 + h] = x1; s[4 + h] = x2; s[6 + h] = x3; s[8 + h] = x4; \
    } while (0)

/* one ASCON round on the bit-interleaved 32-bit representation (s[2i] = even bits, s[2i+1] = odd bits of word i),
 * then a few more operand shapes (or, shifts, masks) */
void k32(uint32_t *s, uint32_t ce, uint32_t co)
{
    uint32_t e, o, t0, t1;
    HALF(0, ce);
    HALF(1, co);
    e = s[0]; o = s[1];
    t0 = e ^ ROR32(o, 4); t1 = o ^ ROR32(e, 5); s[1] = o ^ ROR32(t0, 10); s[0] = e ^ ROR32(t1, 9);
    e = s[2]; o = s[3];
    t0 = e ^ ROR32(e, 11); t1 = o ^ ROR32(o, 11); s[3] = o ^ ROR32(t0, 20); s[2] = e ^ ROR32(t1, 19);
    e = s[4]; o = s[5];
    t0 = e ^ ROR32(o, 2); t1 = o ^ ROR32(e, 3); s[5] = o ^ ROR32(t0, 1); s[4] = e ^ t1;
    e = s[6]; o = s[7];
    t0 = e ^ ROR32(o, 3); t1 = o ^ ROR32(e, 4); s[6] = e ^ ROR32(t0, 5); s[7] = o ^ ROR32(t1, 5);
    e = s[8]; o = s[9];
    t0 = e ^ ROR32(e, 17); t1 = o ^ ROR32(o, 17); s[9] = o ^ ROR32(t0, 4); s[8] = e ^ ROR32(t1, 3);
    s[0] ^= (s[1] << 3) | (s[2] >> 7);
    s[3] = (s[3] & 0x0ff00ff0u) ^ ~s[4];
    s[5] ^= 12;
    s[7] = ~s[7] ^ (s[6] >> 28) ^ (s[8] << 31);
}

/* one ASCON round on 64-bit words as in the AArch64 / x86-64 kernels */
void k64(uint64_t *s, uint64_t c)
{
    uint64_t x0 = s[0], x1 = s[1], x2 = s[2], x3 = s[3], x4 = s[4], t0, t1, t2, t3, t4;
    x2 ^= c;
    x0 ^= x4; x4 ^= x3; x2 ^= x1;
    t0 = ~x0 & x1; t1 = ~x1 & x2; t2 = ~x2 & x3; t3 = ~x3 & x4; t4 = ~x4 & x0;
    x0 ^= t1; x1 ^= t2; x2 ^= t3; x3 ^= t4; x4 ^= t0;
    x1 ^= x0; x0 ^= x4; x3 ^= x2; x2 = ~x2;
    s[0] = x0 ^ ROR64(x0, 19) ^ ROR64(x0, 28);
    s[1] = x1 ^ ROR64(x1, 61) ^ ROR64(x1, 39);
    s[2] = x2 ^ ROR64(x2, 1) ^ ROR64(x2, 6);
    s[3] = x3 ^ ROR64(x3, 10) ^ ROR64(x3, 17);
    s[4] = x4 ^ ROR64(x4, 7) ^ ROR64(x4, 41) ^ (x3 << 5) ^ (x2 >> 9) ^ 0xffffffffffffff0fULL;
}
