"""Word-level arithmetic on symbolic values for the symbolic executor, without
touching symx.py / llvmx.py: `install()` replaces the Builder that llvmx.Exec
instantiates by ArithBuilder and wraps Exec.step.

What is added (all as SSA operations over the existing Wexpr vocabulary
xor/and/or/not/shl/shr, so the emitted program stays a Sym/Wexpr `prog` and the
Python evaluators `Builder.fns` keep working):

  add / sub   Kogge-Stone parallel-prefix adder on whole words:
                g = a & b ; p = a ^ b
                for d in 1,2,4,..  : g |= p & (g << d) ; p &= p << d
                sum = (a ^ b) ^ (g << 1)
              a - b = a + ~b + 1 (carry-in folded into the prefix network:
              the shifted-in propagate bits are ones, carries = ((G|P) << 1) | 1).
              About 5*ceil(log2 w) + 5 operations per addition; no branch, no
              data-dependent shift (shift distances are the constants 1,2,4..).
  ashr        arithmetic shift right of a symbolic word by a CONSTANT amount:
              (a >> k) | (replicated sign bit restricted to the top k bits)
  icmp eq/ne  against anything when one side is symbolic: OR-reduction of the
              xor to one bit (the result is a symbolic i1: a later `br`/`select`
              on it still raises Stuck - only data flow is allowed)
  sext        of a symbolic value: zext | replicated sign bit in the new bits

What is deliberately NOT added: branches, selects, switch, addresses (gep
indices), shift *amounts*, memcpy/memset lengths, mul/div on symbolic values.
They keep raising symx.Stuck: a kernel that needs one of them on a symbolic
(secret) value is reported as not constant-time.

Every control-flow decision - including those inside inlined calls, which
llvmx's inliner does not log - is appended to Builder.leak by the step wrapper
as ("J", function, from-label, to-label).

The adders are cross-checked against Python integers on random and boundary
operands by `selftest()` (run by tools/kern_ct.py on every generation)."""
import re, random
import symx, llvmx
from symx import Builder, V, Stuck, mask


class ArithBuilder(Builder):
    def _prefix(self, a, b, cin):
        """a + b + cin (cin a constant 0/1) by a Kogge-Stone carry network:
        G_i / P_i = generate / propagate of the bit group [0..i]; carry into bit i+1 = G_i | (P_i & cin)."""
        w = a.w
        g = self.and_(a, b)
        p = self.xor(a, b)
        x = p
        d = 1
        while d < w:
            ps = self.shl(p, d)
            if cin:
                ps = self.or_(ps, self.const(w, mask(d)))      # groups reaching below bit 0 propagate the carry-in
            g = self.or_(g, self.and_(p, self.shl(g, d)))
            p = self.and_(p, ps)
            d *= 2
        c = self.or_(g, p) if cin else g
        carries = self.shl(c, 1)
        if cin:
            carries = self.or_(carries, self.const(w, 1))
        return self.xor(x, carries)

    def add(self, a, b):
        if a.w != b.w:
            raise Stuck("width mismatch in add")
        if a.is_conc() and b.is_conc():
            return self.const(a.w, a.conc + b.conc)
        for x, y in ((a, b), (b, a)):
            if x.is_conc() and x.conc == 0:
                return y
        return self._prefix(a, b, 0)

    def sub(self, a, b):
        if a.w != b.w:
            raise Stuck("width mismatch in sub")
        if a.is_conc() and b.is_conc():
            return self.const(a.w, a.conc - b.conc)
        if b.is_conc() and b.conc == 0:
            return a
        return self._prefix(a, self.not_(b), 1)

    def replicate_bit(self, a, k):
        """a word of a's width whose every bit equals bit k of a"""
        w = a.w
        t = self.and_(self.lshr(a, k), self.const(w, 1))
        d = 1
        while d < w:
            t = self.or_(t, self.shl(t, d))
            d *= 2
        return t

    def ashr(self, a, k):
        w = a.w
        if a.is_conc():
            sv = a.conc - (1 << w) if a.conc >> (w - 1) else a.conc
            return self.const(w, sv >> min(k, w))
        if k == 0:
            return a
        k = min(k, w - 1) if k >= w else k
        sign = self.replicate_bit(a, w - 1)
        hi = self.and_(sign, self.const(w, mask(k) << (w - k)))
        return self.or_(self.lshr(a, k), hi)

    def sext(self, a, w2):
        if a.is_conc():
            sv = a.conc - (1 << a.w) if a.conc >> (a.w - 1) else a.conc
            return self.const(w2, sv)
        z = self.zext(a, w2)
        sign = self.replicate_bit(z, a.w - 1)
        return self.or_(z, self.and_(sign, self.const(w2, mask(w2) ^ mask(a.w))))

    def is_zero_bit(self, a):
        """i1: 1 iff a == 0 (OR-reduce, then invert)"""
        w = a.w
        t = a
        d = 1
        while d < w:
            t = self.or_(t, self.lshr(t, d))
            d *= 2
        return self.not_(self.trunc(t, 1)) if w > 1 else self.not_(t)


class PoisonV(V):
    """An undef/poison operand (typically the unused arm of a phi).  llvmx raises Stuck as soon as such an
    operand is *read*; LLVM only makes its *use* undefined.  This value may be copied (phi, select arm) but any
    operation on it, any store of it and any test of it raises Stuck."""
    __slots__ = ()

    def __init__(self, w):
        V.__init__(self, w, None, None)

    def is_conc(self):
        return False

    @property
    def ref(self):
        raise Stuck("use of undef/poison")

    @ref.setter
    def ref(self, x):
        pass


_installed = False


def install():
    """Make llvmx.Exec use ArithBuilder and understand ashr / icmp eq,ne / sext on symbolic
    words; log every jump (also inside inlined callees) into Builder.leak."""
    global _installed
    if _installed:
        return
    _installed = True
    llvmx.Builder = ArithBuilder
    orig_step = llvmx.Exec.step

    def step(self, ins, label):
        b = self.b
        m = re.match(r"^(%[\w.$]+) = (.*)$", ins)
        dst, rhs = (m.group(1), m.group(2)) if m else (None, ins)
        op = rhs.split()[0]
        if op == "ashr":
            mm = re.match(r"^\w+ (?:(?:nuw|nsw|exact|disjoint) )*(\S+) ([^,]+), (.+)$", rhs)
            ty = llvmx.parse_type(mm.group(1), None)
            a, c = self.val(ty, mm.group(2)), self.val(ty, mm.group(3))
            if isinstance(a, V) and not a.is_conc():
                self.env[dst] = b.ashr(a, self.conc(c, "shift amount"))
                return None
        elif op == "icmp":
            mm = re.match(r"^icmp (\w+) (\S+) ([^,]+), (.+)$", rhs)
            ty = llvmx.parse_type(mm.group(2), None)
            a, c = self.val(ty, mm.group(3)), self.val(ty, mm.group(4))
            if mm.group(1) in ("eq", "ne") and isinstance(a, V) and isinstance(c, V) and not (a.is_conc() and c.is_conc()):
                z = b.is_zero_bit(b.xor(a, c))
                self.env[dst] = z if mm.group(1) == "eq" else b.not_(z)
                return None
        elif op == "sext":
            body = rhs[len(op) + 1:]
            t1s, rest = self.mod.split_type_prefix(body)
            vs, t2s = rest.rsplit(" to ", 1)
            ty, ty2 = llvmx.parse_type(t1s, None), llvmx.parse_type(t2s.strip(), None)
            a = self.val(ty, vs)
            if isinstance(a, V) and not a.is_conc():
                self.env[dst] = b.sext(a, ty2[1])
                return None
        nxt = orig_step(self, ins, label)
        if nxt is not None:
            self.b.leak.append(("J", self.f.name, label, nxt))
        return nxt

    llvmx.Exec.step = step
    orig_val = llvmx.Exec.val

    def val(self, ty, tok):
        if tok.strip() in ("undef", "poison"):
            return PoisonV(ty[1] if ty[0] == "int" else 64)
        return orig_val(self, ty, tok)

    llvmx.Exec.val = val


def selftest(seed=1, n=300):
    """adders / ashr / sext / is_zero against Python integers; returns the number of cases checked"""
    rng = random.Random(seed)
    cases = 0
    for w in (8, 16, 32, 64):
        edge = [0, 1, mask(w), mask(w) - 1, 1 << (w - 1), (1 << (w - 1)) - 1, 0x55555555_55555555 & mask(w), 0xAAAAAAAA_AAAAAAAA & mask(w)]
        pairs = [(x, y) for x in edge for y in edge] + [(rng.getrandbits(w), rng.getrandbits(w)) for _ in range(n)]
        b = ArithBuilder()
        x, y = b.inp(w), b.inp(w)
        outs = [b.add(x, y), b.sub(x, y), b.add(x, b.const(w, mask(w))), b.sub(b.const(w, 0), y),
                b.ashr(x, 1), b.ashr(x, w // 2), b.ashr(x, w - 1), b.zext(b.is_zero_bit(x), w),
                b.trunc(b.sext(x, 2 * w), w), b.trunc(b.lshr(b.sext(x, 2 * w), w), w)]
        for (p, q) in pairs:
            got = b.evaluate([p, q], outs)
            sp = p - (1 << w) if p >> (w - 1) else p
            exp = [(p + q) & mask(w), (p - q) & mask(w), (p - 1) & mask(w), (-q) & mask(w),
                   (sp >> 1) & mask(w), (sp >> (w // 2)) & mask(w), (sp >> (w - 1)) & mask(w), int(p == 0),
                   p, (mask(w) if sp < 0 else 0)]
            if got != exp:
                raise AssertionError("symx_arith selftest failed: w=%d p=%#x q=%#x got=%s exp=%s" % (w, p, q, got, exp))
            cases += 1
    return cases


if __name__ == "__main__":
    print("symx_arith selftest: %d operand pairs x 10 operations ok" % selftest())
