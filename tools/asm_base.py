"""Shared machinery of the assembly front ends for the non-host ISAs (C18):
preprocessing with emulated target macros, a syntax-neutral statement parser,
and the machine base class (registers that hold bit-vectors or abstract
pointers / code addresses, byte memory with a modelled stack, cuts into
segments at local labels, ABI / frame facts).  The per-ISA modules
(asm_arm.py, asm_i386.py, asm_m68k.py) add the operand syntax and the lowering
table - one entry per mnemonic that occurs in the checked-in files.  Those
tables are the trusted part: no cross assembler or emulator is available to
validate them against hardware."""
import re, subprocess, hashlib, json, os
from symx import Builder, Memory, V, Stuck, mask
from llvmx import Ptr, Segment


class LabelAddr:
    """address of a code label (+ byte delta, only used for tables)"""
    def __init__(self, name, delta=0):
        self.name, self.delta = name, delta

    def __repr__(self):
        return "&%s%+d" % (self.name, self.delta)


class LabelDiff:
    """the link-time constant  a - b  of two labels (jump-table entry)"""
    def __init__(self, a, b):
        self.a, self.b = a, b

    def __repr__(self):
        return "%s-%s" % (self.a, self.b)


class RetAddr:
    """a return address: idx = item index to continue at, -1 = the caller of the function under test"""
    def __init__(self, idx):
        self.idx = idx

    def __repr__(self):
        return "ret@%d" % self.idx


# ------------------------------------------------------------------ preprocessing
def preprocess(path, incs=(), defs=()):
    """gcc -E with all host target macros removed (-undef) and the target's macros given explicitly, so that
    ascon-select-backend.h and the file's own #if select what the target compiler would select."""
    cmd = ["gcc", "-E", "-undef", "-D__ELF__", "-x", "assembler-with-cpp"] + ["-I" + i for i in incs] + ["-D" + d for d in defs] + [path]
    p = subprocess.run(cmd, stdout=subprocess.PIPE, stderr=subprocess.PIPE)
    if p.returncode != 0:
        raise Stuck("gcc -E failed: " + p.stderr.decode()[-500:])
    return p.stdout.decode()


def split_ops(s):
    out, depth, cur = [], 0, ""
    for ch in s:
        if ch in "([{":
            depth += 1
        elif ch in ")]}":
            depth -= 1
        if ch == "," and depth == 0:
            out.append(cur.strip()); cur = ""
        else:
            cur += ch
    if cur.strip():
        out.append(cur.strip())
    return out


DATA_DIRECTIVES = {".word": 4, ".long": 4, ".4byte": 4, ".quad": 8, ".8byte": 8, ".xword": 8}


def parse(text, main_file=None):
    """-> items, tables, directives
    items: ('label', name) | ('ins', mnemonic, [operands], source line) | ('data', value, size)   (code section only)
    tables: label -> list of LabelDiff/int for the data words that follow a label (in any section)
    directives: list of (name, args)"""
    items, tables, directives = [], {}, []
    section = ".text"
    cur_label = None
    lineno, in_main = 0, True
    for raw in text.split("\n"):
        m = re.match(r'^#\s*(\d+)\s+"([^"]*)"', raw)
        if m:
            lineno = int(m.group(1)) - 1
            in_main = main_file is None or os.path.basename(m.group(2)) == os.path.basename(main_file)
            continue
        lineno += 1
        line = raw.strip()
        if not line or line.startswith("#"):          # '#NO_APP' and friends
            continue
        for part in line.split(";"):
            part = part.strip()
            if not part:
                continue
            m = re.match(r"^([.\w$]+):\s*(.*)$", part)
            if m:
                name = m.group(1)
                if section == ".text":
                    items.append(("label", name))
                cur_label = name
                tables[name] = []
                part = m.group(2).strip()
                if not part:
                    continue
            if part.startswith("."):
                toks = part.split(None, 1)
                d, args = toks[0], (toks[1] if len(toks) > 1 else "")
                directives.append((d, args))
                if d == ".text":
                    section = ".text"
                elif d == ".section":
                    sec = args.split(",")[0].strip()
                    section = ".text" if sec == ".text" else sec
                elif d in (".data", ".rodata", ".bss"):
                    section = d
                elif d in DATA_DIRECTIVES:
                    for a in split_ops(args):
                        mm = re.match(r"^([.\w$]+)\s*-\s*([.\w$]+)$", a)
                        try:
                            val = LabelDiff(mm.group(1), mm.group(2)) if mm else int(a, 0)
                        except ValueError:
                            val = a
                        if cur_label is not None:
                            tables[cur_label].append(val)
                        if section == ".text":
                            items.append(("data", val, DATA_DIRECTIVES[d]))
                continue
            toks = part.split(None, 1)
            ops = split_ops(toks[1]) if len(toks) > 1 else []
            if section == ".text":
                items.append(("ins", toks[0].lower(), ops, lineno))
            cur_label = None
    return items, tables, directives


def function_items(items, entry):
    """the items of one function: from its label to the next global (non-local) label"""
    start = None
    for i, it in enumerate(items):
        if it[0] == "label" and it[1] == entry:
            start = i
        elif it[0] == "label" and start is not None and not it[1].startswith(".L") and i > start:
            return items[start:i]
    return items[start:] if start is not None else []


def histogram(items, entry):
    h = {}
    for it in function_items(items, entry):
        if it[0] == "ins":
            h[it[1]] = h.get(it[1], 0) + 1
    return h


def signed(n, w):
    n &= mask(w)
    return n - (1 << w) if n >> (w - 1) else n


class MemoryBE(Memory):
    """byte memory accessed by a big-endian CPU: the first byte of a word is the most significant"""

    def load(self, name, off, nbytes):
        r = self.regions[name]
        r.check(off, nbytes, "read")
        self.b.leak.append(("R", name, off, nbytes))
        cells = r.cells[off:off + nbytes]
        if any(c is None for c in cells):
            raise Stuck("read of uninitialised memory: region %s offset %d" % (name, off))
        c0 = cells[0]
        if c0[0] == "b" and c0[1].w == 8 * nbytes and all(c[0] == "b" and c[1] is c0[1] and c[2] == nbytes - 1 - i for i, c in enumerate(cells)):
            return c0[1]
        vals = [self._cell_val(c) for c in cells]
        v = vals[0]
        for x in vals[1:]:
            v = self.b.concat(v, x)          # big-endian: later bytes are less significant
        return v

    def store(self, name, off, v):
        nbytes = v.w // 8
        r = self.regions[name]
        r.check(off, nbytes, "write")
        if not r.writable:
            raise Stuck("write to read-only region %s" % name)
        self.b.leak.append(("W", name, off, nbytes))
        for i in range(nbytes):
            r.cells[off + i] = ("v", v) if nbytes == 1 else ("b", v, nbytes - 1 - i)
            r.written.add(off + i)


class Machine:
    """Symbolic execution of one function of a parsed .S file (base class).

    regs_init: reg -> ('ptr', region, off) | ('int', value) ; unspecified registers are fresh symbolic inputs.
    stack_args: values pushed by the caller (first = lowest address), each ('ptr', region, off) | ('int', value).
    regions: like llvmx.Exec.  cut: predicate on label names where the run is cut into segments."""
    W = 32
    REGS = []
    SP = "sp"
    CALLEE_SAVED = []
    BIG_ENDIAN = False
    RET_ON_STACK = False          # the caller's return address is on the stack at entry (x86, m68k) or in a link register (ARM)
    LINK_REG = None
    HEADROOM = 64                 # bytes of the caller's frame modelled above the entry stack pointer (must never be touched)

    def __init__(self, items, tables, entry, regs_init, regions, cut=None, stack_size=1024, stack_args=()):
        self.items, self.tables = items, tables
        self.labels = {it[1]: i for i, it in enumerate(items) if it[0] == "label"}
        if entry not in self.labels:
            raise Stuck("function %s not found (wrong preprocessor profile?)" % entry)
        self.b = Builder()
        self.mem = (MemoryBE if self.BIG_ENDIAN else Memory)(self.b)
        self.region_order = []
        self.seg_in_desc = []
        for name, spec in regions.items():
            self.mem.add(name, spec["size"], init=spec.get("init"), symbolic=spec.get("symbolic", False), writable=spec.get("writable", True))
            self.region_order.append(name)
            if spec.get("symbolic"):
                self.seg_in_desc += [("mem", name, i) for i in range(spec["size"])]
        self.mem.add("stack", stack_size)
        self.stack_size = stack_size
        self.wb = self.W // 8
        self.objs = {}          # stack slots holding non-bit-vector objects (pointers, return addresses)
        # caller's side of the stack: [entry sp] (return address) args... headroom
        top = stack_size - self.HEADROOM
        nslots = len(stack_args) + (1 if self.RET_ON_STACK else 0)
        self.entry_sp = top - nslots * self.wb
        off = self.entry_sp
        if self.RET_ON_STACK:
            self.objs[off] = RetAddr(-1); off += self.wb
        for ai, a in enumerate(stack_args):
            if a[0] == "ptr":
                self.objs[off] = Ptr(a[1], a[2])
            elif a[0] == "sym":
                self.mem.store("stack", off, self.b.inp(self.W))
                self.seg_in_desc.append(("reg", "stackarg%d" % ai, self.W))
            else:
                self.mem.store("stack", off, self.b.const(self.W, a[1]))
            off += self.wb
        self.args_end = off
        self.store_limit = self.entry_sp + (self.wb if self.RET_ON_STACK else 0)
        self.regs, self.init_regs = {}, {}
        for r in self.REGS:
            if r == self.SP:
                self.regs[r] = Ptr("stack", self.entry_sp)
            elif r == self.LINK_REG:
                self.regs[r] = RetAddr(-1)
            else:
                spec = regs_init.get(r, ("sym",))
                if spec[0] == "ptr":
                    self.regs[r] = Ptr(spec[1], spec[2])
                elif spec[0] == "int":
                    self.regs[r] = self.b.const(self.W, spec[1])
                elif spec[0] == "arg8":
                    # an 8-bit argument in a wider register whose upper bits the ABI leaves unspecified (AAPCS64): a fresh symbolic
                    # word; only an explicit masking instruction (front end) turns it into the constant
                    self.regs[r] = self.b.inp(self.W)
                    self.seg_in_desc.append(("reg", r, self.W))
                    if not hasattr(self, "narrow_args"):
                        self.narrow_args = {}
                    self.narrow_args[r] = (self.regs[r], spec[1])
                else:
                    self.regs[r] = self.b.inp(self.W)
                    self.seg_in_desc.append(("reg", r, self.W))
            self.init_regs[r] = self.regs[r]
        self.b.leak = []          # the set-up stores are not part of the function's trace
        self.cut = cut
        self.segments = []
        self.flags = None
        self.pc = self.labels[entry]
        self.min_sp = self.entry_sp
        self.steps = 0
        self.done = False
        self.cut_labels_seen = []
        self.regs_written = set()
        self.leak_all = []

    # ---- registers
    def setreg(self, name, v):
        if isinstance(v, V) and v.w != self.W:
            raise Stuck("internal: register %s written with a %d-bit value" % (name, v.w))
        self.regs[name] = v
        self.regs_written.add(name)
        if name == self.SP:
            if not isinstance(v, Ptr) or v.region != "stack":
                raise Stuck("stack pointer loaded with a non-stack value")
            if v.off < 0:
                raise Stuck("stack overflow in the model")
            if v.off > self.args_end:
                raise Stuck("stack pointer moved above the caller's arguments")
            self.min_sp = min(self.min_sp, v.off)

    def conc(self, v, what):
        if not isinstance(v, V) or not v.is_conc():
            raise Stuck("data-dependent " + what)
        return v.conc

    # ---- memory (addresses are abstract: region + concrete offset)
    def check_stack(self, off, n, write):
        sp = self.regs[self.SP]
        if off < sp.off:
            raise Stuck("stack access below the stack pointer (outside the function's frame): offset %d, sp %d" % (off - self.entry_sp, sp.off - self.entry_sp))
        lim = self.store_limit if write else self.args_end
        if off + n > lim:
            raise Stuck("stack %s above the function's own frame (entry sp %+d)" % ("write" if write else "read", off - self.entry_sp))

    def mem_load(self, p, nbytes):
        if isinstance(p, LabelAddr):
            ent = self.tables.get(p.name)
            i, rem = divmod(p.delta, self.wb)
            if ent is None or rem or nbytes != self.wb or i < 0 or i >= len(ent):
                raise Stuck("table access out of range: %r" % p)
            self.b.leak.append(("T", p.name, p.delta))
            e = ent[i]
            return self.b.const(self.W, e) if isinstance(e, int) else e
        if not isinstance(p, Ptr):
            raise Stuck("data-dependent address (base is not a pointer)")
        if p.region is None:
            raise Stuck("null pointer dereference")
        if p.region == "stack":
            self.check_stack(p.off, nbytes, False)
            if nbytes == self.wb and self.objs.get(p.off) is not None:
                self.b.leak.append(("R", "stack", p.off - self.entry_sp, nbytes))
                return self.objs[p.off]
            for k in range(p.off - self.wb + 1, p.off + nbytes):
                if self.objs.get(k) is not None:
                    raise Stuck("partial read of a stored pointer")
        return self.mem.load(p.region, p.off, nbytes)

    def mem_store(self, p, v):
        if not isinstance(p, Ptr):
            raise Stuck("data-dependent address or store to code (base is not a pointer)")
        if p.region is None:
            raise Stuck("null pointer dereference")
        n = v.w // 8 if isinstance(v, V) else self.wb
        if p.region == "stack":
            self.check_stack(p.off, n, True)
            for k in range(p.off - self.wb + 1, p.off + n):
                if k in self.objs:
                    self.objs[k] = None
        if not isinstance(v, V):
            if p.region != "stack":
                raise Stuck("pointer/code address stored outside the stack")
            self.mem.regions["stack"].check(p.off, n, "write")
            self.b.leak.append(("W", "stack", p.off - self.entry_sp, n))
            for k in range(n):
                self.mem.regions["stack"].cells[p.off + k] = None
            self.objs[p.off] = v
            return
        self.mem.store(p.region, p.off, v)

    def push(self, v):
        sp = self.regs[self.SP]
        self.setreg(self.SP, Ptr("stack", sp.off - self.wb))
        self.mem_store(self.regs[self.SP], v)

    def pop(self):
        sp = self.regs[self.SP]
        v = self.mem_load(sp, self.wb)
        self.setreg(self.SP, Ptr("stack", sp.off + self.wb))
        return v

    # ---- pointer / label arithmetic shared by add/sub lowerings
    def add_values(self, d, s, sub=False):
        """d + s (or d - s): pointers and labels move by concrete amounts; label differences resolve against their base"""
        if isinstance(d, Ptr) and isinstance(s, V):
            n = signed(self.conc(s, "pointer arithmetic"), self.W)
            return Ptr(d.region, d.off + (-n if sub else n))
        if isinstance(s, Ptr) and isinstance(d, V) and not sub:
            return Ptr(s.region, s.off + signed(self.conc(d, "pointer arithmetic"), self.W))
        if not sub and isinstance(d, LabelDiff) and isinstance(s, LabelAddr) and d.b == s.name and s.delta == 0:
            return LabelAddr(d.a)
        if not sub and isinstance(d, LabelAddr) and isinstance(s, LabelDiff) and s.b == d.name and d.delta == 0:
            return LabelAddr(s.a)
        if isinstance(d, LabelAddr) and isinstance(s, V):
            n = signed(self.conc(s, "code address arithmetic"), self.W)
            return LabelAddr(d.name, d.delta + (-n if sub else n))
        if isinstance(s, LabelAddr) and isinstance(d, V) and not sub:
            return LabelAddr(s.name, s.delta + signed(self.conc(d, "code address arithmetic"), self.W))
        if isinstance(d, V) and isinstance(s, V):
            x, y = self.conc(d, "addition/subtraction"), self.conc(s, "addition/subtraction")
            return self.b.const(self.W, x - y if sub else x + y)
        raise Stuck("address arithmetic does not resolve (%r, %r)" % (d, s))

    # ---- cut
    def do_cut(self, label):
        """close the current segment: every live symbolic value (registers in REGS order, then memory) becomes one output
        of this segment and one input of the next.  A value held in several places (a register and its copy, a register
        and the stack slot it was spilled to) travels ONCE and is bound to all of them: the copies are equal by
        construction, and the interface stays free of ambiguity about which copy carries a state word."""
        iface_vals, iface_desc, binds, index = [], [], [], {}

        def add(v, desc, bind):
            key = (v.w, v.ref)
            if key not in index:
                index[key] = len(iface_vals)
                iface_vals.append(v); iface_desc.append(desc); binds.append([])
            binds[index[key]].append(bind)

        for r in self.REGS:
            v = self.regs[r]
            if isinstance(v, V) and not v.is_conc():
                add(v, ("reg", r, self.W), ("reg", r))
        n = self.wb
        word_order = [n - 1 - k for k in range(n)] if self.BIG_ENDIAN else list(range(n))
        for rn in sorted(self.mem.regions):
            reg = self.mem.regions[rn]
            if not reg.writable:
                continue
            i = 0
            while i < reg.size:
                c = reg.cells[i]
                if c is None:
                    i += 1
                    continue
                # a whole register-sized word stored by one instruction travels as one interface variable
                if c[0] == "b" and c[1].w == self.W and not c[1].is_conc() and i + n <= reg.size and \
                        all(reg.cells[i + k] is not None and reg.cells[i + k][0] == "b" and reg.cells[i + k][1] is c[1] for k in range(n)) and \
                        [reg.cells[i + k][2] for k in range(n)] == word_order:
                    add(c[1], ("memw", "%s+%d" % (rn, i), self.W), ("memw", rn, i))
                    i += n
                    continue
                bv = self.mem._cell_val(c)
                if not bv.is_conc():
                    add(bv, ("mem", rn, i), ("mem", rn, i))
                i += 1
        self.segments.append(Segment(self.b, self.seg_in_desc, iface_vals, iface_desc))
        self.leak_all += self.b.leak
        nb = Builder()
        self.b = nb
        self.mem.b = nb
        for bds, v in zip(binds, iface_vals):
            nv = nb.inp(v.w)
            for bd in bds:
                if bd[0] == "reg":
                    self.regs[bd[1]] = nv
                elif bd[0] == "memw":
                    for k in range(n):
                        self.mem.regions[bd[1]].cells[bd[2] + k] = ("b", nv, word_order[k])
                else:
                    self.mem.regions[bd[1]].cells[bd[2]] = ("v", nv)
        # initial register values are no longer nameable across a cut (the ABI facts come from an uncut run)
        self.seg_in_desc = iface_desc
        self.flags = None
        self.cut_labels_seen.append(label)

    # ---- run
    def run(self, max_steps=400000):
        while not self.done:
            if self.pc >= len(self.items):
                raise Stuck("execution ran off the end of the file")
            it = self.items[self.pc]
            self.pc += 1
            if it[0] == "label":
                if self.cut and self.cut(it[1]):
                    self.do_cut(it[1])
                continue
            if it[0] == "data":
                raise Stuck("execution fell into a data word")
            self.steps += 1
            if self.steps > max_steps:
                raise Stuck("step limit exceeded")
            self.cur_line = it[3]
            try:
                self.step(it[1], it[2])
            except Stuck as ex:
                raise Stuck("line %d: %s %s: %s" % (it[3], it[1], ", ".join(it[2]), ex))
        outs, desc = [], []
        for rn in self.region_order:
            r = self.mem.regions[rn]
            if not r.writable:
                continue
            for i, c in enumerate(r.cells):
                outs.append(None if c is None else self.mem._cell_val(c)); desc.append(("mem", rn, i))
        self.final_regs = dict(self.regs)
        self.segments.append(Segment(self.b, self.seg_in_desc, outs, desc))
        self.leak_all += self.b.leak
        return self.segments

    def jump(self, label):
        if label not in self.labels:
            raise Stuck("jump to unknown label " + label)
        self.b.leak.append(("J", label))
        self.pc = self.labels[label]      # the label item itself is processed (cut) on arrival

    def jump_value(self, t):
        if isinstance(t, RetAddr):
            self.b.leak.append(("J", "return", t.idx))
            if t.idx < 0:
                self.done = True
            else:
                self.pc = t.idx
        elif isinstance(t, LabelAddr) and t.delta == 0:
            self.jump(t.name)
        else:
            raise Stuck("data-dependent or unresolved indirect jump")

    def step(self, op, ops):
        raise NotImplementedError

    # ---- conditions on a concrete comparison  (x - y), width W
    def cond(self, cc):
        if self.flags is None or self.flags[0] != "cmp":
            raise Stuck("conditional branch without a preceding comparison of concrete values (data-dependent flags)")
        x, y, w = self.flags[1], self.flags[2], self.flags[3]
        sx, sy = signed(x, w), signed(y, w)
        tab = {"eq": x == y, "ne": x != y, "hi": x > y, "ls": x <= y, "hs": x >= y, "lo": x < y, "cs": x >= y, "cc": x < y,
               "ge": sx >= sy, "lt": sx < sy, "gt": sx > sy, "le": sx <= sy, "mi": signed(x - y, w) < 0, "pl": signed(x - y, w) >= 0}
        if cc not in tab:
            raise Stuck("unsupported condition " + cc)
        self.b.leak.append(("C", cc, tab[cc]))
        return tab[cc]

    # ---- ABI / frame facts of a finished, UNCUT run
    def abi_facts(self):
        bad = []
        for r in self.CALLEE_SAVED:
            i, f = self.init_regs[r], self.final_regs[r]
            same = (isinstance(i, V) and isinstance(f, V) and i.w == f.w and ((i.is_conc() and f.is_conc() and i.conc == f.conc) or (not i.is_conc() and not f.is_conc() and i.ref == f.ref))) or \
                   (isinstance(i, Ptr) and isinstance(f, Ptr) and i.region == f.region and i.off == f.off) or \
                   (isinstance(i, RetAddr) and isinstance(f, RetAddr) and i.idx == f.idx)
            if not same:
                bad.append(r)
        # information for C13: caller-visible registers that still hold a computed (state-derived) value at return
        residual = []
        entry_refs = set(i.ref for i in self.init_regs.values() if isinstance(i, V) and not i.is_conc())
        for r in self.REGS:
            f = self.final_regs[r]
            if isinstance(f, V) and not f.is_conc() and f.ref not in entry_refs:
                residual.append(r)
        sp = self.final_regs[self.SP]
        exp_sp = self.entry_sp + (self.wb if self.RET_ON_STACK else 0)
        sp_ok = isinstance(sp, Ptr) and sp.region == "stack" and sp.off == exp_sp
        return {"callee_saved_bad": bad, "sp_restored": sp_ok, "frame_bytes": self.entry_sp - self.min_sp,
                "steps": self.steps, "regs_written": sorted(self.regs_written), "residual_regs": residual,
                "leak_hash": hashlib.sha256(repr(self.leak_all).encode()).hexdigest()[:16]}


def kern_runs(name, layout, make, cut, items, entry, json_dir, extra=None):
    """provider for kern_perm.run_backend: returns (layout, one) ; one(k) runs the function cut into segments for the
    Coq check and once more uncut for the ABI / frame facts, which are collected in build/kern/<name>.json ; a violated
    ABI fact raises Stuck and so surfaces as a 'MISSING kern_perm <name>: first_round=k: ...' line."""
    facts = {"name": name, "layout": layout, "mnemonics": histogram(items, entry), "callee_saved_ok": True, "per_first_round": {}}
    facts.update(extra or {})

    def flush():
        os.makedirs(json_dir, exist_ok=True)
        with open(os.path.join(json_dir, name + ".json"), "w") as f:
            json.dump(facts, f, indent=1, sort_keys=True)

    def one(k):
        try:
            m = make(k, None)
            m.run()
            a = m.abi_facts()
            facts["per_first_round"][str(k)] = a
            facts["frame_bytes"] = max(facts.get("frame_bytes", 0), a["frame_bytes"])
            if a["callee_saved_bad"] or not a["sp_restored"]:
                facts["callee_saved_ok"] = False
                raise Stuck("ABI: at return %s" % "; ".join((["callee-saved register(s) %s do not hold their entry values" % ", ".join(a["callee_saved_bad"])] if a["callee_saved_bad"] else []) +
                                                              ([] if a["sp_restored"] else ["the stack pointer is not restored"])))
            mc = make(k, cut)
            segs = mc.run()
            a["segments"] = len(segs)
            a["cut_labels"] = mc.cut_labels_seen
            return segs
        except Stuck as ex:
            facts["per_first_round"].setdefault(str(k), {})["error"] = str(ex)
            facts["callee_saved_ok"] = facts["callee_saved_ok"] and not str(ex).startswith("ABI")
            raise
        finally:
            flush()
    return layout, one
