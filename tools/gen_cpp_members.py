#!/usr/bin/env python3
"""C17, "compiles when used": the table of every documented public/protected
member and overload of the C++ API of ascon-suite (src/ascon/{aead,aead-masked,
siv,isap,hash,xof,utility}.h, `namespace ascon`), and a generator that emits
one small translation unit per member group (= one class instantiation x one
member name, holding one function per overload / call form).

The table is written by hand from the Doxygen comments of the headers.  So
that it cannot silently go stale, `inventory()` re-derives the list of
non-private, non-implicit declarations of namespace ascon from clang's AST of
the *current* headers and `crosscheck()` compares the two in both directions
(a documented member missing from the table, or a table row whose declaration
no longer exists, is reported by the check).

Variants of the headers (VARIANTS below): "stl" (default build), "nostl"
(-DASCON_NO_STL: ascon::byte_array is the library's own class, no std::string
overloads, no bytes_to_hex) and "arduino" (-DARDUINO=<version>, which makes
utility.h define ASCON_NO_STL itself and adds `String` overloads; compiled on
the host against the minimal stub harness/arduino_stub/{Arduino.h,WString.h}).
Rows flagged "stl" exist only in the first, rows flagged "arduino" only in the
last, rows flagged "nostl" (the members of class ascon::byte_array) in the last
two.

  gen_cpp_members.py --list [VARIANT]                 print the table
  gen_cpp_members.py --emit DIR [VARIANT]             write the TUs into DIR
  gen_cpp_members.py --crosscheck [REPO] [VARIANT]    compare with clang's AST
"""
import os, sys, json, re, subprocess

HEADERS = ["aead.h", "aead-masked.h", "siv.h", "isap.h", "hash.h", "xof.h", "utility.h"]
XOF_LENGTHS = [0, 1, 16, 32, 64]          # template arguments instantiated (0 = arbitrary length)

_HERE = os.path.dirname(os.path.dirname(os.path.abspath(__file__)))
ARDUINO_STUB = os.path.join(_HERE, "harness", "arduino_stub")
# variant -> preprocessor definitions, extra include directories (after -I<repo>/src)
VARIANTS = {
    "stl": {"defs": [], "incdirs": [], "what": "default build: ascon::byte_array = std::vector<unsigned char>, std::string overloads"},
    "nostl": {"defs": ["-DASCON_NO_STL"], "incdirs": [],
              "what": "-DASCON_NO_STL: ascon::byte_array is the library's own class; no std::string overloads, no bytes_to_hex"},
    "arduino": {"defs": ["-DARDUINO=10819"], "incdirs": [ARDUINO_STUB],
                "what": "-DARDUINO=10819 (utility.h then defines ASCON_NO_STL itself): String overloads; host compilers against the "
                        "minimal STUB <Arduino.h>/<WString.h> of harness/arduino_stub (not the real Arduino core)"},
}


def variant_flags(variant, repo):
    v = VARIANTS[variant]
    return list(v["defs"]) + ["-I" + os.path.join(repo, "src")] + ["-I" + d for d in v["incdirs"]]

# ---------------------------------------------------------------------------
# The table.  A row is (member name, clang qualType of the declaration,
# [(label, statements using it)], flags).  In the statements: T = the class,
# `o` = an object of it, K = key size.  Each use becomes its own function.

PRE_CIPHER = ("static unsigned char k[%(K)d] = {1, 2, 3};\n"
              "    static unsigned char n16[16] = {9}; static unsigned char m[40] = {7}; static unsigned char ad[5] = {5};\n"
              "    static unsigned char c[56]; static unsigned char p[40];\n"
              "    ascon::byte_array bm(m, m + 40); ascon::byte_array bad(ad, ad + 5); ascon::byte_array bc, bp;\n"
              "    (void)k; (void)n16; (void)c; (void)p;\n")

SIG_PTR = "int (unsigned char *, const unsigned char *, size_t, const unsigned char *, size_t)"
SIG_BA2 = "(ascon::byte_array &, const ascon::byte_array &)"
SIG_BA3 = "(ascon::byte_array &, const ascon::byte_array &, const ascon::byte_array &)"


def cipher_rows(T, base, isap=False, masked=False):
    """Rows of one concrete cipher class; inherited members of ascon::aead are
    used through the concrete class (that is how the documentation's examples
    use them) and through a reference to the base."""
    B = "ascon::" + base
    rows = []
    if isap:
        keyctor = ("%s" % T, "void (const unsigned char *, size_t)", [
            ("key-len", "T o(k, sizeof(k)); (void)o;"),
            ("zero-len-null", "T o(0, 0); (void)o;"),
            ("saved-key", "T a(k, sizeof(k)); unsigned char s[ASCON_ISAP_SAVED_KEY_SIZE]; a.save_key(s); T o(s, sizeof(s)); (void)o;"),
            ("new-delete", "ascon::aead *b = new T(k, sizeof(k)); delete b;"),
        ])
    else:
        keyctor = ("%s" % T, "void (const unsigned char *)", [
            ("key", "T o(k); (void)o;"),
            ("null", "T o((const unsigned char *)0); (void)o;"),
            ("new-delete", "ascon::aead *b = new T(k); delete b;"),
        ])
    rows += [
        (T, "void ()", [("default", "T o; (void)o;"), ("new-delete", "T *q = new T(); delete q;"),
                        ("new-delete-base", "%s *b = new T(); delete b;" % B)]),
        keyctor,
        ("~" + T, "void () noexcept", [("scope", "{ T o; (void)o; }"), ("explicit", "T *q = new T; q->~T(); ::operator delete(q);"),
                                       ("via-aead", "ascon::aead *b = new T; delete b;")]),
    ]
    if isap:
        rows.append(("save_key", "void (unsigned char *)",
                     [("array", "T o; unsigned char s[ASCON_ISAP_SAVED_KEY_SIZE]; o.save_key(s);")]))
    for nm in ("key_size", "tag_size", "nonce_size"):
        rows.append((nm, "size_t () const", [
            ("object", "T o; size_t r = o.%s(); (void)r;" % nm),
            ("const-ref", "T o; const T &cr = o; size_t r = cr.%s(); (void)r;" % nm),
            ("via-aead", "T o; const ascon::aead &b = o; size_t r = b.%s(); (void)r;" % nm)]))
    rows += [
        ("set_key", "bool (const unsigned char *, size_t)", [
            ("full", "T o; bool r = o.set_key(k, sizeof(k)); (void)r;"),
            ("zero-null", "T o; bool r = o.set_key(0, 0); (void)r;"),
            ("via-aead", "T o; ascon::aead &b = o; bool r = b.set_key(k, b.key_size()); (void)r;")]
            + ([("saved", "T o; unsigned char s[ASCON_ISAP_SAVED_KEY_SIZE]; o.save_key(s); bool r = o.set_key(s, sizeof(s)); (void)r;")] if isap else [])),
        ("set_nonce", "void (const unsigned char *, size_t)", [
            ("full", "T o; o.set_nonce(n16, sizeof(n16));"),
            ("short", "T o; o.set_nonce(n16, 3);"),
            ("empty-null", "T o; o.set_nonce(0, 0);"),
            ("via-aead", "T o; ascon::aead &b = o; b.set_nonce(n16, b.nonce_size());")]),
        ("set_counter", "void (uint64_t)", [
            ("literal", "T o; o.set_counter(0);"),
            ("u64", "T o; uint64_t v = UINT64_C(0xfedcba9876543210); o.set_counter(v);"),
            ("via-aead", "T o; ascon::aead &b = o; b.set_counter(5);")]),
        ("clear", "void ()", [("object", "T o; o.clear();"), ("via-aead", "T o; ascon::aead &b = o; b.clear();")]),
    ]
    if masked:
        rows.append(("randomize_key", "void ()", [
            ("object", "T o; o.randomize_key();"),
            ("via-aead_masked", "T o; ascon::aead_masked &b = o; b.randomize_key();")]))
    # protected overrides: reachable from a subclass
    rows += [
        ("do_encrypt", SIG_PTR, [("subclass", "struct S : public T { int go(unsigned char *cc, const unsigned char *mm, size_t l) "
                                              "{ return do_encrypt(cc, mm, l, 0, 0); } }; S s; int r = s.go(c, m, 40); (void)r;")]),
        ("do_decrypt", SIG_PTR, [("subclass", "struct S : public T { int go(unsigned char *mm, const unsigned char *cc, size_t l) "
                                              "{ return do_decrypt(mm, cc, l, 0, 0); } }; S s; int r = s.go(p, c, 56); (void)r;")]),
    ]
    # members inherited from ascon::aead, used through the concrete class
    rows += [
        ("aead::encrypt", SIG_PTR, [
            ("3-args", "T o; int r = o.encrypt(c, m, sizeof(m)); (void)r;"),
            ("5-args", "T o; int r = o.encrypt(c, m, sizeof(m), ad, sizeof(ad)); (void)r;"),
            ("4-args", "T o; int r = o.encrypt(c, m, sizeof(m), ad); (void)r;")], "inherited"),
        ("aead::encrypt", "void " + SIG_BA2, [("byte_array", "T o; o.encrypt(bc, bm);")], "inherited"),
        ("aead::encrypt", "void " + SIG_BA3, [("byte_array-ad", "T o; o.encrypt(bc, bm, bad);")], "inherited"),
        ("aead::decrypt", SIG_PTR, [
            ("3-args", "T o; int r = o.decrypt(p, c, sizeof(c)); (void)r;"),
            ("5-args", "T o; int r = o.decrypt(p, c, sizeof(c), ad, sizeof(ad)); (void)r;")], "inherited"),
        ("aead::decrypt", "bool " + SIG_BA2, [("byte_array", "T o; bool r = o.decrypt(bp, bc); (void)r;")], "inherited"),
        ("aead::decrypt", "bool " + SIG_BA3, [("byte_array-ad", "T o; bool r = o.decrypt(bp, bc, bad); (void)r;")], "inherited"),
    ]
    return rows


# the abstract bases: used through a reference / by subclassing
AEAD_BASE_PRE = ("struct impl : public ascon::aead {\n"
                 "    impl() : ascon::aead() {}\n"
                 "    size_t key_size() const { return 16; } size_t tag_size() const { return 16; } size_t nonce_size() const { return 16; }\n"
                 "    bool set_key(const unsigned char *, size_t) { return true; } void set_nonce(const unsigned char *, size_t) {}\n"
                 "    void set_counter(uint64_t) {} void clear() {}\n"
                 "    int do_encrypt(unsigned char *, const unsigned char *, size_t l, const unsigned char *, size_t) { return (int)l + 16; }\n"
                 "    int do_decrypt(unsigned char *, const unsigned char *, size_t l, const unsigned char *, size_t) { return (int)l - 16; }\n"
                 "};\n")
AEAD_BASE_ROWS = [
    ("~aead", "void () noexcept", [("delete-base", "ascon::aead *b = new impl; delete b;")]),
    ("key_size", "size_t () const", [("ref", "impl i; const ascon::aead &b = i; size_t r = b.key_size(); (void)r;")]),
    ("tag_size", "size_t () const", [("ref", "impl i; const ascon::aead &b = i; size_t r = b.tag_size(); (void)r;")]),
    ("nonce_size", "size_t () const", [("ref", "impl i; const ascon::aead &b = i; size_t r = b.nonce_size(); (void)r;")]),
    ("set_key", "bool (const unsigned char *, size_t)", [("ref", "impl i; ascon::aead &b = i; bool r = b.set_key(k, 16); (void)r;")]),
    ("set_nonce", "void (const unsigned char *, size_t)", [("ref", "impl i; ascon::aead &b = i; b.set_nonce(n16, 16);")]),
    ("set_counter", "void (uint64_t)", [("ref", "impl i; ascon::aead &b = i; b.set_counter(7);")]),
    ("encrypt", SIG_PTR, [("3-args", "impl i; ascon::aead &b = i; int r = b.encrypt(c, m, 40); (void)r;"),
                          ("5-args", "impl i; ascon::aead &b = i; int r = b.encrypt(c, m, 40, ad, 5); (void)r;")]),
    ("encrypt", "void " + SIG_BA2, [("byte_array", "impl i; ascon::aead &b = i; b.encrypt(bc, bm);")]),
    ("encrypt", "void " + SIG_BA3, [("byte_array-ad", "impl i; ascon::aead &b = i; b.encrypt(bc, bm, bad);")]),
    ("decrypt", SIG_PTR, [("3-args", "impl i; ascon::aead &b = i; int r = b.decrypt(p, c, 56); (void)r;"),
                          ("5-args", "impl i; ascon::aead &b = i; int r = b.decrypt(p, c, 56, ad, 5); (void)r;")]),
    ("decrypt", "bool " + SIG_BA2, [("byte_array", "impl i; ascon::aead &b = i; bool r = b.decrypt(bp, bc); (void)r;")]),
    ("decrypt", "bool " + SIG_BA3, [("byte_array-ad", "impl i; ascon::aead &b = i; bool r = b.decrypt(bp, bc, bad); (void)r;")]),
    ("clear", "void ()", [("ref", "impl i; ascon::aead &b = i; b.clear();")]),
    ("aead", "void ()", [("subclass-ctor", "impl i; (void)i;")]),
    ("do_encrypt", SIG_PTR, [("override", "impl i; int r = i.encrypt(c, m, 40); (void)r;")]),
    ("do_decrypt", SIG_PTR, [("override", "impl i; int r = i.decrypt(p, c, 56); (void)r;")]),
]
MASKED_BASE_PRE = ("struct mimpl : public ascon::aead_masked {\n"
                   "    mimpl() : ascon::aead_masked() {}\n"
                   "    size_t key_size() const { return 16; } size_t tag_size() const { return 16; } size_t nonce_size() const { return 16; }\n"
                   "    bool set_key(const unsigned char *, size_t) { return true; } void set_nonce(const unsigned char *, size_t) {}\n"
                   "    void set_counter(uint64_t) {} void clear() {} void randomize_key() {}\n"
                   "    int do_encrypt(unsigned char *, const unsigned char *, size_t l, const unsigned char *, size_t) { return (int)l + 16; }\n"
                   "    int do_decrypt(unsigned char *, const unsigned char *, size_t l, const unsigned char *, size_t) { return (int)l - 16; }\n"
                   "};\n")
MASKED_BASE_ROWS = [
    ("~aead_masked", "void () noexcept", [("delete-base", "ascon::aead_masked *b = new mimpl; delete b;")]),
    ("randomize_key", "void ()", [("ref", "mimpl i; ascon::aead_masked &b = i; b.randomize_key();")]),
    ("aead_masked", "void ()", [("subclass-ctor", "mimpl i; (void)i;")]),
]


def hash_rows(T, st, size_macro):
    ST = "::ascon_%s_state_t" % st
    return [
        (T, "void ()", [("default", "T o; (void)o;")]),
        (T, "void (const ascon::%s &)" % T, [("copy", "T a; T o(a); (void)o;"), ("copy-init", "T a; T o = a; (void)o;")]),
        ("~" + T, "void () noexcept", [("scope", "{ T o; (void)o; }"), ("delete", "T *q = new T; delete q;")]),
        ("operator=", "ascon::%s &(const ascon::%s &)" % (T, T), [("assign", "T a, o; o = a;"), ("self", "T o; T &r = o; o = r;"),
                                                                     ("chain", "T a, b, o; o = b = a;")]),
        ("reset", "void ()", [("call", "T o; o.reset();")]),
        ("update", "void (const unsigned char *, size_t)", [("ptr", "T o; o.update(d, sizeof(d));"), ("null-0", "T o; o.update((const unsigned char *)0, 0);")]),
        ("update", "void (const char *)", [("literal", 'T o; o.update("Hello, World!");'), ("ptr", 'T o; const char *s = "abc"; o.update(s);'),
                                            ("null", "T o; o.update((const char *)0);")]),
        ("update", "void (const ascon::byte_array &)", [("byte_array", "T o; ascon::byte_array b(d, d + 9); o.update(b);")]),
        ("update", "void (const std::string &)", [("string", 'T o; std::string s("abc"); o.update(s);'),
                                                   ("temporary", 'T o; o.update(std::string("abc"));')], "stl"),
        ("update", "void (const String &)", [("String", 'T o; String s("abc"); o.update(s);'),
                                              ("temporary", 'T o; o.update(String("abc"));'),
                                              ("empty", 'T o; String s; o.update(s);')], "arduino"),
        ("finalize", "void (unsigned char *)", [("array", "T o; unsigned char out[%s]; o.finalize(out);" % size_macro)]),
        ("finalize", "ascon::byte_array ()", [("byte_array", "T o; ascon::byte_array r = o.finalize(); (void)r;")]),
        ("digest", "void (unsigned char *, const unsigned char *, size_t)",
         [("static", "unsigned char out[%s]; T::digest(out, d, sizeof(d));" % size_macro),
          ("via-object", "T o; unsigned char out[%s]; o.digest(out, d, sizeof(d));" % size_macro)]),
        ("state", ST + " *()", [("mutable", "T o; %s *s = o.state(); (void)s;" % ST)]),
        ("state", "const " + ST + " *() const", [("const", "T o; const T &cr = o; const %s *s = cr.state(); (void)s;" % ST)]),
    ]


def xof_rows(tmpl, st):
    """Rows of xof_with_output_length<outlen> / xofa_with_output_length<outlen>;
    qualTypes as clang prints them for the template pattern."""
    ST = "::ascon_%s_state_t" % st
    TT = "%s<outlen>" % tmpl
    return [
        (TT, "void ()", [("default", "T o; (void)o;")]),
        (TT, "void (const ascon::%s &)" % TT, [("copy", "T a; T o(a); (void)o;"), ("copy-init", "T a; T o = a; (void)o;")]),
        (TT, "void (const char *, const unsigned char *, size_t)", [
            ("name", 'T o("KMAC"); (void)o;'), ("name-null", "T o((const char *)0); (void)o;"),
            ("name-custom", 'T o("KMAC", d, sizeof(d)); (void)o;'), ("name-custom-ptr-only", 'T o("KMAC", d); (void)o;')]),
        (TT, "void (const char *, const ascon::byte_array &)", [("name-byte_array", 'ascon::byte_array b(d, d + 9); T o("KMAC", b); (void)o;')]),
        ("~" + TT, "void ()", [("scope", "{ T o; (void)o; }"), ("delete", "T *q = new T; delete q;")]),
        ("operator=", "%s &(const ascon::%s &)" % (TT, TT), [("assign", "T a, o; o = a;"), ("self", "T o; T &r = o; o = r;")]),
        ("reset", "void ()", [("call", "T o; o.reset();")]),
        ("absorb", "void (const unsigned char *, size_t)", [("ptr", "T o; o.absorb(d, sizeof(d));"), ("null-0", "T o; o.absorb((const unsigned char *)0, 0);")]),
        ("absorb", "void (const char *)", [("literal", 'T o; o.absorb("Hello, World!");'), ("ptr", 'T o; const char *s = "abc"; o.absorb(s);'),
                                            ("null", "T o; o.absorb((const char *)0);")]),
        ("absorb", "void (const ascon::byte_array &)", [("byte_array", "T o; ascon::byte_array b(d, d + 9); o.absorb(b);")]),
        ("absorb", "void (const std::string &)", [("string", 'T o; std::string s("abc"); o.absorb(s);'),
                                                   ("temporary", 'T o; o.absorb(std::string("abc"));')], "stl"),
        ("absorb", "void (const String &)", [("String", 'T o; String s("abc"); o.absorb(s);'),
                                              ("temporary", 'T o; o.absorb(String("abc"));'),
                                              ("empty", 'T o; String s; o.absorb(s);')], "arduino"),
        ("squeeze", "void (unsigned char *, size_t)", [("ptr", "T o; unsigned char out[64]; o.squeeze(out, sizeof(out));")]),
        ("squeeze", "ascon::byte_array (size_t)", [("byte_array", "T o; ascon::byte_array r = o.squeeze(64); (void)r;")]),
        ("pad", "void ()", [("call", "T o; o.absorb(d, 3); o.pad();")]),
        ("state", ST + " *()", [("mutable", "T o; %s *s = o.state(); (void)s;" % ST)]),
        ("state", "const " + ST + " *() const", [("const", "T o; const T &cr = o; const %s *s = cr.state(); (void)s;" % ST)]),
    ]


UTIL_ROWS = [
    ("byte_array", "std::vector<unsigned char>", [("typedef", "ascon::byte_array b(3); b.resize(5); std::vector<unsigned char> &v = b; (void)v;")], "stl"),
    ("bytes_from_hex", "ascon::byte_array (const char *, size_t)", [("ptr-len", 'ascon::byte_array r = ascon::bytes_from_hex("0011aaFF", 8); (void)r;')]),
    ("bytes_from_hex", "ascon::byte_array (const char *)", [("c-string", 'ascon::byte_array r = ascon::bytes_from_hex("0011aaFF"); (void)r;'),
                                                             ("null", "ascon::byte_array r = ascon::bytes_from_hex((const char *)0); (void)r;")]),
    ("bytes_from_hex", "ascon::byte_array (const std::string &)", [("string", 'std::string s("0011"); ascon::byte_array r = ascon::bytes_from_hex(s); (void)r;')], "stl"),
    ("bytes_from_data", "ascon::byte_array (const unsigned char *, size_t)", [("ptr-len", "ascon::byte_array r = ascon::bytes_from_data(d, sizeof(d)); (void)r;")]),
    ("bytes_to_hex", "std::string (const unsigned char *, size_t, bool)", [
        ("2-args", "std::string s = ascon::bytes_to_hex(d, sizeof(d)); (void)s;"),
        ("upper", "std::string s = ascon::bytes_to_hex(d, sizeof(d), true); (void)s;")], "stl"),
    ("bytes_to_hex", "std::string (const ascon::byte_array &, bool)", [
        ("1-arg", "ascon::byte_array b(d, d + 9); std::string s = ascon::bytes_to_hex(b); (void)s;"),
        ("upper", "ascon::byte_array b(d, d + 9); std::string s = ascon::bytes_to_hex(b, true); (void)s;")], "stl"),
]
UTIL_ROWS += [
    ("bytes_from_hex", "ascon::byte_array (const String &)", [("String", 'String s("0011"); ascon::byte_array r = ascon::bytes_from_hex(s); (void)r;'),
                                                               ("temporary", 'ascon::byte_array r = ascon::bytes_from_hex(String("0011aaFF")); (void)r;')], "arduino"),
    ("bytes_to_hex", "String (const unsigned char *, size_t, bool)", [
        ("2-args", "String s = ascon::bytes_to_hex(d, sizeof(d)); (void)s;"),
        ("upper", "String s = ascon::bytes_to_hex(d, sizeof(d), true); (void)s;")], "arduino"),
    ("bytes_to_hex", "String (const ascon::byte_array &, bool)", [
        ("1-arg", "ascon::byte_array b(d, d + 9); String s = ascon::bytes_to_hex(b); (void)s;"),
        ("upper", "ascon::byte_array b(d, d + 9); String s = ascon::bytes_to_hex(b, true); (void)s;")], "arduino"),
]
# class ascon::byte_array of the ASCON_NO_STL variants (utility.h:119; its behaviour is C20's subject, here: every
# non-private member compiles when used).  No Doxygen comments of their own; the class stands in for the documented typedef.
_BA = "ascon::byte_array"
BYTE_ARRAY_ROWS = [
    ("byte_array", "void ()", [("default", "T o; (void)o;"), ("new-delete", "T *q = new T(); delete q;")]),
    ("byte_array", "void (const %s &)" % _BA, [("copy", "T a(3); T o(a); (void)o;"), ("copy-init", "T a(3); T o = a; (void)o;")]),
    ("byte_array", "void (size_t, unsigned char)", [("size", "T o(3); (void)o;"), ("size-value", "T o(3, 0xDD); (void)o;"),
                                                    ("zero", "T o((size_t)0); (void)o;")]),
    ("~byte_array", "void () noexcept", [("scope", "{ T o(3); (void)o; }"), ("explicit", "T *q = new T(3); q->~T(); ::operator delete(q);")]),
    ("operator=", "%s &(const %s &)" % (_BA, _BA), [("assign", "T a(3), o; o = a;"), ("self", "T o(3); T &r = o; o = r;"), ("chain", "T a(3), b, o; o = b = a;")]),
    ("operator[]", "unsigned char &(size_t)", [("write", "T o(3); o[1] = 7;")]),
    ("operator[]", "const unsigned char &(size_t) const", [("read", "T o(3); const T &cr = o; unsigned char v = cr[1]; (void)v;")]),
    ("size", "size_t () const", [("call", "T o(3); const T &cr = o; size_t r = cr.size(); (void)r;")]),
    ("capacity", "size_t () const", [("call", "T o(3); const T &cr = o; size_t r = cr.capacity(); (void)r;")]),
    ("empty", "bool () const", [("call", "T o; const T &cr = o; bool r = cr.empty(); (void)r;")]),
    ("data", "unsigned char *()", [("mutable", "T o(3); unsigned char *q = o.data(); (void)q;")]),
    ("data", "const unsigned char *() const", [("const", "T o(3); const T &cr = o; const unsigned char *q = cr.data(); (void)q;")]),
    ("reserve", "void (size_t)", [("call", "T o; o.reserve(40);")]),
    ("resize", "void (size_t)", [("grow", "T o; o.resize(40);"), ("shrink", "T o(40); o.resize(0);")]),
    ("clear", "void ()", [("call", "T o(3); o.clear();")]),
    ("push_back", "void (unsigned char)", [("call", "T o; o.push_back(1);")]),
    ("pop_back", "void ()", [("call", "T o(3); o.pop_back();")]),
] + [("operator" + op, "bool (const %s &) const" % _BA, [("compare", "T a(3), b(4); bool r = a %s b; (void)r;" % op)])
     for op in ("==", "!=", "<", "<=", ">", ">=")] + [
    ("begin", "ascon::byte_array::iterator ()", [("mutable", "T o(3); T::iterator it = o.begin(); (void)it;")]),
    ("end", "ascon::byte_array::iterator ()", [("mutable", "T o(3); T::iterator it = o.end(); (void)it;"),
                                                ("loop", "T o(3); for (T::iterator it = o.begin(); it != o.end(); ++it) *it = 1;")]),
    ("begin", "ascon::byte_array::const_iterator () const", [("const", "T o(3); const T &cr = o; T::const_iterator it = cr.begin(); (void)it;")]),
    ("end", "ascon::byte_array::const_iterator () const", [("const", "T o(3); const T &cr = o; T::const_iterator it = cr.end(); (void)it;")]),
    ("cbegin", "ascon::byte_array::const_iterator () const", [("call", "T o(3); T::const_iterator it = o.cbegin(); (void)it;")]),
    ("cend", "ascon::byte_array::const_iterator () const", [("call", "T o(3); T::const_iterator it = o.cend(); (void)it;")]),
]
BYTE_ARRAY_ROWS = [r + ("nostl",) for r in BYTE_ARRAY_ROWS]
TYPEDEF_ROWS = [
    ("xof", "xof_with_output_length<0>", [("typedef", 'ascon::xof x; unsigned char out[64]; x.absorb(d, 9); x.squeeze(out, sizeof(out)); '
                                                       'ascon::xof_with_output_length<0> &r = x; (void)r;')], "typedef"),
    ("xofa", "xofa_with_output_length<0>", [("typedef", 'ascon::xofa x; unsigned char out[64]; x.absorb(d, 9); x.squeeze(out, sizeof(out)); '
                                                         'ascon::xofa_with_output_length<0> &r = x; (void)r;')], "typedef"),
]

CIPHERS = [  # class, header, base, key size, isap, masked
    ("aead128", "aead.h", "aead", 16, False, False), ("aead128a", "aead.h", "aead", 16, False, False), ("aead80pq", "aead.h", "aead", 20, False, False),
    ("aead128_masked", "aead-masked.h", "aead_masked", 16, False, True), ("aead128a_masked", "aead-masked.h", "aead_masked", 16, False, True),
    ("aead80pq_masked", "aead-masked.h", "aead_masked", 20, False, True),
    ("siv128", "siv.h", "aead", 16, False, False), ("siv128a", "siv.h", "aead", 16, False, False), ("siv80pq", "siv.h", "aead", 20, False, False),
    ("isap128", "isap.h", "aead", 16, True, False), ("isap128a", "isap.h", "aead", 16, True, False), ("isap80pq", "isap.h", "aead", 20, True, False),
]
PRE_DATA = "static const unsigned char d[9] = {1, 2, 3, 4, 5, 6, 7, 8, 9}; (void)d;\n"


_RANGE_CTOR = re.compile(r"ascon::byte_array (\w+)\((\w+), \2 \+ (\w+)\);")


def nostl_code(code):
    """the library's own byte_array has no iterator-range constructor: size constructor + memcpy instead"""
    return _RANGE_CTOR.sub(r"ascon::byte_array \1((size_t)\3); ::memcpy(\1.data(), \2, \3);", code)


def table(variant="stl"):
    """-> list of dict(cls, inst, header, name, sig, uses, flags, pre, T)"""
    out = []
    assert variant in VARIANTS
    only = {"stl": ("stl",), "nostl": ("nostl",), "arduino": ("nostl", "arduino")}[variant]
    fix = (lambda c: c) if variant == "stl" else nostl_code

    def add(cls, inst, header, rows, pre, T, decl_cls=None):
        for r in rows:
            name, sig, uses = r[0], r[1], r[2]
            flags = r[3] if len(r) > 3 else ""
            if flags in ("stl", "nostl", "arduino") and flags not in only:
                continue
            uses = [(label, fix(code)) for (label, code) in uses]
            pre = fix(pre)
            out.append({"cls": decl_cls or cls, "inst": inst, "header": header, "name": name, "sig": sig, "uses": uses,
                        "flags": flags, "pre": pre, "T": T})
    for (c, h, base, K, isap, masked) in CIPHERS:
        add(c, c, h, cipher_rows(c, base, isap, masked), PRE_CIPHER % {"K": K}, "ascon::" + c)
    add("aead", "aead", "aead.h", AEAD_BASE_ROWS, PRE_CIPHER % {"K": 16}, "ascon::aead")
    add("aead_masked", "aead_masked", "aead-masked.h", MASKED_BASE_ROWS, PRE_CIPHER % {"K": 16}, "ascon::aead_masked")
    add("hash", "hash", "hash.h", hash_rows("hash", "hash", "ASCON_HASH_SIZE"), PRE_DATA, "ascon::hash")
    add("hasha", "hasha", "hash.h", hash_rows("hasha", "hasha", "ASCON_HASHA_SIZE"), PRE_DATA, "ascon::hasha")
    for tmpl, st in (("xof_with_output_length", "xof"), ("xofa_with_output_length", "xofa")):
        for L in XOF_LENGTHS:
            add(tmpl, "%s<%d>" % (tmpl, L), "xof.h", xof_rows(tmpl, st), PRE_DATA, "ascon::%s<%d>" % (tmpl, L))
    add("", "utility", "utility.h", UTIL_ROWS, PRE_DATA, "")
    add("byte_array", "byte_array", "utility.h", BYTE_ARRAY_ROWS, "", "ascon::byte_array")
    add("", "typedefs", "xof.h", TYPEDEF_ROWS, PRE_DATA, "")
    return out


def groups(tab=None):
    """member groups: (inst, member name) -> rows"""
    g = {}
    for r in (tab or table()):
        nm = r["name"].split("::")[-1]
        g.setdefault((r["inst"], nm), []).append(r)
    return g


def tu_text(inst, name, rows, variant="stl"):
    hs = sorted(set(r["header"] for r in rows))
    s = "// C17 compile coverage: %s :: %s\n" % (inst, name)
    if variant != "stl":
        s += "// variant %s: compile with %s\n" % (variant, " ".join(VARIANTS[variant]["defs"]))
    if variant == "arduino":
        s += "#include <Arduino.h>      // STUB: harness/arduino_stub/Arduino.h of the verification framework\n"
    s += "#include <stdint.h>\n#include <new>\n"
    s += "".join("#include <ascon/%s>\n" % h for h in hs)
    if variant == "stl":
        s += "#include <string>\n"
    else:
        s += "#include <string.h>\n"
    uses = []
    k = 0
    for r in rows:
        for (label, code) in r["uses"]:
            k += 1
            fn = "use_%d" % k
            body = ""
            if r["T"]:
                body += "    typedef %s T;\n" % r["T"]
            body += "    " + r["pre"]
            body += "    " + code + "\n"
            uses.append((fn, r, label))
            s += "// %s  %s  [%s]\nvoid %s()\n{\n%s}\n" % (r["name"], r["sig"], label, fn, body)
    return s, uses


def base_prelude(inst):
    if inst == "aead":
        return AEAD_BASE_PRE
    if inst == "aead_masked":
        return MASKED_BASE_PRE
    return ""


def emit(dirname, variant="stl"):
    """Writes the TUs; returns list of dict(file, inst, member, uses=[(sig,label)])."""
    os.makedirs(dirname, exist_ok=True)
    res = []
    for (inst, name), rows in sorted(groups(table(variant)).items()):
        txt, uses = tu_text(inst, name, rows, variant)
        if not uses:
            continue
        pre = base_prelude(inst)
        if pre:
            # the helper subclass goes after the includes
            idx = txt.index("// ", txt.index("#include <ascon/"))
            txt = txt[:idx] + pre + txt[idx:]
        fn = re.sub(r"[^A-Za-z0-9_]", "_", "%s__%s" % (inst, name.replace("~", "dtor_").replace("operator=", "op_assign"))) + ".cpp"
        open(os.path.join(dirname, fn), "w").write(txt)
        res.append({"file": fn, "inst": inst, "member": name, "uses": [(u[1]["name"], u[1]["sig"], u[2]) for u in uses]})
    return res


def emit_merged(dirname, variant="stl"):
    """One TU per class instantiation: the use functions of all its member groups, concatenated (same headers, same
    function bodies as the small TUs of emit()).  Returns list of dict(file, inst, member="*", uses, groups=[member names])."""
    os.makedirs(dirname, exist_ok=True)
    by_inst = {}
    for (inst, name), rows in sorted(groups(table(variant)).items()):
        e = by_inst.setdefault(inst, {"rows": [], "groups": []})
        e["rows"] += rows
        e["groups"].append(name)
    res = []
    for inst, e in sorted(by_inst.items()):
        txt, uses = tu_text(inst, "* (all member groups)", e["rows"], variant)
        pre = base_prelude(inst)
        if pre:
            idx = txt.index("// ", txt.index("#include <ascon/"))
            txt = txt[:idx] + pre + txt[idx:]
        fn = "all__" + re.sub(r"[^A-Za-z0-9_]", "_", inst) + ".cpp"
        open(os.path.join(dirname, fn), "w").write(txt)
        res.append({"file": fn, "inst": inst, "member": "*", "groups": e["groups"], "uses": [(u[1]["name"], u[1]["sig"], u[2]) for u in uses]})
    return res


# ---------------------------------------------------------------------------
# inventory of the current headers from clang's AST

def _docs(txt):
    dec = json.JSONDecoder()
    i, out = 0, []
    while i < len(txt):
        while i < len(txt) and txt[i].isspace():
            i += 1
        if i >= len(txt):
            break
        o, i = dec.raw_decode(txt, i)
        out.append(o)
    return out


def inventory(repo, clang="clang++-14", variant="stl"):
    """-> set of (class, name, qualType) for every non-private, non-implicit
    constructor/destructor/method of the classes of namespace ascon, the free
    functions and the typedefs, plus the subset that carries a Doxygen comment."""
    src = "".join("#include <ascon/%s>\n" % h for h in HEADERS)
    p = subprocess.run([clang, "-std=c++11", "-fsyntax-only"] + variant_flags(variant, repo) + ["-Xclang", "-ast-dump=json",
                        "-Xclang", "-ast-dump-filter=ascon::", "-x", "c++", "-"], input=src.encode(),
                       stdout=subprocess.PIPE, stderr=subprocess.PIPE)
    docs = _docs(p.stdout.decode())
    if not docs:
        raise RuntimeError("clang produced no AST: " + p.stderr.decode()[-500:])
    inv, documented = set(), set()

    def hasdoc(d):
        return any(x.get("kind") == "FullComment" for x in d.get("inner", []))

    def rec(cname, r):
        acc = "private" if r.get("tagUsed") == "class" else "public"
        for x in r.get("inner", []):
            k = x["kind"]
            if k == "AccessSpecDecl":
                acc = x["access"]
            elif k in ("CXXMethodDecl", "CXXConstructorDecl", "CXXDestructorDecl") and not x.get("isImplicit") and acc != "private":
                key = (cname, x["name"], x["type"]["qualType"])
                inv.add(key)
                if hasdoc(x):
                    documented.add(key)
    for d in docs:
        k = d["kind"]
        if k == "CXXRecordDecl" and d.get("completeDefinition"):
            rec(d["name"], d)
        elif k == "ClassTemplateDecl":
            for x in d.get("inner", []):
                if x["kind"] == "CXXRecordDecl":
                    rec(d["name"], x)
        elif k in ("FunctionDecl", "TypedefDecl"):
            key = ("", d["name"], d["type"]["qualType"])
            inv.add(key)
            if hasdoc(d):
                documented.add(key)
    return inv, documented


def table_keys(variant="stl"):
    keys = set()
    for r in table(variant):
        if r["flags"] == "inherited":
            keys.add(("aead", r["name"].split("::")[-1], r["sig"]))
        else:
            keys.add((r["cls"], r["name"], r["sig"]))
    return keys


def crosscheck(repo, variant="stl"):
    inv, documented = inventory(repo, variant=variant)
    tk = table_keys(variant)
    return sorted(inv - tk), sorted(tk - inv), len(inv), len(documented)


if __name__ == "__main__":
    a = sys.argv[1:]
    variant = "stl"
    if a and a[-1] in VARIANTS:
        variant = a.pop()
    if a[:1] == ["--list"]:
        n = 0
        for r in table(variant):
            for u in r["uses"]:
                n += 1
                print("%-28s %-16s %-70s %s" % (r["inst"], r["name"], r["sig"], u[0]))
        print("# %d rows, %d uses, %d groups" % (len(table(variant)), n, len(groups(table(variant)))))
    elif a[:1] == ["--emit"]:
        r = emit(a[1], variant)
        print("%d translation units, %d uses" % (len(r), sum(len(x["uses"]) for x in r)))
    elif a[:1] == ["--crosscheck"]:
        missing, stale, n, nd = crosscheck(a[1] if len(a) > 1 else os.environ.get("VERIF_REPO", "/repo"), variant)
        print("declarations in the headers: %d (with a Doxygen comment of their own: %d)" % (n, nd))
        for m in missing:
            print("NOT IN TABLE:", m)
        for m in stale:
            print("NOT IN HEADERS:", m)
        sys.exit(1 if missing or stale else 0)
    else:
        print(__doc__)
