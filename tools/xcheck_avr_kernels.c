/* Test kernels for tools/xcheck_avr.py (C18): straight-line byte code in the shape of the AVR ASCON kernels.
 * The SAME source is (a) compiled natively and executed (reference) and (b) compiled by clang --target=avr
 * -mmcu=atmega328p to assembly text, which is run through the symbolic front end tools/asm_avr.py and evaluated
 * on the same inputs.  A disagreement means a lowering-table entry (or the compiler) is wrong.  The instruction
 * mix clang produces (ld/ldd/st/std, mov/movw, eor/and/or/com/andi/ori, lsl/rol/lsr/ror, `adc rX,r1` after a
 * shift, swap, clr, push/pop, ret) overlaps the generated files' but is not the same. */
typedef __UINT8_TYPE__ u8;          /* predefined by gcc and clang, also freestanding */
typedef __UINT16_TYPE__ u16;
typedef __UINT32_TYPE__ u32;

/* one byte column of the ASCON S-box as the generator writes it (or / com form), then nibble swap and masks */
void ka(u8 *s)
{
    u8 x0 = s[0], x1 = s[1], x2 = s[2], x3 = s[3], x4 = s[4], t0, t1, t2;
    t0 = x1 ^ x2; t1 = x0 ^ x4; t2 = x3 ^ x4;
    x4 = (u8)~x4; x4 |= x3; x4 ^= t0;
    x3 ^= x1; x3 |= t0; x3 ^= t1;
    x2 ^= t1; x2 |= x1; x2 ^= t2;
    t1 = (u8)~t1; x1 &= t1; x1 ^= t2;
    x0 |= t2; x0 ^= t0;
    s[0] = x2; s[1] = x3; s[2] = x4; s[3] = x0; s[4] = x1;
    s[5] = (u8)((s[5] << 4) | (s[5] >> 4));
    s[6] = (u8)(s[6] | (s[7] & 0x3c));
    s[7] = (u8)((s[7] << 1) | (s[7] >> 7));
    s[8] = (u8)((s[8] >> 1) | (s[8] << 7));
    s[9] = (u8)((s[9] << 3) | (s[9] >> 5));
}

/* 16- and 32-bit rotations and shifts: multi-byte shift chains through the carry flag */
void kb(u8 *s)
{
    u32 a = (u32)s[0] | ((u32)s[1] << 8) | ((u32)s[2] << 16) | ((u32)s[3] << 24);
    u32 b = (u32)s[4] | ((u32)s[5] << 8) | ((u32)s[6] << 16) | ((u32)s[7] << 24);
    u16 c = (u16)(s[8] | ((u16)s[9] << 8));
    u32 t = (a >> 3) | (a << 29);
    t ^= (b << 7) | (b >> 25);
    t ^= ~a & b;
    t = (t >> 1) | (t << 31);
    c = (u16)((c << 1) | (c >> 15));
    c ^= (u16)(c >> 5);
    s[0] = (u8)t; s[1] = (u8)(t >> 8); s[2] = (u8)(t >> 16); s[3] = (u8)(t >> 24);
    s[4] = (u8)c; s[5] = (u8)(c >> 8);
    b = (b << 1) | (b >> 31);
    s[6] = (u8)(b >> 24); s[7] = (u8)b;
    s[10] = (u8)(s[10] ^ (u8)(a >> 17));
    s[11] = (u8)((u8)~s[11] & s[12]);
}

/* a short counted loop (dec / brne or cpi / brne with a concrete counter) over bytes, and byte moves */
void kc(u8 *s)
{
    u8 i, acc = s[15];
    for (i = 0; i < 7; ++i) {
        acc = (u8)((acc << 1) | (acc >> 7));
        acc ^= s[i];
        s[i] = (u8)(acc & (u8)~s[i + 8]);
    }
    s[15] = acc;
    s[14] = s[13];
}

/* a function with a stack frame: the compiler emits the same `in r28,0x3d / in r29,0x3e / sbiw / in r0,0x3f / cli /
 * out 0x3e / out 0x3f / out 0x3d` frame set-up as the generated files and addresses its locals at Y+1 .. Y+20; the
 * front end's frame rule (accessible stack bytes = (SP, entry SP]) and its 16-bit pointer arithmetic must accept it */
void kd(u8 *s)
{
    volatile u8 tmp[20];
    u8 i;
    for (i = 0; i < 16; ++i)
        tmp[i] = (u8)(s[i] ^ (u8)(s[(i + 5) & 15] >> 3));
    tmp[16] = s[3]; tmp[17] = s[4]; tmp[18] = 7; tmp[19] = s[0];
    for (i = 0; i < 16; ++i)
        s[i] = (u8)(tmp[15 - i] | (tmp[16 + (i & 3)] & 0x55));
}
