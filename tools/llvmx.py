"""LLVM IR front end of the symbolic executor: the C kernels are compiled by
clang -O1 (no unrolling / vectorisation) to textual LLVM IR, which this
module interprets with symx (data symbolic, control/addresses concrete),
cutting the run at loop headers so that each segment has low algebraic
degree.  Output: segments (symx.Builder programs) with their interfaces."""
import re, subprocess, os
from symx import Builder, Memory, V, Stuck, mask


# ------------------------------------------------------------------ types
class Ty:
    pass


def parse_type(s, named):
    s = s.strip()
    m = re.match(r"^i(\d+)$", s)
    if m:
        return ("int", int(m.group(1)))
    if s.endswith("*") or s == "ptr":
        return ("ptr",)
    if s.startswith("["):
        m = re.match(r"^\[(\d+) x (.*)\]$", s)
        return ("arr", int(m.group(1)), parse_type(m.group(2), named))
    if s.startswith("{") or s.startswith("<{"):
        packed = s.startswith("<{")
        inner = s[2:-2] if packed else s[1:-1]
        return ("struct", [parse_type(x, named) for x in split_top(inner)], packed)
    if s.startswith("%"):
        return ("named", s)
    if s == "void":
        return ("void",)
    raise Stuck("unsupported type " + s)


def split_top(s):
    out, depth, cur = [], 0, ""
    for ch in s:
        if ch in "[{(<":
            depth += 1
        elif ch in "]})>":
            depth -= 1
        if ch == "," and depth == 0:
            out.append(cur.strip()); cur = ""
        else:
            cur += ch
    if cur.strip():
        out.append(cur.strip())
    return out


class Types:
    def __init__(self):
        self.named = {}

    def resolve(self, t):
        while t[0] == "named":
            t = self.named[t[1]]
        return t

    def size_align(self, t):
        t = self.resolve(t)
        if t[0] == "int":
            n = max(1, (t[1] + 7) // 8)
            p = 1
            while p < n:
                p *= 2
            return p, min(p, 8)
        if t[0] == "ptr":
            return 8, 8
        if t[0] == "arr":
            s, a = self.size_align(t[2])
            return s * t[1], a
        if t[0] == "struct":
            off, al = 0, 1
            for f in t[1]:
                s, a = self.size_align(f)
                if not t[2]:
                    off = (off + a - 1) // a * a
                    al = max(al, a)
                off += s
            if not t[2]:
                off = (off + al - 1) // al * al
            return off, al
        raise Stuck("size of " + str(t))

    def field_offset(self, t, idx):
        t = self.resolve(t)
        off = 0
        for i, f in enumerate(t[1]):
            s, a = self.size_align(f)
            if not t[2]:
                off = (off + a - 1) // a * a
            if i == idx:
                return off, f
            off += s
        raise Stuck("bad field index")


# ------------------------------------------------------------------ module parsing
class Func:
    def __init__(self, name, params, ret):
        self.name, self.params, self.ret = name, params, ret
        self.blocks = {}       # label -> list of instruction strings
        self.order = []


def compile_ll(src, defs=(), incs=(), opt="-O1"):
    cmd = ["clang", opt, "-fno-unroll-loops", "-fno-vectorize", "-fno-slp-vectorize", "-fno-builtin", "-S", "-emit-llvm", "-o", "-"]
    cmd += ["-D" + d for d in defs] + ["-I" + i for i in incs] + [src]
    p = subprocess.run(cmd, stdout=subprocess.PIPE, stderr=subprocess.PIPE)
    if p.returncode != 0:
        raise Stuck("clang failed on %s: %s" % (src, p.stderr.decode()[-800:]))
    return p.stdout.decode()


class Module:
    def __init__(self, text):
        self.types = Types()
        self.funcs = {}
        self.globals = {}       # name -> (type, init bytes or None, constant?)
        self.parse(text)

    def parse(self, text):
        lines = text.split("\n")
        i = 0
        while i < len(lines):
            l = lines[i]
            m = re.match(r"^(%[\w.\"]+) = type (.*)$", l)
            if m:
                if m.group(2).strip() != "opaque":
                    self.types.named[m.group(1)] = parse_type(m.group(2), self.types.named)
                i += 1; continue
            m = re.match(r"^(@[\w.$\"]+) = (.*)$", l)
            if m:
                self.parse_global(m.group(1), m.group(2))
                i += 1; continue
            m = re.match(r"^define .*?(@[\w.$]+)\((.*)\)[^{]*\{$", l)
            if m:
                name = m.group(1)
                params = []
                for p in split_top(m.group(2)):
                    toks = p.split()
                    params.append((parse_type(toks[0], None), toks[-1]))
                f = Func(name, params, None)
                cur = "%entry0"
                f.blocks[cur] = []; f.order.append(cur)
                i += 1
                first = True
                while lines[i] != "}":
                    s = lines[i].split(";")[0].rstrip() if not lines[i].lstrip().startswith(";") else ""
                    lm = re.match(r"^([\w.$\-]+):", lines[i])
                    if lm:
                        cur = "%" + lm.group(1)
                        f.blocks[cur] = []; f.order.append(cur)
                    elif s.strip():
                        f.blocks[cur].append(s.strip())
                    i += 1
                # the entry block's implicit label is the next unnamed number after the parameters
                unnamed = [p for (_, p) in f.params if re.match(r"^%\d+$", p)]
                f.entry_label = "%" + str(len(f.params)) if all(re.match(r"^%\d+$", p) for (_, p) in f.params) else "%entry0"
                f.blocks[f.entry_label] = f.blocks.pop("%entry0")
                f.order[0] = f.entry_label
                self.funcs[name] = f
            i += 1

    def parse_global(self, name, rest):
        # e.g. internal unnamed_addr constant [12 x i64] [i64 -241, i64 ...], align 16
        m = re.match(r"^(?:(?:private|internal|dso_local|local_unnamed_addr|unnamed_addr|hidden|external)\s+)*(constant|global)\s+(.*)$", rest)
        if not m:
            return
        const = m.group(1) == "constant"
        body = m.group(2)
        ty_s, init_s = self.split_type_prefix(body)
        ty = parse_type(ty_s, None)
        init_s = re.sub(r",\s*align \d+.*$", "", init_s).strip()
        try:
            data = self.const_bytes(ty, init_s)
        except Exception:
            data = None
        self.globals[name] = (ty, data, const)

    def split_type_prefix(self, s):
        """split 'TYPE rest' where TYPE may contain brackets"""
        depth = 0
        for i, ch in enumerate(s):
            if ch in "[{<(":
                depth += 1
            elif ch in "]}>)":
                depth -= 1
            elif ch == " " and depth == 0:
                return s[:i], s[i + 1:]
        return s, ""

    def const_bytes(self, ty, s):
        ty = self.types.resolve(ty)
        size, _ = self.types.size_align(ty)
        s = s.strip()
        if s == "zeroinitializer":
            return [0] * size
        if ty[0] == "int":
            n = int(s)
            return [(n >> (8 * i)) & 255 for i in range(size)]
        if ty[0] == "arr":
            if s.startswith('c"'):
                raw = s[2:s.rindex('"')]
                out, i = [], 0
                while i < len(raw):
                    if raw[i] == "\\":
                        out.append(int(raw[i + 1:i + 3], 16)); i += 3
                    else:
                        out.append(ord(raw[i])); i += 1
                return out
            inner = s[1:-1]
            out = []
            for e in split_top(inner):
                et, ev = self.split_type_prefix(e)
                out += self.const_bytes(parse_type(et, None), ev)
            return out
        if ty[0] == "struct":
            inner = s[1:-1].strip() if not ty[2] else s[2:-2].strip()
            out = []
            for idx, e in enumerate(split_top(inner)):
                off, _ = self.types.field_offset(ty, idx)
                out += [0] * (off - len(out))
                et, ev = self.split_type_prefix(e)
                out += self.const_bytes(parse_type(et, None), ev)
            out += [0] * (size - len(out))
            return out
        raise Stuck("const init")


# ------------------------------------------------------------------ execution
class Ptr:
    __slots__ = ("region", "off")

    def __init__(self, region, off):
        self.region, self.off = region, off

    def __repr__(self):
        return "&%s+%d" % (self.region, self.off)


class Segment:
    def __init__(self, builder, in_desc, outs, out_desc):
        self.b, self.in_desc, self.outs, self.out_desc = builder, in_desc, outs, out_desc


class Exec:
    """Symbolic execution of one function call.

    args: list matching the parameters: ('ptr', region_name, offset) | ('int', value).
    regions: name -> dict(size=, symbolic=bool, init=bytes|None, writable=bool)
    cut: cut the run into segments at loop headers
    rand: name of the function whose calls return fresh symbolic words (random source)
    """

    def __init__(self, mod, fname, args, regions, cut=False, rand_fns=(), max_steps=2000000, callbacks=None, cut_exits=True):
        self.mod, self.f = mod, mod.funcs[fname]
        self.cut = cut
        self.cut_exits = cut_exits
        self.rand_fns = set(rand_fns)
        self.callbacks = callbacks or {}
        self.segments = []
        self.region_specs = regions
        self.b = Builder()
        self.mem = Memory(self.b)
        self.region_order = []
        for name, spec in regions.items():
            self.mem.add(name, spec["size"], init=spec.get("init"), symbolic=spec.get("symbolic", False), writable=spec.get("writable", True))
            self.region_order.append(name)
        self.seg_in_desc = [("mem", name, i) for name in self.region_order if regions[name].get("symbolic") for i in range(regions[name]["size"])]
        self.env = {}
        for (ty, pname), a in zip(self.f.params, args):
            if a[0] == "ptr":
                self.env[pname] = Ptr(a[1], a[2])
            elif a[0] == "sym":          # a symbolic scalar argument: one more input word
                self.env[pname] = self.b.inp(ty[1])
                self.seg_in_desc = self.seg_in_desc + [("arg", pname, ty[1])]
            else:
                self.env[pname] = self.b.const(ty[1], a[1])
        self.headers = self.loop_headers()
        self.steps = 0
        self.max_steps = max_steps
        self.ret = None
        self.nrand = 0
        self.alloca_n = 0

    # ---- CFG
    def succs(self, label):
        term = self.f.blocks[label][-1]
        return re.findall(r"label (%[\w.$\-]+)", term)

    def loop_headers(self):
        order = {l: i for i, l in enumerate(self.f.order)}
        hs = set()
        for l in self.f.order:
            for s in self.succs(l):
                if order[s] <= order[l]:
                    hs.add(s)
                    # the loop (blocks between header and latch in layout order) and its exit blocks
                    body = set(x for x in self.f.order if order[s] <= order[x] <= order[l])
                    for x in body:
                        for t in self.succs(x):
                            if t not in body and self.cut_exits:
                                hs.add(t)
        return hs

    # ---- operands
    def val(self, ty, tok):
        tok = tok.strip()
        if tok.startswith("%"):
            v = self.env[tok]
            return v
        if tok.startswith("@"):
            self.ensure_global(tok)
            return Ptr(tok, 0)
        if tok in ("null",):
            return Ptr(None, 0)
        if tok in ("undef", "poison"):
            raise Stuck("use of undef/poison")
        if tok == "true":
            return self.b.const(1, 1)
        if tok == "false":
            return self.b.const(1, 0)
        if ty[0] == "int":
            return self.b.const(ty[1], int(tok))
        if tok.startswith("getelementptr") or tok.startswith("bitcast"):
            return self.const_expr(tok)
        raise Stuck("operand " + tok)

    def const_expr(self, tok):
        m = re.match(r"^getelementptr (?:inbounds )?\((.*)\)$", tok)
        if m:
            parts = split_top(m.group(1))
            base_ty = parse_type(parts[0], None)
            pt, pv = self.mod.split_type_prefix(parts[1])
            p = self.val(("ptr",), pv)
            idx = []
            for x in parts[2:]:
                it, iv = self.mod.split_type_prefix(x)
                idx.append(int(iv))
            return Ptr(p.region, p.off + self.gep_offset(base_ty, idx))
        m = re.match(r"^bitcast \((.*) to .*\)$", tok)
        if m:
            pt, pv = self.mod.split_type_prefix(m.group(1))
            return self.val(("ptr",), pv)
        raise Stuck("const expr " + tok)

    def ensure_global(self, name):
        if name in self.mem.regions:
            return
        if name not in self.mod.globals:
            raise Stuck("unknown global " + name)
        ty, data, const = self.mod.globals[name]
        size, _ = self.mod.types.size_align(ty)
        if not const:
            raise Stuck("access to writable global " + name)
        self.mem.add(name, size, init=data, writable=False)

    def gep_offset(self, base_ty, idx):
        T = self.mod.types
        off = idx[0] * T.size_align(base_ty)[0]
        t = base_ty
        for i in idx[1:]:
            t = T.resolve(t)
            if t[0] == "arr":
                off += i * T.size_align(t[2])[0]
                t = t[2]
            elif t[0] == "struct":
                o, ft = T.field_offset(t, i)
                off += o
                t = ft
            else:
                raise Stuck("gep into scalar")
        return off

    def conc(self, v, what):
        if isinstance(v, Ptr):
            raise Stuck("pointer used as integer in " + what)
        if not v.is_conc():
            raise Stuck("data-dependent " + what)
        return v.conc

    # ---- cut
    def do_cut(self, label, pred):
        """End the current segment at the entry of `label` (coming from `pred`): the interface is
        [phi incoming values on this edge that are symbolic] ++ [other live symbolic registers] ++ [memory bytes]."""
        blk = self.f.blocks[label]
        phis = []
        for ins in blk:
            m = re.match(r"^(%[\w.$]+) = phi (\S+) (.*)$", ins)
            if not m:
                break
            ty = parse_type(m.group(2), None)
            inc = dict((lab, val) for val, lab in re.findall(r"\[ ([^,\]]+), (%[\w.$\-]+) \]", m.group(3)))
            v = self.val(ty, inc[pred])
            phis.append((m.group(1), v))
        iface_vals, iface_desc, rebinding = [], [], []
        for name, v in phis:
            if isinstance(v, V) and not v.is_conc():
                iface_vals.append(v); iface_desc.append(("phi", name, v.w)); rebinding.append(("phi", name))
        phi_names = set(n for n, _ in phis)
        for name, v in list(self.env.items()):
            if name in phi_names:
                continue
            if isinstance(v, V) and not v.is_conc():
                iface_vals.append(v); iface_desc.append(("reg", name, v.w)); rebinding.append(("reg", name))
        memcells = []
        for rn in sorted(self.mem.regions):
            r = self.mem.regions[rn]
            if not r.writable:
                continue
            for i, c in enumerate(r.cells):
                if c is None:
                    continue
                bv = self.mem._cell_val(c)
                if not bv.is_conc():
                    iface_vals.append(bv); iface_desc.append(("mem", rn, i)); memcells.append((rn, i))
        self.segments.append(Segment(self.b, self.seg_in_desc, iface_vals, iface_desc))
        # new segment
        nb = Builder()
        nb.leak = []
        self.b = nb
        self.mem.b = nb
        new_vals = [nb.inp(v.w) for v in iface_vals]
        k = 0
        fixed_phis = {}
        for kind, name in rebinding:
            if kind == "phi":
                fixed_phis[name] = new_vals[k]
            else:
                self.env[name] = new_vals[k]
            k += 1
        for (rn, i) in memcells:
            self.mem.regions[rn].cells[i] = ("v", new_vals[k]); k += 1
        # concrete memory cells must be re-created with the new builder's constants (they are plain ints: fine)
        self.seg_in_desc = iface_desc
        # concrete phi values
        for name, v in phis:
            if name not in fixed_phis:
                fixed_phis[name] = v
        return fixed_phis

    # ---- run
    def run(self):
        label, pred = self.f.entry_label, None
        while True:
            blk = self.f.blocks[label]
            phi_override = None
            if self.cut and label in self.headers and pred is not None:
                phi_override = self.do_cut(label, pred)
            # phis evaluate simultaneously
            newvals = {}
            idx = 0
            for ins in blk:
                m = re.match(r"^(%[\w.$]+) = phi (\S+) (.*)$", ins)
                if not m:
                    break
                if phi_override is not None:
                    newvals[m.group(1)] = phi_override[m.group(1)]
                else:
                    ty = parse_type(m.group(2), None)
                    inc = dict((lab, val) for val, lab in re.findall(r"\[ ([^,\]]+), (%[\w.$\-]+) \]", m.group(3)))
                    newvals[m.group(1)] = self.val(ty, inc[pred])
                idx += 1
            self.env.update(newvals)
            nxt = None
            for ins in blk[idx:]:
                self.steps += 1
                if self.steps > self.max_steps:
                    raise Stuck("step limit exceeded (non-terminating loop?)")
                nxt = self.step(ins, label)
                if nxt is not None:
                    break
            if nxt == "ret":
                break
            self.b.leak.append(("B", label, nxt))
            pred, label = label, nxt
        # final segment: outputs = memory bytes of symbolic/writable regions (+ return value)
        outs, desc = [], []
        for rn in self.region_order:
            r = self.mem.regions[rn]
            if not r.writable:
                continue
            for i, c in enumerate(r.cells):
                if c is None:
                    outs.append(None); desc.append(("mem-uninit", rn, i))
                else:
                    outs.append(self.mem._cell_val(c)); desc.append(("mem", rn, i))
        if self.ret is not None:
            outs.append(self.ret); desc.append(("ret", "", self.ret.w))
        self.segments.append(Segment(self.b, self.seg_in_desc, outs, desc))
        return self.segments

    def step(self, ins, label):
        b = self.b
        m = re.match(r"^(%[\w.$]+) = (.*)$", ins)
        dst, rhs = (m.group(1), m.group(2)) if m else (None, ins)
        op = rhs.split()[0]
        if op in ("xor", "and", "or", "shl", "lshr", "ashr", "add", "sub", "mul", "udiv", "urem"):
            mm = re.match(r"^\w+ (?:(?:nuw|nsw|exact|disjoint) )*(\S+) ([^,]+), (.+)$", rhs)
            ty = parse_type(mm.group(1), None)
            a, c = self.val(ty, mm.group(2)), self.val(ty, mm.group(3))
            if op == "xor":
                r = b.xor(a, c)
            elif op == "and":
                r = b.and_(a, c)
            elif op == "or":
                r = b.or_(a, c)
            elif op == "shl":
                r = b.shl(a, self.conc(c, "shift amount"))
            elif op == "lshr":
                r = b.lshr(a, self.conc(c, "shift amount"))
            elif op == "ashr":
                k = self.conc(c, "shift amount")
                if a.is_conc():
                    sv = a.conc - (1 << a.w) if a.conc >> (a.w - 1) else a.conc
                    r = b.const(a.w, sv >> k)
                else:
                    raise Stuck("arithmetic shift of symbolic value")
            elif op == "add":
                if isinstance(a, Ptr) or isinstance(c, Ptr):
                    raise Stuck("pointer arithmetic via add")
                r = b.add(a, c)
            elif op == "sub":
                r = b.sub(a, c)
            elif op == "mul":
                r = b.const(ty[1], self.conc(a, "multiplication") * self.conc(c, "multiplication"))
            elif op == "udiv":
                r = b.const(ty[1], self.conc(a, "division") // self.conc(c, "division"))
            else:
                r = b.const(ty[1], self.conc(a, "division") % self.conc(c, "division"))
            self.env[dst] = r
            return None
        if op == "getelementptr":
            mm = re.match(r"^getelementptr (?:inbounds )?(.*)$", rhs)
            parts = split_top(mm.group(1))
            base_ty = parse_type(parts[0], None)
            pt, pv = self.mod.split_type_prefix(parts[1])
            p = self.val(("ptr",), pv)
            idx = []
            for x in parts[2:]:
                it, iv = self.mod.split_type_prefix(x)
                v = self.val(parse_type(it, None), iv)
                n = self.conc(v, "address computation")
                w = parse_type(it, None)[1]
                if n >> (w - 1):
                    n -= 1 << w
                idx.append(n)
            self.env[dst] = Ptr(p.region, p.off + self.gep_offset(base_ty, idx))
            return None
        if op == "load":
            mm = re.match(r"^load (?:volatile )?(\S+), \S+ ([^,]+)", rhs)
            ty = parse_type(mm.group(1), None)
            p = self.val(("ptr",), mm.group(2))
            if p.region is None:
                raise Stuck("null pointer dereference (load)")
            if ty[0] == "ptr":
                raise Stuck("load of a pointer")
            n = (ty[1] + 7) // 8
            v = self.mem.load(p.region, p.off, n)
            self.env[dst] = b.trunc(v, ty[1]) if v.w != ty[1] else v
            return None
        if op == "store":
            mm = re.match(r"^store (?:volatile )?(\S+) ([^,]+), \S+ ([^,]+)", rhs)
            ty = parse_type(mm.group(1), None)
            v = self.val(ty, mm.group(2))
            p = self.val(("ptr",), mm.group(3))
            if p.region is None:
                raise Stuck("null pointer dereference (store)")
            if isinstance(v, Ptr):
                raise Stuck("store of a pointer")
            if v.w % 8:
                v = b.zext(v, (v.w + 7) // 8 * 8)
            self.mem.store(p.region, p.off, v)
            return None
        if op in ("zext", "trunc", "sext", "bitcast", "freeze", "ptrtoint", "inttoptr"):
            if op == "freeze":
                mm2 = re.match(r"^freeze (\S+) (.+)$", rhs)
                self.env[dst] = self.val(parse_type(mm2.group(1), None), mm2.group(2))
                return None
            body = rhs[len(op) + 1:]
            t1s, rest = self.mod.split_type_prefix(body)
            vs, t2s = rest.rsplit(" to ", 1)
            ty, ty2 = parse_type(t1s, None), parse_type(t2s.strip(), None)
            a = self.val(ty, vs)
            if op == "bitcast":
                self.env[dst] = a
            elif op == "zext":
                self.env[dst] = b.zext(a, ty2[1])
            elif op == "trunc":
                self.env[dst] = b.trunc(a, ty2[1])
            elif op == "sext":
                n = self.conc(a, "sign extension")
                if n >> (ty[1] - 1):
                    n -= 1 << ty[1]
                self.env[dst] = b.const(ty2[1], n)
            else:
                raise Stuck("pointer/integer conversion")
            return None
        if op == "icmp":
            mm = re.match(r"^icmp (\w+) (\S+) ([^,]+), (.+)$", rhs)
            ty = parse_type(mm.group(2), None)
            a, c = self.val(ty, mm.group(3)), self.val(ty, mm.group(4))
            if isinstance(a, Ptr) or isinstance(c, Ptr):
                pa = a if isinstance(a, Ptr) else None
                pc = c if isinstance(c, Ptr) else None
                if pa is not None and pc is not None:
                    eq = (pa.region == pc.region and pa.off == pc.off)
                else:
                    raise Stuck("pointer compared with integer")
                r = eq if mm.group(1) == "eq" else (not eq)
                self.env[dst] = b.const(1, int(r))
                return None
            x, y = self.conc(a, "comparison"), self.conc(c, "comparison")
            w = ty[1]
            sx = x - (1 << w) if x >> (w - 1) else x
            sy = y - (1 << w) if y >> (w - 1) else y
            r = {"eq": x == y, "ne": x != y, "ult": x < y, "ule": x <= y, "ugt": x > y, "uge": x >= y,
                 "slt": sx < sy, "sle": sx <= sy, "sgt": sx > sy, "sge": sx >= sy}[mm.group(1)]
            self.env[dst] = b.const(1, int(r))
            return None
        if op == "select":
            mm = re.match(r"^select i1 ([^,]+), (\S+) ([^,]+), (\S+) (.+)$", rhs)
            cnd = self.conc(self.val(("int", 1), mm.group(1)), "select condition")
            ty = parse_type(mm.group(2), None)
            self.env[dst] = self.val(ty, mm.group(3)) if cnd else self.val(ty, mm.group(5))
            return None
        if op == "br":
            mm = re.match(r"^br i1 ([^,]+), label (%[\w.$\-]+), label (%[\w.$\-]+)", rhs)
            if mm:
                cnd = self.conc(self.val(("int", 1), mm.group(1)), "branch condition")
                return mm.group(2) if cnd else mm.group(3)
            mm = re.match(r"^br label (%[\w.$\-]+)", rhs)
            return mm.group(1)
        if op == "switch":
            mm = re.match(r"^switch (\S+) ([^,]+), label (%[\w.$\-]+) \[(.*)\]", rhs)
            ty = parse_type(mm.group(1), None)
            x = self.conc(self.val(ty, mm.group(2)), "switch")
            for cv, lab in re.findall(r"\S+ (-?\d+), label (%[\w.$\-]+)", mm.group(4)):
                if int(cv) & mask(ty[1]) == x:
                    return lab
            return mm.group(3)
        if op == "ret":
            mm = re.match(r"^ret (\S+) (.+)$", rhs)
            if mm and mm.group(1) != "void":
                self.ret = self.val(parse_type(mm.group(1), None), mm.group(2))
            return "ret"
        if op == "alloca":
            mm = re.match(r"^alloca ([^,]+)(?:, (\S+) (\S+))?", rhs)
            ty = parse_type(mm.group(1), None)
            size = self.mod.types.size_align(ty)[0]
            self.alloca_n += 1
            name = "alloca.%s.%d" % (dst, self.alloca_n)
            self.mem.add(name, size)
            self.env[dst] = Ptr(name, 0)
            return None
        if op in ("call", "tail", "notail", "musttail"):
            return self.call(dst, rhs)
        if op == "unreachable":
            raise Stuck("unreachable executed")
        raise Stuck("unsupported instruction: " + ins)

    def call(self, dst, rhs):
        b = self.b
        mm = re.match(r"^(?:tail |notail |musttail )?call (?:\w+ )*?(\S+) (@[\w.$]+)\((.*)\)", rhs)
        if not mm:
            raise Stuck("indirect or unsupported call: " + rhs)
        rty, fn, argstr = mm.group(1), mm.group(2), mm.group(3)
        args = []
        for a in split_top(argstr):
            toks = a.split()
            ty = parse_type(toks[0], None)
            args.append((ty, self.val(ty, toks[-1])))
        if fn.startswith("@llvm.fshl") or fn.startswith("@llvm.fshr"):
            x, y, k = args[0][1], args[1][1], self.conc(args[2][1], "rotate amount")
            w = x.w
            k %= w
            if fn.startswith("@llvm.fshr"):
                k = (w - k) % w
            # fshl(x, y, k) = (x << k) | (y >> (w - k))
            r = x if k == 0 else (b.rotl(x, k) if x is y or (not x.is_conc() and not y.is_conc() and x.ref == y.ref) or (x.is_conc() and y.is_conc() and x.conc == y.conc)
                                   else b.or_(b.shl(x, k), b.lshr(y, w - k)))
            self.env[dst] = r
            return None
        if fn.startswith("@llvm.bswap"):
            x = args[0][1]
            n = x.w // 8
            bs = [b.byte_of(x, i) for i in range(n)]
            r = bs[n - 1]
            for i in range(n - 2, -1, -1):
                r = b.concat(bs[i], r)
            self.env[dst] = r
            return None
        if fn.startswith("@llvm.lifetime") or fn.startswith("@llvm.assume") or fn.startswith("@llvm.dbg") or fn.startswith("@llvm.experimental.noalias"):
            return None
        if fn.startswith("@llvm.memcpy") or fn.startswith("@llvm.memmove") or fn == "@memcpy" or fn == "@memmove":
            d, s, n = args[0][1], args[1][1], self.conc(args[2][1], "memcpy length")
            if n:
                if d.region is None or s.region is None:
                    raise Stuck("memcpy with a null pointer and non-zero length")
                vals = [self.mem.load(s.region, s.off + i, 1) for i in range(n)]
                for i, v in enumerate(vals):
                    self.mem.store(d.region, d.off + i, v)
            if dst:
                self.env[dst] = d
            return None
        if fn.startswith("@llvm.memset") or fn == "@memset":
            d, c, n = args[0][1], args[1][1], self.conc(args[2][1], "memset length")
            c8 = b.trunc(c, 8) if c.w > 8 else c
            if n and d.region is None:
                raise Stuck("memset with a null pointer")
            for i in range(n):
                self.mem.store(d.region, d.off + i, c8)
            if dst:
                self.env[dst] = d
            return None
        if fn.startswith("@llvm.umin") or fn.startswith("@llvm.umax"):
            x, y = self.conc(args[0][1], "min/max"), self.conc(args[1][1], "min/max")
            self.env[dst] = b.const(args[0][1].w, min(x, y) if "umin" in fn else max(x, y))
            return None
        if fn in self.rand_fns:
            w = int(rty[1:])
            self.nrand += 1
            v = b.inp(w)
            self.seg_in_desc = self.seg_in_desc + [("rand", fn, self.nrand)]
            self.env[dst] = v
            return None
        if fn in self.callbacks:
            r = self.callbacks[fn](self, args)
            if dst:
                self.env[dst] = r
            return None
        if fn in self.mod.funcs:
            # inline by recursive execution in the same builder/memory
            sub = Exec.__new__(Exec)
            sub.__dict__.update(self.__dict__)
            sub.f = self.mod.funcs[fn]
            sub.env = {}
            for (ty, pname), (_, a) in zip(sub.f.params, args):
                sub.env[pname] = a
            sub.headers = set()
            sub.cut = False
            sub.ret = None
            label, pred = sub.f.entry_label, None
            while True:
                blk = sub.f.blocks[label]
                newvals, idx = {}, 0
                for ins in blk:
                    m = re.match(r"^(%[\w.$]+) = phi (\S+) (.*)$", ins)
                    if not m:
                        break
                    ty = parse_type(m.group(2), None)
                    inc = dict((lab, val) for val, lab in re.findall(r"\[ ([^,\]]+), (%[\w.$\-]+) \]", m.group(3)))
                    newvals[m.group(1)] = sub.val(ty, inc[pred])
                    idx += 1
                sub.env.update(newvals)
                nxt = None
                for ins in blk[idx:]:
                    self.steps += 1
                    nxt = sub.step(ins, label)
                    if nxt is not None:
                        break
                if nxt == "ret":
                    break
                pred, label = label, nxt
            self.nrand = sub.nrand
            self.seg_in_desc = sub.seg_in_desc
            self.alloca_n = sub.alloca_n
            if dst:
                self.env[dst] = sub.ret
            return None
        raise Stuck("call to unknown function " + fn)
