#!/usr/bin/env python3
"""Regenerate every coq/Gen/*.v from /repo's current source (the (T) ties).
Prints MISSING lines for anything a translator could not find."""
import os, sys, subprocess
V = os.path.dirname(os.path.dirname(os.path.abspath(__file__)))
repo = os.environ.get("VERIF_REPO", "/repo")
os.makedirs(os.path.join(V, "coq", "Gen"), exist_ok=True)
rc = 0
# VERIF_GEN_HOOKS=<comma list of hook name prefixes>: run only those hooks (used by tools/seedtest.py to keep the critical section
# short; lib/stdflow.py then verifies that the property file depends on no generated file of a hook that was skipped)
only = os.environ.get("VERIF_GEN_HOOKS")
only = None if only is None else [x for x in only.split(",") if x]
for tool in sorted(os.listdir(os.path.join(V, "tools", "gen.d"))):
    p = os.path.join(V, "tools", "gen.d", tool)
    if only is not None and not any(tool.startswith(x) for x in only):
        continue
    if os.access(p, os.X_OK):
        r = subprocess.run([p, repo], stdout=subprocess.PIPE, stderr=subprocess.STDOUT)
        sys.stdout.write(r.stdout.decode())
        rc |= r.returncode
sys.exit(rc)
