#!/usr/bin/env python3
"""Regenerate every coq/Gen/*.v from /repo's current source (the (T) ties).
Prints MISSING lines for anything a translator could not find."""
import os, sys, subprocess
V = os.path.dirname(os.path.dirname(os.path.abspath(__file__)))
repo = os.environ.get("VERIF_REPO", "/repo")
os.makedirs(os.path.join(V, "coq", "Gen"), exist_ok=True)
rc = 0
for tool in sorted(os.listdir(os.path.join(V, "tools", "gen.d"))):
    p = os.path.join(V, "tools", "gen.d", tool)
    if os.access(p, os.X_OK):
        r = subprocess.run([p, repo], stdout=subprocess.PIPE, stderr=subprocess.STDOUT)
        sys.stdout.write(r.stdout.decode())
        rc |= r.returncode
sys.exit(rc)
