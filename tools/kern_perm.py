#!/usr/bin/env python3
"""(T) translator for the C permutation kernels: compiles the backend's
ascon_permute with clang to LLVM IR, executes it symbolically for every
first_round 0..12 (cut at the loop header and exit), discovers how the
interface variables hold the state, and writes coq/Gen/Kern_<backend>.v with
the segments and the chains; Coq re-checks every segment for all inputs."""
import os, sys, random, hashlib
sys.path.insert(0, os.path.dirname(os.path.abspath(__file__)))
import llvmx
from symx import Stuck

BACKENDS = {
    # name: (source file, defines, layout)
    "c64": ("core/ascon-c64.c", ["ASCON_FORCE_C64"], "KL64"),
    "c32": ("core/ascon-c32.c", ["ASCON_FORCE_C32"], "KL32"),
    "c64dx": ("core/ascon-c64.c", ["ASCON_FORCE_DIRECT_XOR"], "KL8"),
}


def interleave_split(x):
    e = o = 0
    for j in range(32):
        e |= ((x >> (2 * j)) & 1) << j
        o |= ((x >> (2 * j + 1)) & 1) << j
    return e, o


def internal_words(layout, xs):
    if layout in ("KL32", "KL32BE"):
        out = []
        for x in xs:
            e, o = interleave_split(x)
            out += [e, o]
        return out, 32
    return list(xs), 64


def mem_bytes(layout, xs):
    ws, w = internal_words(layout, xs)
    out = []
    for v in ws:
        bs = [(v >> (8 * k)) & 255 for k in range(w // 8)]
        out += bs[::-1] if layout in ("KL8", "KL32BE") else bs
    return out


M64 = (1 << 64) - 1


def ror(x, k):
    return ((x >> k) | (x << (64 - k))) & M64


def ascon_round(x, r):
    x0, x1, x2, x3, x4 = x
    x2 ^= ((0xF - r) << 4) | r
    x0 ^= x4; x4 ^= x3; x2 ^= x1
    t0 = x0 ^ (~x1 & x2 & M64); t1 = x1 ^ (~x2 & x3 & M64); t2 = x2 ^ (~x3 & x4 & M64); t3 = x3 ^ (~x4 & x0 & M64); t4 = x4 ^ (~x0 & x1 & M64)
    t1 ^= t0; t0 ^= t4; t3 ^= t2; t2 = ~t2 & M64
    return [t0 ^ ror(t0, 19) ^ ror(t0, 28), t1 ^ ror(t1, 61) ^ ror(t1, 39), t2 ^ ror(t2, 1) ^ ror(t2, 6),
            t3 ^ ror(t3, 10) ^ ror(t3, 17), t4 ^ ror(t4, 7) ^ ror(t4, 41)]


def discover_T(seg, layout, rng, pre_segs_eval):
    """Find, for the leading 'phi' outputs of seg, which internal word (possibly inverted) each holds,
    by evaluating the prologue on a random state.  Returns (T list, others widths) or None."""
    return None


def eval_chain_to(segs, upto, mem):
    vals = mem
    for s in segs[:upto + 1]:
        vals = s.b.evaluate(vals, s.outs)
    return vals


def renumber_inputs(text, perm):
    """rename (WIn i) -> (WIn perm[i]) in a program text"""
    import re
    return re.sub(r"\(WIn (\d+)\)", lambda m: "(WIn %d)" % perm[int(m.group(1))], text)


def llvm_runs(repo, name):
    src, defs, layout = BACKENDS[name]
    txt = llvmx.compile_ll(os.path.join(repo, "src", src), defs=defs, incs=[os.path.join(repo, "src"), os.path.join(repo, "src", "ascon")])
    mod = llvmx.Module(txt)

    def one(k):
        e = llvmx.Exec(mod, "@ascon_permute", [("ptr", "state", 0), ("int", k)], {"state": {"size": 40, "symbolic": True}}, cut=True)
        return e.run()
    return layout, one


def asm_x86_runs(repo, name):
    import asm_x86
    path = os.path.join(repo, "src", "core", "ascon-asm-x86-64.S")
    text = asm_x86.preprocess(path, incs=[os.path.join(repo, "src"), os.path.join(repo, "src", "core")])
    items, tables, directives = asm_x86.parse(text)

    def one(k):
        m = asm_x86.X86(items, tables, "ascon_permute", {"rdi": ("ptr", "state", 0), "rsi": ("int", k)},
                        {"state": {"size": 40, "symbolic": True}}, cut=lambda lab: lab.startswith(".L"))
        return m.run()
    return "KL64", one


# C18: further assembly front ends register themselves here: name -> provider(repo, name) -> (layout, one)
ASM_PROVIDERS = {}
for _mod in ("asm_arm", "asm_i386", "asm_m68k", "asm_riscv", "asm_xtensa"):
    try:
        ASM_PROVIDERS.update(__import__(_mod).PROVIDERS)
    except ImportError:
        pass


def run_backend(repo, name):
    if name == "x86_64":
        layout, one = asm_x86_runs(repo, name)
    elif name in ASM_PROVIDERS:
        layout, one = ASM_PROVIDERS[name](repo, name)
    else:
        layout, one = llvm_runs(repo, name)
    rng = random.Random(1)
    segtab, chains, errors = {}, {}, []
    for k in range(13):
        try:
            segs = one(k)
        except Stuck as ex:
            errors.append("first_round=%d: %s" % (k, ex))
            continue
        xs = [rng.getrandbits(64) for _ in range(5)]
        ws, w = internal_words(layout, xs)
        vals = mem_bytes(layout, xs)
        vals += [rng.getrandbits(wd) for wd in segs[0].b.in_widths[len(vals):]]
        done_rounds = 0
        ifaces, rounds, in_perm = ["IMem [%s]" % "; ".join(str(wd) for wd in segs[0].b.in_widths[40:])], [], None
        texts = []
        ok = True
        for si, s in enumerate(segs):
            last = si == len(segs) - 1
            if any(o is None for o in s.outs):
                errors.append("first_round=%d: output memory left uninitialised" % k); ok = False; break
            vals = s.b.evaluate(vals, s.outs)
            # how many rounds has the state advanced?  (at most one per segment)
            r_here = []
            if not last:
                found = None
                for extra in ((1, 0) if (k + done_rounds < 12 and si >= 1) else (0,)):
                    cand_xs = xs if extra == 0 else ascon_round(xs, k + done_rounds)
                    cws, _ = internal_words(layout, cand_xs)
                    T, used = [], set()
                    order = []
                    for need in range(len(cws)):
                        hit = None
                        for pos, (v, d) in enumerate(zip(vals, s.out_desc)):
                            width = 8 if d[0] == "mem" else d[2]
                            if width != w or pos in used or d[0] == "mem":
                                continue
                            if v == cws[need]:
                                hit = (pos, False)
                            elif v == (~cws[need] & ((1 << w) - 1)):
                                hit = (pos, True)
                            if hit:
                                break
                        if hit is None:
                            break
                        used.add(hit[0]); T.append((need, hit[1])); order.append(hit[0])
                    if len(T) == len(cws):
                        found = (extra, T, order, cand_xs)
                        break
                if found is None:
                    errors.append("first_round=%d: cannot identify the state variables at cut %d" % (k, si)); ok = False; break
                extra, T, order, cand_xs = found
                if extra:
                    r_here = [k + done_rounds]; done_rounds += 1; xs = cand_xs
                # reorder the interface: state variables first
                rest = [p for p in range(len(vals)) if p not in set(order)]
                out_perm = order + rest
                others = [(8 if s.out_desc[p][0] == "mem" else s.out_desc[p][2]) for p in rest]
                iface = "IVars [%s] [%s]" % ("; ".join("(%d, %s)" % (i, "true" if inv else "false") for i, inv in T), "; ".join(map(str, others)))
                outs = [s.outs[p] for p in out_perm]
            else:
                # the last segment may still perform one round (fall-through into the epilogue)
                exp_mem = mem_bytes(layout, xs)
                if vals[:40] != exp_mem:
                    nx = ascon_round(xs, k + done_rounds) if k + done_rounds < 12 else None
                    if nx is not None and vals[:40] == mem_bytes(layout, nx):
                        r_here = [k + done_rounds]; done_rounds += 1; xs = nx
                    else:
                        errors.append("first_round=%d: final memory is not the permuted state (concrete test)" % k); ok = False; break
                iface = "IMem []"
                outs = s.outs[:40]
                out_perm = None
            body = s.b.coq_prog(outs)
            if in_perm is not None:
                inv = {old: new for new, old in enumerate(in_perm)}
                body = renumber_inputs(body, inv)
            text = "{| s_prog := %s; s_in := %s; s_out := %s; s_rounds := [%s] |}" % (body, ifaces[-1], iface, "; ".join(map(str, r_here)))
            ifaces.append(iface)
            in_perm = out_perm
            texts.append(text)
        if not ok:
            continue
        if done_rounds != 12 - k:
            errors.append("first_round=%d: %d rounds identified, expected %d" % (k, done_rounds, 12 - k)); continue
        ids = []
        for text in texts:
            h = hashlib.sha1(text.encode()).hexdigest()[:12]
            if h not in segtab:
                segtab[h] = (len(segtab), text, 0)
            ids.append(segtab[h][0])
        chains[k] = ids
    return layout, segtab, chains, errors


def emit(name, layout, segtab, chains, out):
    L = ["(* GENERATED by tools/kern_perm.py from /repo's current source (clang -O1 LLVM IR of ascon_permute, backend %s) *)" % name,
         "From Coq Require Import List NArith.", "From AsconV Require Import Sym.Wexpr Sym.Kernel.", "Import ListNotations.", "Local Open Scope nat_scope.", ""]
    items = sorted(segtab.values())
    for idx, text, n in items:
        L.append("Definition %s_seg%d : seg := %s." % (name, idx, text))
    L.append("Definition %s_layout : klayout := %s." % (name, layout))
    L.append("Definition %s_segs : list seg := [%s]." % (name, "; ".join("%s_seg%d" % (name, idx) for idx, _, _ in items)))
    L.append("Definition %s_chains : list (nat * list nat) := [%s]." % (name, "; ".join("(%d, [%s])" % (k, "; ".join(map(str, chains[k]))) for k in sorted(chains))))
    from symx import write_if_changed
    write_if_changed(out, "\n".join(L) + "\n")


if __name__ == "__main__":
    repo = sys.argv[1] if len(sys.argv) > 1 else "/repo"
    gen = os.path.join(os.path.dirname(os.path.dirname(os.path.abspath(__file__))), "coq", "Gen")
    os.makedirs(gen, exist_ok=True)
    only = sys.argv[2:]
    for name in [n for n in list(BACKENDS) + ["x86_64"] + list(ASM_PROVIDERS) if not only or n in only]:
        try:
            layout, segtab, chains, errors = run_backend(repo, name)
        except Stuck as ex:
            layout, segtab, chains, errors = (BACKENDS[name][2] if name in BACKENDS else 'KL64'), {}, {}, [str(ex)]
        emit(name, layout, segtab, chains, os.path.join(gen, "Kern_%s.v" % name))
        for e in errors:
            print("MISSING kern_perm %s: %s" % (name, e))
        print("kern_perm %s: %d segments, %d chains" % (name, len(segtab), len(chains)))
