#!/usr/bin/env python3
"""(T) translator for the kernel clause of C12: memory safety of the internal
masked-word / masked-state toolkit.

Every function of
    src/masking/ascon-masked-word-c64.c / -c32.c / -direct.c        (clang -O1 LLVM IR, tools/llvmx.py)
    src/masking/ascon-x{2,3,4}-c64.c / -c32.c                       (the masked permutations, idem)
    src/masking/ascon-word-asm-x86-64.S                             (host assembly, tools/asm_x86.py)
is compiled for each ASCON_MASKED_MAX_SHARES in {2,3,4} and executed
symbolically (data symbolic, control and addresses concrete) with memory
regions sized exactly as the C types say:

    ascon_masked_word_t      8 * MAX_SHARES bytes
    ascon_masked_state_t     5 * 8 * MAX_SHARES bytes
    byte buffers             exactly `size` bytes (8 for load/store, 4+4 for load_32)
    preserve (permute)       8 * (shares - 1) bytes
    random source            ascon_trng_generate_64/_32 return fresh symbolic words

for every value of the small control arguments (size, offset, first_round).
The executor gets *stuck* on any access outside its region, on a read of
uninitialised memory, on a data-dependent address/branch and - added here -
on a shift by >= the width and on an alignment assumption about a byte
buffer.  A run that is not stuck is a bounds proof for that function on the
translated code for ALL data values; a stuck run on valid arguments is a
proved violation whose replay is (config, function, arguments).

Output: coq/Gen/Bounds.v - the verdict table as Coq data (re-checked by
Props/Properties_C12.v: C12_kernel_bounds) - and a JSON copy for lib/p_c12.py
(build/bounds.json).  Lines starting with MISSING are printed for functions
the tool cannot classify (a new function in the file: its regions are not
declared) or files that no longer compile.

NOTE: the stuck semantics lives in this Python executor (tools/symx.py
Region.check), not in Coq: Coq re-checks the verdict table only."""
import os, sys, re, json, hashlib
sys.path.insert(0, os.path.dirname(os.path.abspath(__file__)))
import llvmx
from symx import Stuck

VERIF = os.path.dirname(os.path.dirname(os.path.abspath(__file__)))

WORD_FILES = [
    # tag, source, defines
    ("word-c64", "masking/ascon-masked-word-c64.c", ["ASCON_FORCE_C64"]),
    ("word-c32", "masking/ascon-masked-word-c32.c", ["ASCON_FORCE_C32"]),
    ("word-direct", "masking/ascon-masked-word-direct.c", ["ASCON_FORCE_C64", "ASCON_MASKED_WORD_BACKEND_DIRECT_XOR=1"]),
]
PERM_FILES = [
    ("x2-c64", "masking/ascon-x2-c64.c", ["ASCON_FORCE_C64"], 2),
    ("x3-c64", "masking/ascon-x3-c64.c", ["ASCON_FORCE_C64"], 3),
    ("x4-c64", "masking/ascon-x4-c64.c", ["ASCON_FORCE_C64"], 4),
    ("x2-c32", "masking/ascon-x2-c32.c", ["ASCON_FORCE_C32"], 2),
    ("x3-c32", "masking/ascon-x3-c32.c", ["ASCON_FORCE_C32"], 3),
    ("x4-c32", "masking/ascon-x4-c32.c", ["ASCON_FORCE_C32"], 4),
]
RAND = ("@ascon_trng_generate_64", "@ascon_trng_generate_32")


class BExec(llvmx.Exec):
    """llvmx.Exec + two more stuck conditions that are undefined behaviour in C:
    shift by >= width, and an alignment assumption (align > 1) on a byte buffer."""
    byte_regions = ()

    def step(self, ins, label):
        m = re.match(r"^(?:%[\w.$]+ = )?(shl|lshr|ashr) (?:(?:nuw|nsw|exact) )*(\S+) ([^,]+), (.+)$", ins)
        if m:
            ty = llvmx.parse_type(m.group(2), None)
            k = self.val(ty, m.group(4))
            if not isinstance(k, llvmx.Ptr) and k.is_conc() and k.conc >= ty[1]:
                raise Stuck("undefined shift: %s by %d in a %d-bit type" % (m.group(1), k.conc, ty[1]))
        m = re.match(r"^(?:%[\w.$]+ = )?(load|store) .*?, \S+ (%[\w.$]+)(?:, align (\d+))?", ins)
        if m and m.group(3) and int(m.group(3)) > 1:
            p = self.env.get(m.group(2))
            if isinstance(p, llvmx.Ptr) and p.region in self.byte_regions:
                raise Stuck("alignment assumption: %s with align %s on byte buffer %s" % (m.group(1), m.group(3), p.region))
        return llvmx.Exec.step(self, ins, label)

    def call(self, dst, rhs):
        # constant expressions as call arguments (e.g. the address of a static array) are bound to temporaries first
        k = 0
        while True:
            i = min([x for x in (rhs.find("getelementptr inbounds ("), rhs.find("getelementptr ("), rhs.find("bitcast (")) if x >= 0] or [-1])
            if i < 0:
                break
            j, depth = rhs.index("(", i), 0
            for e in range(j, len(rhs)):
                depth += rhs[e] == "("
                depth -= rhs[e] == ")"
                if depth == 0:
                    break
            name = "%%__ce%d" % k
            k += 1
            self.env[name] = self.const_expr(rhs[i:e + 1])
            rhs = rhs[:i] + name + rhs[e + 1:]
        return llvmx.Exec.call(self, dst, rhs)


def classify(fname, n):
    """-> list of cases for this function, each (args-dict for the record, valid, llvm args, regions, byte region names), or None if unknown.
    n = MAX_SHARES; word = 8n bytes.
    `valid` (is the call within contract?) is only this tool's opinion, used for the report in build/bounds.json.  The theorems decide it
    with the hand-written Coq predicate Model/BoundsDefs.in_contract and demand that the two agree on every entry and that every
    (configuration, function, argument) of the hand-written list Obl/BoundsReq.bounds_required is present
    (Props: C12_kernel_required, C12_kernel_flags_and_extent): a case dropped or flagged differently here breaks the proof."""
    W = 8 * n
    m = re.match(r"^@ascon_masked_word_(?:x([234])_)?(\w+)$", fname)
    if not m:
        return None
    k, op = m.group(1), m.group(2)

    def word(sym):
        return {"size": W, "symbolic": sym}

    def buf(sz):
        return {"size": sz, "symbolic": True, "writable": False}

    def obuf(sz):
        return {"size": sz}

    trng = ("ptr", "trng", 0)
    tr = {"size": 0}
    cases = []
    if k is None:
        if op == "pad":
            for off in range(0, 9):
                cases.append(({"offset": off}, off <= 7, [("ptr", "word", 0), ("int", off)], {"word": word(True)}, ()))
            return cases
        if op == "separator":
            return [({}, True, [("ptr", "word", 0)], {"word": word(True)}, ())]
        return None
    if op == "zero":
        return [({}, True, [("ptr", "word", 0), trng], {"word": word(False), "trng": tr}, ())]
    if op == "load":
        return [({}, True, [("ptr", "word", 0), ("ptr", "data", 0), trng], {"word": word(False), "data": buf(8), "trng": tr}, ("data",))]
    if op == "load_partial":
        # documented: size between 1 and 7; 0 is what the callers' `if (len > 0)` excludes (still must be harmless); 8 is outside
        for sz in range(0, 9):
            cases.append(({"size": sz}, 1 <= sz <= 7, [("ptr", "word", 0), ("ptr", "data", 0) if sz else ("ptr", None, 0), ("int", sz), trng],
                          {"word": word(False), "data": buf(sz), "trng": tr}, ("data",)))
        return cases
    if op == "load_32":
        return [({}, True, [("ptr", "word", 0), ("ptr", "data1", 0), ("ptr", "data2", 0), trng],
                 {"word": word(False), "data1": buf(4), "data2": buf(4), "trng": tr}, ("data1", "data2"))]
    if op == "store":
        return [({}, True, [("ptr", "data", 0), ("ptr", "word", 0)], {"data": obuf(8), "word": word(True)}, ("data",))]
    if op == "store_partial":
        for sz in range(0, 9):
            cases.append(({"size": sz}, sz <= 7, [("ptr", "data", 0) if sz else ("ptr", None, 0), ("int", sz), ("ptr", "word", 0)],
                          {"data": obuf(sz), "word": word(True)}, ("data",)))
        return cases
    if op in ("randomize",) or op.startswith("from_x"):
        return [({"alias": 0}, True, [("ptr", "dest", 0), ("ptr", "src", 0), trng], {"dest": word(False), "src": word(True), "trng": tr}, ()),
                ({"alias": 1}, True, [("ptr", "dest", 0), ("ptr", "dest", 0), trng], {"dest": word(True), "trng": tr}, ())]
    if op == "xor":
        return [({}, True, [("ptr", "dest", 0), ("ptr", "src", 0)], {"dest": word(True), "src": word(True)}, ())]
    if op == "replace":
        for sz in range(0, 9):
            cases.append(({"size": sz}, sz <= 7, [("ptr", "dest", 0), ("ptr", "src", 0), ("int", sz)], {"dest": word(True), "src": word(True)}, ()))
        return cases
    return None


def footprint(mem, regions):
    """per declared region: (bytes read?, written byte offsets) from the region objects"""
    out = []
    for name in regions:
        r = mem.regions[name]
        w = sorted(r.written)
        out.append((name, r.size, w))
    return out


def rng_text(offs):
    """compact rendering of a sorted offset list: '0-7,16-23'"""
    if not offs:
        return "-"
    parts, a, b = [], offs[0], offs[0]
    for o in offs[1:]:
        if o == b + 1:
            b = o
        else:
            parts.append((a, b)); a = b = o
    parts.append((a, b))
    return ",".join("%d-%d" % p if p[0] != p[1] else "%d" % p[0] for p in parts)


def run_case(mod, fname, args, regions, byte_regions):
    e = BExec(mod, fname, args, dict(regions), rand_fns=RAND)
    e.byte_regions = set(byte_regions)
    try:
        e.run()
    except Stuck as ex:
        return ("stuck", str(ex), "")
    fp = footprint(e.mem, regions)
    # a store into a read-only (input) region is caught by symx; what remains to report is the written range
    return ("ok", "", "; ".join("%s[%d]:w=%s" % (n, s, rng_text(w)) for n, s, w in fp if s))


def stuck_kind(msg):
    if msg.startswith("out-of-bounds"):
        return "oob"
    if "uninitialised" in msg:
        return "uninit"
    if msg.startswith("undefined shift"):
        return "ubshift"
    if msg.startswith("alignment"):
        return "align"
    if "null pointer" in msg:
        return "null"
    if "data-dependent" in msg:
        return "datadep"
    return "other"


def do_word_files(repo, entries, missing, summary):
    incs = [os.path.join(repo, "src"), os.path.join(repo, "src", "ascon")]
    for tag, src, defs in WORD_FILES:
        for n in (2, 3, 4):
            cfg = "%s/max%d" % (tag, n)
            try:
                txt = llvmx.compile_ll(os.path.join(repo, "src", src), defs=defs + ["ASCON_MASKED_MAX_SHARES=%d" % n], incs=incs)
                mod = llvmx.Module(txt)
            except Stuck as ex:
                missing.append("kern_bounds %s: %s" % (cfg, str(ex)[:300])); continue
            if not mod.funcs:
                missing.append("kern_bounds %s: no function compiled from %s (backend macro changed?)" % (cfg, src)); continue
            nf = 0
            for fname in mod.funcs:
                cases = classify(fname, n)
                if cases is None:
                    missing.append("kern_bounds %s: function %s has no declared region shape (new function?)" % (cfg, fname)); continue
                nf += 1
                for rec, valid, args, regions, byte_regions in cases:
                    verdict, msg, fp = run_case(mod, fname, args, regions, byte_regions)
                    entries.append({"config": cfg, "file": src, "defines": defs + ["ASCON_MASKED_MAX_SHARES=%d" % n], "function": fname[1:],
                                    "args": rec, "valid": valid, "verdict": verdict, "kind": stuck_kind(msg) if verdict == "stuck" else "", "detail": msg or fp,
                                    "call": [list(a) for a in args], "regions": {k: v["size"] for k, v in regions.items()}})
            summary.append("kern_bounds %s: %d functions" % (cfg, nf))


def do_perm_files(repo, entries, missing, summary):
    incs = [os.path.join(repo, "src"), os.path.join(repo, "src", "ascon")]
    for tag, src, defs, shares in PERM_FILES:
        for n in (2, 3, 4):
            if n < shares:
                continue
            cfg = "%s/max%d" % (tag, n)
            try:
                txt = llvmx.compile_ll(os.path.join(repo, "src", src), defs=defs + ["ASCON_MASKED_MAX_SHARES=%d" % n], incs=incs)
                mod = llvmx.Module(txt)
            except Stuck as ex:
                missing.append("kern_bounds %s: %s" % (cfg, str(ex)[:300])); continue
            fname = "@ascon_x%d_permute" % shares
            if fname not in mod.funcs:
                missing.append("kern_bounds %s: %s not found in %s" % (cfg, fname, src)); continue
            for other in mod.funcs:
                if other != fname:
                    missing.append("kern_bounds %s: function %s has no declared region shape (new function?)" % (cfg, other))
            for fr in range(0, 14):
                regions = {"state": {"size": 5 * 8 * n, "symbolic": True}, "preserve": {"size": 8 * (shares - 1), "symbolic": True}}
                verdict, msg, fp = run_case(mod, fname, [("ptr", "state", 0), ("int", fr), ("ptr", "preserve", 0)], regions, ())
                entries.append({"config": cfg, "file": src, "defines": defs + ["ASCON_MASKED_MAX_SHARES=%d" % n], "function": fname[1:],
                                "args": {"first_round": fr}, "valid": fr <= 12, "verdict": verdict,
                                "kind": stuck_kind(msg) if verdict == "stuck" else "", "detail": msg or fp,
                                "call": [["ptr", "state", 0], ["int", fr], ["ptr", "preserve", 0]], "regions": {k: v["size"] for k, v in regions.items()}})
            summary.append("kern_bounds %s: first_round 0..13" % cfg)


# ---------------------------------------------------------------- x86-64 assembly word functions
def do_asm_word(repo, entries, missing, summary):
    import asm_x86
    path = os.path.join(repo, "src", "masking", "ascon-word-asm-x86-64.S")
    if not os.path.exists(path):
        missing.append("kern_bounds word-x86_64: %s is gone" % path); return
    SYSV = ["rdi", "rsi", "rdx", "rcx"]
    for n in (2, 3, 4):
        cfg = "word-x86_64/max%d" % n
        try:
            text = asm_x86.preprocess(path, incs=[os.path.join(repo, "src"), os.path.join(repo, "src", "masking")],
                                      defs=["ASCON_MASKED_MAX_SHARES=%d" % n])
            items, tables, directives = asm_x86.parse(text)
        except Stuck as ex:
            missing.append("kern_bounds %s: %s" % (cfg, str(ex)[:300])); continue
        globs = [it[1] for it in items if it[0] == "label" and it[1].startswith("ascon_masked_word_")]
        if not globs:
            missing.append("kern_bounds %s: no ascon_masked_word_* label after preprocessing" % cfg); continue
        nf = 0
        for g in globs:
            cases = classify("@" + g, n)
            if cases is None:
                missing.append("kern_bounds %s: function %s has no declared region shape (new function?)" % (cfg, g)); continue
            nf += 1
            for rec, valid, args, regions, byte_regions in cases:
                regs = {}
                for r, a in zip(SYSV, args):
                    regs[r] = a
                try:
                    m = asm_x86.X86(items, tables, g, regs, dict(regions), rand_fns=("ascon_trng_generate_64", "ascon_trng_generate_32"))
                    m.run()
                    fp = footprint(m.mem, regions)
                    verdict, msg, det = "ok", "", "; ".join("%s[%d]:w=%s" % (nm, s, rng_text(w)) for nm, s, w in fp if s)
                except Stuck as ex:
                    verdict, msg, det = "stuck", str(ex), ""
                except Exception as ex:      # a lowering gap is not a verdict about the code
                    verdict, msg, det = "stuck", "executor error: %r" % (ex,), ""
                entries.append({"config": cfg, "file": "masking/ascon-word-asm-x86-64.S", "defines": ["ASCON_MASKED_MAX_SHARES=%d" % n], "function": g,
                                "args": rec, "valid": valid, "verdict": verdict, "kind": stuck_kind(msg) if verdict == "stuck" else "", "detail": msg or det})
        summary.append("kern_bounds %s: %d functions" % (cfg, nf))


# ---------------------------------------------------------------- x86-64 assembly masked permutations
def do_asm_perm(repo, entries, missing, summary):
    import asm_x86
    for shares in (2, 3, 4):
        rel = "masking/ascon-x%d-asm-x86-64.S" % shares
        path = os.path.join(repo, "src", rel)
        for n in (2, 3, 4):
            if n < shares:
                continue
            cfg = "x%d-x86_64/max%d" % (shares, n)
            g = "ascon_x%d_permute" % shares
            try:
                text = asm_x86.preprocess(path, incs=[os.path.join(repo, "src"), os.path.join(repo, "src", "masking")],
                                          defs=["ASCON_MASKED_MAX_SHARES=%d" % n])
                items, tables, directives = asm_x86.parse(text)
            except Stuck as ex:
                missing.append("kern_bounds %s: %s" % (cfg, str(ex)[:300])); continue
            if g not in [it[1] for it in items if it[0] == "label"]:
                missing.append("kern_bounds %s: label %s not found" % (cfg, g)); continue
            for fr in range(0, 14):
                regions = {"state": {"size": 5 * 8 * n, "symbolic": True}, "preserve": {"size": 8 * (shares - 1), "symbolic": True}}
                try:
                    m = asm_x86.X86(items, tables, g, {"rdi": ("ptr", "state", 0), "rsi": ("int", fr), "rdx": ("ptr", "preserve", 0)}, dict(regions))
                    m.run()
                    fp = footprint(m.mem, regions)
                    verdict, msg, det = "ok", "", "; ".join("%s[%d]:w=%s" % (nm, s, rng_text(w)) for nm, s, w in fp if s)
                except Stuck as ex:
                    verdict, msg, det = "stuck", str(ex), ""
                entries.append({"config": cfg, "file": rel, "defines": ["ASCON_MASKED_MAX_SHARES=%d" % n], "function": g,
                                "args": {"first_round": fr}, "valid": fr <= 12, "verdict": verdict,
                                "kind": stuck_kind(msg) if verdict == "stuck" else "", "detail": msg or det})
            summary.append("kern_bounds %s: first_round 0..13" % cfg)


# ---------------------------------------------------------------- masked state / key toolkit (callers of the word functions)
# Callees are replaced by their *contracts*: a pointer to an ascon_masked_word_t must have 8*MAX_SHARES bytes inside its
# region, a data pointer the documented number of bytes; written footprints become fresh symbolic bytes.  The callees
# themselves are the functions checked above, so caller + callee contracts compose.
def contract_callbacks(n):
    W = 8 * n

    def need(ex, p, size, what, write):
        if size == 0:
            return
        if p.region is None:
            raise Stuck("null pointer passed to %s" % what)
        r = ex.mem.regions[p.region]
        r.check(p.off, size, ("write" if write else "read") + " (by callee %s)" % what)
        if write:
            if not r.writable:
                raise Stuck("read-only region %s passed to %s for writing" % (p.region, what))
            for i in range(size):
                ex.mem.store(p.region, p.off + i, ex.b.inp(8))

    def mk(spec, name):
        def cb(ex, args):
            vals = [a for (_, a) in args]
            for idx, size, write in spec:
                sz = size
                if isinstance(size, tuple):          # ("arg", k): size is the k-th (concrete) argument
                    sz = ex.conc(vals[size[1]], "size argument of " + name)
                need(ex, vals[idx], sz, name, write)
            return ex.b.const(32, 0)
        return cb
    cbs = {}
    for k in (2, 3, 4):
        p = "@ascon_masked_word_x%d_" % k
        cbs[p + "zero"] = mk([(0, W, True)], p + "zero")
        cbs[p + "load"] = mk([(0, W, True), (1, 8, False)], p + "load")
        cbs[p + "load_partial"] = mk([(0, W, True), (1, ("arg", 2), False)], p + "load_partial")
        cbs[p + "load_32"] = mk([(0, W, True), (1, 4, False), (2, 4, False)], p + "load_32")
        cbs[p + "store"] = mk([(1, W, False), (0, 8, True)], p + "store")
        cbs[p + "store_partial"] = mk([(2, W, False), (0, ("arg", 1), True)], p + "store_partial")
        cbs[p + "randomize"] = mk([(1, W, False), (0, W, True)], p + "randomize")
        cbs[p + "xor"] = mk([(1, W, False), (0, W, True)], p + "xor")
        cbs[p + "replace"] = mk([(1, W, False), (0, W, True)], p + "replace")
        for j in (2, 3, 4):
            if j != k:
                cbs[p + "from_x%d" % j] = mk([(1, W, False), (0, W, True)], p + "from_x%d" % j)
    cbs["@ascon_clean"] = mk([(0, ("arg", 1), True)], "ascon_clean")
    cbs["@ascon_init"] = mk([(0, 40, True)], "ascon_init")
    cbs["@ascon_free"] = mk([(0, 40, True)], "ascon_free")
    for nm in ("@ascon_acquire", "@ascon_release", "@ascon_trng_init", "@ascon_trng_free", "@ascon_backend_init", "@ascon_backend_free"):
        cbs[nm] = mk([], nm)

    def overwrite(ex, args):
        vals = [a for (_, a) in args]
        off, sz = ex.conc(vals[2], "offset"), ex.conc(vals[3], "size")
        if off + sz > 40:
            raise Stuck("out-of-bounds: ascon_overwrite_bytes offset %d size %d exceeds the 40-byte state" % (off, sz))
        need(ex, vals[1], sz, "ascon_overwrite_bytes", False)
        need(ex, llvmx.Ptr(vals[0].region, vals[0].off + off), sz, "ascon_overwrite_bytes", True)
        return ex.b.const(32, 0)

    def extract(ex, args):
        vals = [a for (_, a) in args]
        off, sz = ex.conc(vals[2], "offset"), ex.conc(vals[3], "size")
        if off + sz > 40:
            raise Stuck("out-of-bounds: ascon_extract_bytes offset %d size %d exceeds the 40-byte state" % (off, sz))
        need(ex, llvmx.Ptr(vals[0].region, vals[0].off + off), sz, "ascon_extract_bytes", False)
        need(ex, vals[1], sz, "ascon_extract_bytes", True)
        return ex.b.const(32, 0)
    cbs["@ascon_overwrite_bytes"] = overwrite
    cbs["@ascon_extract_bytes"] = extract
    return cbs


def toolkit_cases(fname, n):
    """argument/region shapes of ascon-masked-state.c and ascon-masked-key.c"""
    ST = 5 * 8 * n
    trng = ("ptr", "trng", 0)
    tr = {"size": 0}
    m = re.match(r"^@ascon_x([234])_(randomize|copy_from_x1|copy_to_x1|copy_from_x[234])$", fname)
    if m:
        op = m.group(2)
        if op == "randomize":
            return [({}, True, [("ptr", "state", 0), trng], {"state": {"size": ST, "symbolic": True}, "trng": tr})]
        if op == "copy_from_x1":
            return [({}, True, [("ptr", "dest", 0), ("ptr", "src", 0), trng],
                     {"dest": {"size": ST}, "src": {"size": 40, "symbolic": True, "writable": False}, "trng": tr})]
        if op == "copy_to_x1":
            return [({}, True, [("ptr", "dest", 0), ("ptr", "src", 0)], {"dest": {"size": 40}, "src": {"size": ST, "symbolic": True, "writable": False}})]
        return [({"alias": 0}, True, [("ptr", "dest", 0), ("ptr", "src", 0), trng], {"dest": {"size": ST}, "src": {"size": ST, "symbolic": True, "writable": False}, "trng": tr}),
                ({"alias": 1}, True, [("ptr", "dest", 0), ("ptr", "dest", 0), trng], {"dest": {"size": ST, "symbolic": True}, "trng": tr})]
    if fname in ("@ascon_masked_state_init",):
        return [({}, True, [("ptr", "state", 0)], {"state": {"size": ST}})]
    if fname in ("@ascon_masked_state_free",):
        return [({}, True, [("ptr", "state", 0)], {"state": {"size": ST, "symbolic": True}}), ({"null": 1}, True, [("ptr", None, 0)], {})]
    m = re.match(r"^@ascon_masked_key_(128|160)_(init|free|randomize_with_trng|randomize|extract)$", fname)
    if m:
        bits, op = int(m.group(1)), m.group(2)
        KS = (2 if bits == 128 else 6) * 32       # ascon_masked_key_word_t is always 4 x 64 bits
        kb = bits // 8
        if op == "init":
            return [({}, True, [("ptr", "masked", 0), ("ptr", "key", 0)], {"masked": {"size": KS}, "key": {"size": kb, "symbolic": True, "writable": False}})]
        if op == "free":
            return [({}, True, [("ptr", "masked", 0)], {"masked": {"size": KS, "symbolic": True}}), ({"null": 1}, True, [("ptr", None, 0)], {})]
        if op == "randomize_with_trng":
            return [({}, True, [("ptr", "masked", 0), trng], {"masked": {"size": KS, "symbolic": True}, "trng": tr})]
        if op == "randomize":
            return [({}, True, [("ptr", "masked", 0)], {"masked": {"size": KS, "symbolic": True}})]
        if op == "extract":
            return [({}, True, [("ptr", "masked", 0), ("ptr", "key", 0)], {"masked": {"size": KS, "symbolic": True, "writable": False}, "key": {"size": kb}})]
    return None


def do_toolkit(repo, entries, missing, summary):
    incs = [os.path.join(repo, "src"), os.path.join(repo, "src", "ascon")]
    jobs = []
    for be, d in (("c64", "ASCON_FORCE_C64"), ("c32", "ASCON_FORCE_C32"), ("directxor", "ASCON_FORCE_DIRECT_XOR")):
        for n in (2, 3, 4):
            jobs.append(("state-%s/max%d" % (be, n), "masking/ascon-masked-state.c", [d, "ASCON_MASKED_MAX_SHARES=%d" % n], n))
    for n in (2, 3, 4):
        for k in range(2, n + 1):
            jobs.append(("key/key%d-max%d" % (k, n), "masking/ascon-masked-key.c",
                         ["ASCON_FORCE_C64", "ASCON_MASKED_MAX_SHARES=%d" % n, "ASCON_MASKED_KEY_SHARES=%d" % k, "ASCON_MASKED_DATA_SHARES=1"], n))
    for cfg, src, defs, n in jobs:
        try:
            mod = llvmx.Module(llvmx.compile_ll(os.path.join(repo, "src", src), defs=defs, incs=incs))
        except Stuck as ex:
            missing.append("kern_bounds %s: %s" % (cfg, str(ex)[:300])); continue
        cbs = contract_callbacks(n)
        nf = 0
        for fname in mod.funcs:
            cases = toolkit_cases(fname, n)
            if cases is None:
                missing.append("kern_bounds %s: function %s has no declared region shape (new function?)" % (cfg, fname)); continue
            nf += 1
            for rec, valid, args, regions in cases:
                e = BExec(mod, fname, args, dict(regions), rand_fns=RAND, callbacks=cbs)
                try:
                    e.run()
                    fp = footprint(e.mem, regions)
                    verdict, msg, det = "ok", "", "; ".join("%s[%d]:w=%s" % (nm, s, rng_text(w)) for nm, s, w in fp if s)
                except Stuck as ex:
                    verdict, msg, det = "stuck", str(ex), ""
                entries.append({"config": cfg, "file": src, "defines": defs, "function": fname[1:], "args": rec, "valid": valid, "verdict": verdict,
                                "kind": stuck_kind(msg) if verdict == "stuck" else "", "detail": msg or det})
        summary.append("kern_bounds %s: %d functions (callees by contract)" % (cfg, nf))


# ---------------------------------------------------------------- incremental AEAD (audit 2, gap 7b)
# The nine public functions of src/aead/ascon-aead-inc-{128,128a,80pq}.c, executed from entry to return on three state layouts
# (tools/kern_ct.py's linker: the translation unit + ascon-aead-common.c + ascon-aead-util.c + the byte-range file of the back end +
# ascon-clean.c; ONLY ascon_permute is a contract: 40 bytes of the state rewritten) with every object a region of EXACTLY its
# documented size: the state object sizeof(ascon*_state_t) = 80 bytes, the key 16 / 20 bytes, nonce and tag 16 bytes, associated
# data and in/out chunks exactly `len` bytes (NULL for empty associated data).  Runs LAST: kern_ct installs the word-arithmetic
# expansion of symx_arith (needed by ascon_aead_check_tag inside *_decrypt_finalize), which must not touch the runs above.
INC_ALGS = (("ascon128", "128", 16, 8), ("ascon128a", "128a", 16, 16), ("ascon80pq", "80pq", 20, 8))
INC_CFGS = ("default", "c32", "directxor")


def inc_lens(r):
    return [0, 1, r - 1, r, r + 1, 2 * r + 3]


def inc_cases(kc, alg, klen, rate):
    """-> [(function, args record, llvm args, [Data], byte regions)]"""
    D = kc.Data
    po = 72 if klen == 16 else 76            # offsetof(posn): public bookkeeping inside the object
    noff = 40 + klen                         # offsetof(nonce)
    null = ("ptr", None, 0)
    out = []
    for op, fresh in (("init", True), ("reinit", False)):
        for n in ((0, 1) if fresh else (0, 1, 2)):
            for k in (0, 1):
                out.append((alg + "_aead_" + op, {"k": k, "npub": n},
                            [("ptr", "state", 0), ("ptr", "state", noff) if n == 2 else ("ptr", "npub", 0) if n else null, ("ptr", "k", 0) if k else null],
                            [D("state", 80, out=True) if fresh else D("state", 80, pub_at={po: 3}), D("npub", 16), D("k", klen)], ("npub", "k")))
    for a in inc_lens(rate):
        out.append((alg + "_aead_start", {"adlen": a}, [("ptr", "state", 0), ("ptr", "ad", 0) if a else null, ("int", a)],
                    [D("state", 80, pub_at={po: 0}), D("ad", a)], ("ad",)))
    for op in ("encrypt_block", "decrypt_block"):
        for alias in (0, 1):
            for p in (0, 1, rate - 1):
                for n in inc_lens(rate):
                    out.append((alg + "_aead_" + op, {"alias": alias, "len": n, "posn": p},
                                [("ptr", "state", 0), ("ptr", "in", 0), ("ptr", "in" if alias else "out", 0), ("int", n)],
                                [D("state", 80, pub_at={po: p}), D("in", n)] + ([] if alias else [D("out", n, out=True)]), ("in", "out")))
    for p in range(rate):
        out.append((alg + "_aead_encrypt_finalize", {"posn": p}, [("ptr", "state", 0), ("ptr", "tag", 0)], [D("state", 80, pub_at={po: p}), D("tag", 16, out=True)], ("tag",)))
        out.append((alg + "_aead_decrypt_finalize", {"posn": p}, [("ptr", "state", 0), ("ptr", "tag", 0)], [D("state", 80, pub_at={po: p}), D("tag", 16)], ("tag",)))
    out.append((alg + "_aead_free", {}, [("ptr", "state", 0)], [D("state", 80, pub_at={po: 0})], ()))
    out.append((alg + "_aead_free", {"null": 1}, [null], [], ()))
    return out


def do_inc_aead(repo, entries, missing, summary):
    import kern_ct as kc
    for cfg in INC_CFGS:
        tag = "aead-inc/" + cfg
        nf = 0
        for alg, suf, klen, rate in INC_ALGS:
            src = "aead/ascon-aead-inc-%s.c" % suf
            srcs = [src, "aead/ascon-aead-common.c", "aead/ascon-aead-util.c"] + kc.CORE[cfg] + ["core/ascon-clean.c"]
            try:
                mod = kc.load(repo, srcs, cfg)
            except Stuck as ex:
                missing.append("kern_bounds %s: %s" % (tag, str(ex)[:300])); continue
            known = set()
            for fn, rec, args, datas, byte_regions in inc_cases(kc, alg, klen, rate):
                known.add("@" + fn)
                if "@" + fn not in mod.funcs:
                    missing.append("kern_bounds %s: function %s not found in %s" % (tag, fn, src)); continue
                bx = type("BX", (BExec,), {"byte_regions": set(byte_regions)})
                regions = {d.name: d.size for d in datas}
                try:
                    ex, leak = kc.run_once(mod, "@" + fn, args, datas, "sym", havoc=kc.PERM, exec_cls=bx)
                    fp = [(d.name, d.size, sorted(ex.mem.regions[d.name].written)) for d in datas]
                    verdict, msg, det = "ok", "", "; ".join("%s[%d]:w=%s" % (nm, sz, rng_text(w)) for nm, sz, w in fp if sz)
                except Stuck as e2:
                    verdict, msg, det = "stuck", str(e2), ""
                except (KeyError, AttributeError, TypeError, IndexError, ValueError, RecursionError) as e2:
                    verdict, msg, det = "stuck", "executor error: %r" % (e2,), ""
                entries.append({"config": tag, "file": src, "defines": list(kc.CFG_DEFS[cfg]), "function": fn, "args": rec, "valid": True, "verdict": verdict,
                                "kind": stuck_kind(msg) if verdict == "stuck" else "", "detail": msg or det, "regions": regions})
                nf += 1
            # a function added to the file must get a declared shape
            txt_funcs = [f for f in llvmx.Module(llvmx.compile_ll(os.path.join(repo, "src", src), defs=kc.CFG_DEFS[cfg],
                                                                   incs=[os.path.join(repo, "src"), os.path.join(repo, "src", "ascon")])).funcs]
            for f in txt_funcs:
                if f not in known:
                    missing.append("kern_bounds %s: function %s has no declared region shape (new function?)" % (tag, f))
        summary.append("kern_bounds %s: %d runs (ascon_permute by contract)" % (tag, nf))


# ---------------------------------------------------------------- output
def coq_string(s):
    s = s.replace('"', "'")
    s = "".join(ch if 32 <= ord(ch) < 127 else "?" for ch in s)
    return '"%s"' % s


def emit(entries, out):
    L = ["(* GENERATED by tools/kern_bounds.py from /repo's current source: verdicts of the symbolic bounds run",
         "   (regions sized by the C types; the stuck semantics is in tools/symx.py / llvmx.py / asm_x86.py). *)",
         "From Coq Require Import List NArith String.", "From AsconV Require Import Model.BoundsDefs.", "Import ListNotations.",
         "Local Open Scope string_scope.", "Local Open Scope N_scope.", ""]
    L.append("Definition bounds_entries : list bentry := [")
    rows = []
    for e in entries:
        args = "[" + "; ".join("(%s, %d)" % (coq_string(k), v) for k, v in sorted(e["args"].items())) + "]"
        if e["verdict"] == "ok":
            v = "VOk %s" % coq_string(e["detail"][:200])
        else:
            v = "VStuck %s %s" % ({"oob": "KOob", "uninit": "KUninit", "ubshift": "KShift", "align": "KAlign", "null": "KNull", "datadep": "KDataDep", "other": "KOther"}[e["kind"]],
                                   coq_string(e["detail"][:200]))
        rows.append("  mk_bentry %s %s %s %s (%s)" % (coq_string(e["config"]), coq_string(e["function"]), args, "true" if e["valid"] else "false", v))
    L.append(";\n".join(rows))
    L.append("].")
    open(out, "w").write("\n".join(L) + "\n")


def input_hash(repo):
    h = hashlib.sha256()
    d = os.path.join(repo, "src")
    for sub in ("masking", "core", "aead"):
        for f in sorted(os.listdir(os.path.join(d, sub))):
            if f.endswith((".c", ".h", ".S")) and (sub != "core" or f.endswith(".h") or f in ("ascon-sliced64.c", "ascon-sliced32.c", "ascon-direct-xor.c", "ascon-clean.c")):
                h.update(f.encode()); h.update(open(os.path.join(d, sub, f), "rb").read())
    for f in ("ascon/aead.h", "ascon/permutation.h"):
        h.update(f.encode()); h.update(open(os.path.join(d, f), "rb").read())
    for f in ("kern_bounds.py", "llvmx.py", "symx.py", "asm_x86.py", "kern_ct.py", "symx_arith.py"):
        h.update(open(os.path.join(VERIF, "tools", f), "rb").read())
    return h.hexdigest()


def main():
    repo = sys.argv[1] if len(sys.argv) > 1 else os.environ.get("VERIF_REPO", "/repo")
    gen = os.path.join(VERIF, "coq", "Gen")
    os.makedirs(gen, exist_ok=True)
    os.makedirs(os.path.join(VERIF, "build"), exist_ok=True)
    jpath = os.path.join(VERIF, "build", "bounds.json")
    vpath = os.path.join(gen, "Bounds.v")
    hsh = input_hash(repo)
    if os.path.exists(jpath) and os.path.exists(vpath):
        try:
            old = json.load(open(jpath))
            if old.get("hash") == hsh:
                for m in old["missing"]:
                    print("MISSING " + m)
                print(old["summary"][-1] + " (cached: inputs unchanged)")
                return 0
        except Exception:
            pass
    entries, missing, summary = [], [], []
    do_word_files(repo, entries, missing, summary)
    do_perm_files(repo, entries, missing, summary)
    do_asm_word(repo, entries, missing, summary)
    do_asm_perm(repo, entries, missing, summary)
    do_toolkit(repo, entries, missing, summary)
    do_inc_aead(repo, entries, missing, summary)          # last (see the comment there)
    emit(entries, vpath + ".tmp")
    # keep the old file (and its .vo) when nothing changed
    if os.path.exists(vpath) and open(vpath).read() == open(vpath + ".tmp").read():
        os.remove(vpath + ".tmp")
    else:
        os.replace(vpath + ".tmp", vpath)
    for e in entries:
        if e["verdict"] == "stuck" and e["kind"] in ("other", "datadep") and e["valid"]:
            missing.append("kern_bounds %s: %s %s could not be executed (%s)" % (e["config"], e["function"], json.dumps(e["args"], sort_keys=True), e["detail"][:160]))
    nst = sum(1 for e in entries if e["verdict"] == "stuck" and e["valid"])
    summary.append("kern_bounds: %d symbolic runs in %d configurations (masked word/state/key toolkit and masked permutations, C and x86-64 asm, MAX_SHARES 2..4; "
                   "incremental AEAD functions on three state layouts): "
                   "%d stuck on valid arguments, %d stuck on out-of-contract probes" %
                   (len(entries), len(set(e["config"] for e in entries)), nst, sum(1 for e in entries if e["verdict"] == "stuck" and not e["valid"])))
    json.dump({"hash": hsh, "repo": repo, "entries": entries, "missing": missing, "summary": summary}, open(jpath, "w"), indent=0)
    for m in missing:
        print("MISSING " + m)
    print(summary[-1])
    return 0


if __name__ == "__main__":
    sys.exit(main())
