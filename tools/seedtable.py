#!/usr/bin/env python3
"""Regenerate seeded/README.md from the meta/confirm/result files of every seeded change."""
import os, json, glob
V = os.path.dirname(os.path.dirname(os.path.abspath(__file__)))
rows = []
for d in sorted(glob.glob(os.path.join(V, "seeded", "*"))):
    if not os.path.isdir(d):
        continue
    g = lambda f: json.load(open(os.path.join(d, f))) if os.path.exists(os.path.join(d, f)) else {}
    m, c, r = g("meta.json"), g("confirm.json"), g("result.json")
    res = []
    for pid, x in sorted(r.items()):
        how = "CAUGHT" if x.get("caught") else "MISSED"
        if x.get("caught"):
            how += " (no concrete input)" if x.get("no_failing_input") else " with concrete replay"
        res.append("%s %s: %s" % (pid, x.get("tier"), how))
    rows.append("| %s | %s | %s | %s | %s |" % (os.path.basename(d), (m.get("summary") or "").replace("|", "/")[:220],
                                               (m.get("configuration") or "default").replace("|", "/")[:60],
                                               "yes" if c.get("confirmed") else "NO", "; ".join(res) or "not run"))
txt = ["# Seeded changes", "",
       "Each directory holds a change made by a fresh sub-agent that saw only the property text and a scratch worktree of /repo:",
       "`patch.diff`, the demonstration (`demo.sh` + source), `meta.json`; `confirm.json` is my own confirmation (patch applies to /repo's HEAD,",
       "default build, complete ctest passes, demonstration shows the wrong behaviour); `result.json` is the outcome of running the property's",
       "check(s) against the patched tree (`tools/seedtest.py seeded/<name>`; in place: `git -C /repo apply seeded/<name>/patch.diff; ./check <ID>; git -C /repo checkout -- .`).", "",
       "| change | what it breaks | configuration needed | confirmed | checks |", "|---|---|---|---|---|"] + rows
open(os.path.join(V, "seeded", "README.md"), "w").write("\n".join(txt) + "\n")
print("\n".join(rows))
