#!/usr/bin/env python3
"""Regenerate seeded/README.md from the meta/confirm/result files of every seeded change."""
import os, json, glob
V = os.path.dirname(os.path.dirname(os.path.abspath(__file__)))
# changes the property's own check missed when first run, and what was added to the check (then re-run: caught)
STRENGTHENED = {
 "C02-1": "C02 had no multi-packet sessions on one state object (C07 and C14 did catch it): valid multi-packet decrypt sessions added",
 "C05-2": "PBKDF2 outputs stopped at 100 bytes: outputs beyond 255 blocks (8161, 8251 bytes; thorough 16500, 40000) added",
 "C07-2": "no history reached hmac/kmac/kdf through *_reinit: RE:<seed> variants (prior history on the same object, then reinit) added",
 "C18-1": "exec-stack note checked only in the default build: every .S is now also preprocessed with no backend selected (empty object must keep the note)",
 "C13-1": "wipes checked only with MAX_SHARES=4: builds with fewer shares added for the share-independent masked key types",
 "C01-4": "masked entry points ran only with the default share split: share-configuration builds and an explicit empty-AD / empty-message corner matrix per entry point added",
 "C02-3": "tag corruptions were single bits / random: equal differences in two tag bytes at word distances added (a (T) obligation for the 128-bit OR is beyond the ANF engine, see DESIGN 8.1)",
 "C02-4": "masked decrypt ran only with the default share split: share-configuration builds added (C10 also catches it)",
 "C05-3": "password/salt lengths skipped the 64-byte HMAC block: 63/64/65/128 added",
 "C07-3": "HKDF streams in C07 were short: splits of the last legal block (255) across calls added (C05 did catch the same mutation)",
 "C15-4": "the system back end was always substituted: histories with the library's real Linux back end under the getrandom-failing LD_PRELOAD shim added",
 "C04-3": "PrfShort lengths were in-range: declared lengths up to SIZE_MAX with small buffers added (must be refused untouched)",
 "C17-4": "hex helper inputs had no white space: added; this also exposed that Model/Cppm.v still described the pre-fix helper (model corrected, DESIGN 8.4)",
 "C01-5": "C01 had no multi-packet sessions on one incremental object: packet sessions compared with the one-shot result under N+i added",
 "C01-6": "key/data share pair 4/3 was in no C01 build: added to the quick tier (C10 did catch it)",
 "C03-5": "no request of 2^32 bytes or more: thorough tier now runs harness/x_huge.c (one-call squeeze/absorb of 2^32+k bytes against chunked calls); quick tier cannot afford 4 GiB",
 "C03-6": "declared lengths skipped values whose bit count equals a special byte count: 2, 4, 8, 255, 256 added",
 "C04-5": "the PRF object was only used one-shot in C04 (C07 did catch it): incremental absorb calls straddling the 32-byte block added",
 "C06-5": "quick tier had no generic-backend build (its SnP macros are a separate variant): added",
 "C06-6": "messages of 2^32 bytes or more: thorough tier x_huge (SIV: no unencrypted run anywhere in 2^32+24 bytes, round trip)",
 "C02-5": "associated data of 2^32 bytes or more: thorough tier x_huge (ISAP: flipped AD bits and the AD cut to its length mod 2^32 must be rejected)",
 "C13-6": "C++ objects were destroyed as their concrete type only: now alternately through the abstract ascon::aead interface",
 "C15-6": "storage read and write callbacks always failed together: independent outcomes added",
 "C18-5": "the AArch64 front end passed first_round as a clean constant: AAPCS64 leaves the upper register bits of a uint8_t argument unspecified - now a symbolic word that only an explicit masking instruction turns into the constant",
 "C19-5": "output files never pre-existed with longer content: existing-longer-output cases added (decrypt over it, re-encrypt over an older image)",
}
STRENGTHENED.update({
 "C01-9": "packet sessions never re-keyed through *_aead_reinit: re-keying between packets with the object's own (documented) nonce field as the argument added",
 "C01-10": "C++ AEAD objects were always keyed before the nonce was set: set_nonce-then-set_key path added",
 "C02-9": "masked keys were used straight after creation: AEM operations with the key re-randomized once or twice before use added",
 "C02-10": "session nonces carried only out of the low 4 bytes: carries out of the low 8 bytes and the full wrap added to C02's packet sessions (C14 did catch it)",
 "C03-10": "no XOF/XOFA history reached its start through *_reinit / _reinit_fixed / _reinit_custom: reinit after a prior history (nothing, whole blocks, a partial block, squeezed) added",
 "C04-9": "HMAC / KMAC in C04 never went through *_reinit (C07 did): RE:<seed> variants added to C04 and to the KDF lines of C05",
 "C06-10": "a refused set_key (wrong length, NULL) on the C++ SIV/ISAP/AEAD objects was never followed by use: setkeybad path added",
 "C12-10": "the scripted storage write callback looked at no more than 32 bytes of what it was handed: it now reads all `size` bytes, so a size beyond the library's buffer is an over-read in the sanitised builds",
 "C13-9": "the plain C64 backend (ascon-sliced64.c without the assembly hooks) was built only in the thorough tier: added to the quick tier",
 "C18-9": "ascon_backend_free of the RISC-V / Xtensa / AArch64 files was analysed but its ABI facts were only recorded: a clobbered callee-saved register now blocks the file's obligations",
})
STRENGTHENED.update({
 "C01-7": "lengths of 2^32 and more ran only in the thorough tier: AD of 2^32+5 zero bytes through each variant's one-shot encryption (read-only zero pages, three processes side by side) added to the quick tier",
 "C02-7": "ISAP decryption never went through a saved and reloaded key in C02 (C06 had it): reloaded-key sessions with a valid and a forged ciphertext added",
 "C02-8": "no quick-tier build with one data share: (4,1,4) build added for the masked entry points",
 "C03-8": "pad() was exercised only by C07: new theorems xof_pad_zeros / C03_pad (pad = absorbing zeroes to the block boundary) and pad() calls inside a quarter of the XOF/XOFA histories",
 "C04-7": "HMAC output never overlapped its key: out == key histories (one-shot and finalize) added",
 "C05-8": "PBKDF2 counts stopped at 100: counts of 2^32 and more must still be iterating after 1.5 s (child process), small-count control",
 "C06-7": "the C++ SIV/ISAP classes were exercised only by C17: SIVC / ISAPC operations (key constructor / set_key, pointer / byte_array overload) added to C06 and C02",
 "C14-7": "an empty set_nonce after a non-zero held nonce was in the sampled C17 histories only by chance: two targeted histories per class added",
 "C15-8": "the mixer check compared whole seeds: a one-bit change at each of the 32 byte positions of the init seed and of the reseed seed must change the words",
 "C18-8": "the ARM front end treated bx like a plain jump: interworking modelled (bx / pop {pc} with a local label's address in Thumb code leaves Thumb state = stuck)",
})
rows = []
for d in sorted(glob.glob(os.path.join(V, "seeded", "*"))):
    if not os.path.isdir(d):
        continue
    g = lambda f: json.load(open(os.path.join(d, f))) if os.path.exists(os.path.join(d, f)) else {}
    m, c, r = g("meta.json"), g("confirm.json"), g("result.json")
    res = []
    for pid, x in sorted(r.items()):
        how = "CAUGHT" if x.get("caught") else "MISSED"
        if x.get("caught"):
            how += " (no concrete input)" if x.get("no_failing_input") else " with concrete replay"
        res.append("%s %s: %s" % (pid, x.get("tier"), how))
    name = os.path.basename(d)
    rows.append("| %s | %s | %s | %s | %s | %s |" % (name, (m.get("summary") or "").replace("|", "/")[:220],
                                                    (m.get("configuration") or "default").replace("|", "/")[:60],
                                                    "yes" if c.get("confirmed") else "NO", "; ".join(res) or "not run",
                                                    ("first run MISSED; " + STRENGTHENED[name]) if name in STRENGTHENED else ""))
txt = ["# Seeded changes", "",
       "Each directory holds a change made by a fresh sub-agent that saw only the property text and a scratch worktree of /repo:",
       "`patch.diff`, the demonstration (`demo.sh` + source), `meta.json`; `confirm.json` is my own confirmation (patch applies to /repo's HEAD,",
       "default build, complete ctest passes, demonstration shows the wrong behaviour); `result.json` is the outcome of running the property's",
       "check(s) against the patched tree (`tools/seedtest.py seeded/<name>`; in place: `git -C /repo apply seeded/<name>/patch.diff; ./check <ID>; git -C /repo checkout -- .`).", "",
       "| change | what it breaks | configuration needed | confirmed | checks (after strengthening) | history |", "|---|---|---|---|---|---|"] + rows
open(os.path.join(V, "seeded", "README.md"), "w").write("\n".join(txt) + "\n")
print("\n".join(rows))
