"""RISC-V (RV64I, RV32I, RV32E; GNU as syntax) front end of the symbolic
executor for the checked-in files
    src/core/ascon-asm-riscv64i.S   (rv64i: uint64_t S[5] in registers, layout KL64)
    src/core/ascon-asm-riscv32i.S   (rv32i: bit-interleaved uint32_t W[10] in registers, layout KL32)
    src/core/ascon-asm-riscv32e.S   (rv32e: same layout, 16 registers; the odd words live in memory)
The file is preprocessed with `gcc -E -undef` and the target macros that
ascon-select-backend.h tests (__riscv, __riscv_xlen, __riscv_32e), parsed and
executed with asm_rvxt_base.Machine.  The lowering table in RV.step (one entry
per mnemonic that occurs in the files, plus their immediate neighbours) is
the trusted ISA model (RISC-V unprivileged ISA 20191213, chapters 2, 5, 25);
no RISC-V assembler or emulator exists in this sandbox, so it is not
cross-checked against hardware.

Calling convention (psABI, confirmed by tools/genriscv/ascon_riscv{32,64}.c):
a0 = state pointer, a1 = first_round (uint8_t, zero-extended by the caller),
ra = return address; preserved: sp, gp, tp, s0..s11 (ilp32e: s0, s1);
everything else is scratch.  No stack arguments: a load or store at or above
the entry sp is Stuck, as is one below the current sp."""
import os, re, time
import asm_rvxt_base
from asm_rvxt_base import Machine, Stuck, Ptr, V, RetAddr, Init, DEAD, sx

ABI = ["zero", "ra", "sp", "gp", "tp", "t0", "t1", "t2", "s0", "s1", "a0", "a1", "a2", "a3", "a4", "a5", "a6", "a7",
       "s2", "s3", "s4", "s5", "s6", "s7", "s8", "s9", "s10", "s11", "t3", "t4", "t5", "t6"]
ALIAS = {"x%d" % i: n for i, n in enumerate(ABI)}
ALIAS["fp"] = "s0"
PRESERVED = ["gp", "tp"] + ["s%d" % i for i in range(12)]

FILES = {
    # name: (file, target macros, XLEN, E, layout)
    "rv64i": ("ascon-asm-riscv64i.S", ["__riscv", "__riscv_xlen=64"], 64, False, "KL64"),
    "rv32i": ("ascon-asm-riscv32i.S", ["__riscv", "__riscv_xlen=32"], 32, False, "KL32"),
    "rv32e": ("ascon-asm-riscv32e.S", ["__riscv", "__riscv_xlen=32", "__riscv_32e"], 32, True, "KL32"),
}


class RV(Machine):
    SP = "sp"

    def __init__(self, items, entry, regs_init, regions, xlen=64, rve=False, **kw):
        self.XLEN = xlen
        self.rve = rve
        self.REGS = ABI[:16] if rve else list(ABI)
        Machine.__init__(self, items, entry, regs_init, regions, **kw)

    def default_spec(self, r):
        if r == "zero":
            return ("int", 0)
        if r == "ra":
            return ("ret",)
        if r == "sp":
            return ("sp",)
        if r in PRESERVED:
            return ("init",)
        return ("sym",)

    def preserved(self):
        return [r for r in PRESERVED if r in self.REGS]

    def canon(self, name):
        r = ALIAS.get(name, name)
        if r not in ABI:
            raise Stuck("unknown register " + name)
        if r not in self.REGS:
            raise Stuck("register %s does not exist in RV32E" % name)
        return r

    def put(self, name, v):
        if self.canon(name) == "zero":
            return
        if self.canon(name) in ("gp", "tp"):
            raise Stuck("write to %s" % name)
        Machine.put(self, name, v)

    def memop(self, s):
        m = re.match(r"^(-?\w*)\((\w+)\)$", s)
        if not m:
            raise Stuck("bad memory operand " + s)
        disp = self.imm(m.group(1), -2048, 2047, "load/store offset") if m.group(1) else 0
        return self.get(m.group(2)), disp

    def addsub(self, a, b, sign):
        if isinstance(a, Ptr) and isinstance(b, V):
            return Ptr(a.region, a.off + sign * sx(self.conc(b, "pointer arithmetic"), self.XLEN))
        if isinstance(b, Ptr) and isinstance(a, V) and sign > 0:
            return Ptr(b.region, b.off + sx(self.conc(a, "pointer arithmetic"), self.XLEN))
        x, y = self.conc(a, "addition/subtraction"), self.conc(b, "addition/subtraction")
        return self.b.const(self.XLEN, x + sign * y)

    def step(self, op, ops):
        b, X = self.b, self.XLEN
        if op in ("ld", "lw", "lwu", "lhu", "lbu"):
            n = {"ld": 8, "lw": 4, "lwu": 4, "lhu": 2, "lbu": 1}[op]
            if op in ("ld", "lwu") and X != 64:
                raise Stuck("%s is not an RV32 instruction" % op)
            if op == "lw" and X == 64:
                raise Stuck("lw on RV64 (sign-extending load) is not modelled")
            base, disp = self.memop(ops[1])
            v = self.load(base, disp, n)
            if isinstance(v, V) and v.w < X:
                v = b.zext(v, X)
            self.put(ops[0], v)
        elif op in ("sd", "sw", "sh", "sb"):
            n = {"sd": 8, "sw": 4, "sh": 2, "sb": 1}[op]
            if op == "sd" and X != 64:
                raise Stuck("sd is not an RV32 instruction")
            base, disp = self.memop(ops[1])
            self.store(base, disp, self.get(ops[0]), n)
        elif op == "li":
            n = int(ops[1], 0)
            if n < -(1 << (X - 1)) or n > (1 << X) - 1:
                raise Stuck("li immediate out of range")
            self.put(ops[0], b.const(X, n))
        elif op == "mv":
            self.put(ops[0], self.get(ops[1]))
        elif op == "not":                                   # xori rd, rs, -1
            self.put(ops[0], b.not_(self.val(ops[1])))
        elif op in ("xor", "and", "or"):
            f = {"xor": b.xor, "and": b.and_, "or": b.or_}[op]
            self.put(ops[0], f(self.val(ops[1]), self.val(ops[2])))
        elif op in ("xori", "andi", "ori"):
            f = {"xori": b.xor, "andi": b.and_, "ori": b.or_}[op]
            k = self.imm(ops[2], -2048, 2047, op)            # 12-bit immediate, sign-extended to XLEN
            self.put(ops[0], f(self.val(ops[1]), b.const(X, k)))
        elif op in ("slli", "srli"):
            k = self.imm(ops[2], 0, X - 1, op)
            v = self.val(ops[1])
            self.put(ops[0], b.shl(v, k) if op == "slli" else b.lshr(v, k))
        elif op in ("sll", "srl"):
            k = self.conc(self.val(ops[2]), "shift count") & (X - 1)
            v = self.val(ops[1])
            self.put(ops[0], b.shl(v, k) if op == "sll" else b.lshr(v, k))
        elif op == "addi":
            k = self.imm(ops[2], -2048, 2047, op)
            self.put(ops[0], self.addsub(self.get(ops[1]), b.const(X, k), 1))
        elif op in ("add", "sub"):
            self.put(ops[0], self.addsub(self.get(ops[1]), self.get(ops[2]), 1 if op == "add" else -1))
        elif op in ("beq", "bne", "blt", "bge", "bltu", "bgeu", "beqz", "bnez"):
            if op in ("beqz", "bnez"):
                x, y, tgt = self.conc(self.get(ops[0]), "branch condition"), 0, ops[1]
            else:
                x, y, tgt = self.conc(self.get(ops[0]), "branch condition"), self.conc(self.get(ops[1]), "branch condition"), ops[2]
            take = {"beq": x == y, "beqz": x == y, "bne": x != y, "bnez": x != y, "blt": sx(x, X) < sx(y, X), "bge": sx(x, X) >= sx(y, X),
                    "bltu": x < y, "bgeu": x >= y}[op]
            self.branch(op, take, tgt)
        elif op == "j":
            self.jump(ops[0])
        elif op == "ret":                                    # jalr x0, 0(ra)
            if not isinstance(self.get("ra"), RetAddr):
                raise Stuck("ret with ra not holding the caller's return address")
            self.b.leak.append(("RET",))
            self.done = True
        elif op == "nop":
            pass
        else:
            raise Stuck("unsupported RISC-V instruction: %s %s" % (op, ", ".join(ops)))


def canonical(op, ops):
    """base instruction (as `llvm-objdump -M no-aliases` prints it) of a parsed line, for the assembler cross-check"""
    r = lambda x: ALIAS.get(x, x)

    def memo(x):
        m = re.match(r"^(-?\w*)\((\w+)\)$", x)
        return "%d(%s)" % (int(m.group(1), 0) if m.group(1) else 0, r(m.group(2)))
    if op == "not":
        return ("xori", r(ops[0]), r(ops[1]), "-1")
    if op == "li":
        n = int(ops[1], 0)
        if not -2048 <= n <= 2047:
            raise Stuck("cross-check: li with a multi-instruction expansion")
        return ("addi", r(ops[0]), "zero", str(n))
    if op == "mv":
        return ("addi", r(ops[0]), r(ops[1]), "0")
    if op == "nop":
        return ("addi", "zero", "zero", "0")
    if op == "j":
        return ("jal", "zero", ops[0])
    if op == "ret":
        return ("jalr", "zero", "0(ra)")
    if op in ("beqz", "bnez"):
        return (op[:3], r(ops[0]), "zero", ops[1])
    if op in ("ld", "lw", "lwu", "lhu", "lbu", "sd", "sw", "sh", "sb"):
        return (op, r(ops[0]), memo(ops[1]))
    if op in ("beq", "bne", "blt", "bge", "bltu", "bgeu"):
        return (op, r(ops[0]), r(ops[1]), ops[2])
    if op in ("xori", "andi", "ori", "addi", "slli", "srli"):
        return (op, r(ops[0]), r(ops[1]), str(int(ops[2], 0)))
    return (op,) + tuple(r(x) for x in ops)


def assembler_crosscheck(text, items, xlen, rve):
    """Partial, independent check of the parsing layer: LLVM's RISC-V assembler (llvm-mc, present in this sandbox
    although no RISC-V C library or emulator is) assembles the same preprocessed text - so every register exists in
    the ISA subset and every immediate is encodable - and its disassembly with pseudo-instructions expanded must be,
    instruction for instruction, what `canonical` makes of our parse (operand order, pseudo expansions, offsets).
    It says nothing about what the base instructions compute."""
    import shutil, subprocess, tempfile
    mc, od = shutil.which("llvm-mc") or shutil.which("llvm-mc-14"), shutil.which("llvm-objdump") or shutil.which("llvm-objdump-14")
    if not mc or not od:
        return {"status": "skipped", "reason": "llvm-mc / llvm-objdump not installed"}
    with tempfile.TemporaryDirectory() as td:
        src, obj = os.path.join(td, "a.s"), os.path.join(td, "a.o")
        open(src, "w").write("\n".join(l for l in text.split("\n") if not l.startswith("#")) + "\n")
        p = subprocess.run([mc, "-triple=riscv%d" % xlen, "-mattr=+relax" + (",+e" if rve else ""), "-filetype=obj", src, "-o", obj],
                           stdout=subprocess.PIPE, stderr=subprocess.PIPE)
        if p.returncode != 0:
            err = p.stderr.decode()
            if "unable to get target" in err or "No available targets" in err:
                return {"status": "skipped", "reason": "llvm-mc has no RISC-V target"}
            raise Stuck("LLVM's assembler rejects the file: " + err.strip().split("\n")[0][:200])
        p = subprocess.run([od, "-d", "-r", "-M", "no-aliases", obj], stdout=subprocess.PIPE, stderr=subprocess.PIPE)
        if p.returncode != 0:
            raise Stuck("llvm-objdump failed: " + p.stderr.decode()[:200])
    dis = []
    for line in p.stdout.decode().split("\n"):
        m = re.match(r"^\s*[0-9a-f]+:\s+((?:[0-9a-f]{2} )+)\s*(\S+)\s*(.*)$", line)
        if m:
            if len(m.group(1).split()) != 4:
                raise Stuck("cross-check: a %d-byte instruction in an uncompressed file" % len(m.group(1).split()))
            dis.append([m.group(2)] + [x.strip() for x in m.group(3).split(",")] if m.group(3) else [m.group(2)])
            continue
        m = re.match(r"^\s+[0-9a-f]+:\s+R_RISCV_(BRANCH|JAL)\s+(\S+)$", line)
        if m and dis:
            dis[-1][-1] = m.group(2)
    mine = [canonical(it[1], it[2]) for it in items if it[0] == "ins"]
    if len(mine) != len(dis):
        raise Stuck("cross-check: %d instructions parsed, LLVM assembled %d" % (len(mine), len(dis)))
    for i, (a, b) in enumerate(zip(mine, dis)):
        if list(a) != b:
            raise Stuck("cross-check: instruction %d: parsed as %s, LLVM decodes %s" % (i, " ".join(a), " ".join(b)))
    # conditional branches beyond the +-4 KiB B-type range (all instructions are 4 bytes): GNU as rewrites them to an
    # inverted branch over a jal; assemblers without that relaxation reject the file at link time
    pos, n = {}, 0
    for it in items:
        if it[0] == "label":
            pos[it[1]] = 4 * n
        else:
            n += 1
    far, n = [], 0
    for it in items:
        if it[0] == "ins":
            if it[1] in ("beq", "bne", "blt", "bge", "bltu", "bgeu") and not -4096 <= pos[it[2][2]] - 4 * n <= 4094:
                far.append("%s %s at +%d -> %+d bytes" % (it[1], it[2][2], 4 * n, pos[it[2][2]] - 4 * n))
            n += 1
    return {"status": "ok", "instructions_compared": len(mine), "assembler": os.path.basename(mc), "branches_beyond_b_type_range": far}


def load_file(repo, name):
    fn, defs, xlen, rve, layout = FILES[name]
    path = os.path.join(repo, "src", "core", fn)
    text = asm_rvxt_base.preprocess(path, incs=[os.path.join(repo, "src"), os.path.join(repo, "src", "core")], defs=defs)
    items, directives = asm_rvxt_base.parse(text)
    return items, directives, text


def runs(repo, name):
    """provider for kern_perm.run_backend: (layout, one) with one(first_round) -> [Segment]"""
    fn, defs, xlen, rve, layout = FILES[name]
    items, directives, text = load_file(repo, name)
    xc = assembler_crosscheck(text, items, xlen, rve)          # Stuck (-> MISSING line) on any disagreement
    ff = asm_rvxt_base.FactFile(name, {
        "file": "src/core/" + fn, "target_macros": defs, "isa": "RV%d%s" % (xlen, "E" if rve else "I"), "layout": layout,
        "mnemonics": asm_rvxt_base.histogram(items), "mnemonics_ascon_permute": asm_rvxt_base.histogram(asm_rvxt_base.function_items(items, "ascon_permute")),
        "abi": "a0=state a1=first_round ra=return; preserved sp gp tp " + ("s0-s1" if rve else "s0-s11"),
        "sp_alignment": 4 if rve else 16, "assembler_crosscheck": xc,
        "has_gnu_stack_note": any(d == ".section" and a.split(",")[0].strip() == ".note.GNU-stack" for d, a in directives)})
    state = {"state": {"size": 40, "symbolic": True}}

    def make_for(entry, regs):
        def make(mode, live, pairs):
            return RV(items, entry, regs, dict(state), xlen=xlen, rve=rve, cut=lambda lab: lab.startswith(".L"), mode=mode, live=live, pairs=pairs)
        return make

    # ascon_backend_free: must return with every preserved register intact, without touching memory
    try:
        m = make_for("ascon_backend_free", {})("trace", None, ())
        m.run()
        f = m.frame_facts(m.preserved(), m.entry_sp)
        f["memory_accesses"] = len([x for x in m.segments[0].b.leak if x[0] in "RW"])
        ff.data["ascon_backend_free"] = f
    except Stuck as ex:
        ff.data["ascon_backend_free"] = {"error": str(ex)}
    ff.write()
    free_err = ff.data["ascon_backend_free"].get("error") or ("ascon_backend_free accesses memory" if ff.data["ascon_backend_free"].get("memory_accesses") else None)

    def one(k):
        t0 = time.time()
        if free_err:
            # the file's other function breaks the ABI: no obligation of this file is emitted (C18: "matches ... the ABI")
            ff.fail(k, "ascon_backend_free: " + free_err)
            raise Stuck("ascon_backend_free in the same file: " + free_err)
        make = make_for("ascon_permute", {"a0": ("ptr", "state", 0), "a1": ("int", k)})
        try:
            probe = make("trace", None, ())
            segs, facts = asm_rvxt_base.two_pass(make, [("m", "state", i) for i in range(40)], probe.preserved(), lambda m: m.entry_sp)
            if facts["frame_bytes"] % ff.data["sp_alignment"]:
                raise Stuck("frame of %d bytes breaks the %d-byte stack alignment" % (facts["frame_bytes"], ff.data["sp_alignment"]))
        except Stuck as ex:
            ff.fail(k, str(ex))
            raise
        facts["translate_seconds"] = round(time.time() - t0, 3)
        ff.record(k, facts)
        return segs
    return layout, one
PROVIDERS = {n: runs for n in FILES}
