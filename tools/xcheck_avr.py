#!/usr/bin/env python3
"""Cross-checks of the AVR front end tools/asm_avr.py (C18) with what IS available offline (no avr-gcc, no binutils-avr,
no simulator; LLVM 14 knows the `avr` target but its llvm-objdump crashes on ldd/std, so the decode check uses
llvm-mc's own re-print and encoding instead):

 macros     clang --target=avr -mmcu=atmega328p -E: the text selected by the REAL predefined macros of an avr5 device
            (plus -D__AVR_ARCH__=5, which only GCC predefines) equals the text selected by the emulated macro set.
 decode     llvm-mc -triple=avr -mcpu=atmega328p -show-encoding: every instruction of the function is accepted for
            an avr5 core; llvm-mc's re-printed instruction equals the parsed one (mnemonic, registers, displacement);
            the 16-bit encoding it emits, decoded by the independent table in this file (written from the AVR
            instruction set manual), gives the same instruction again.
 genavr     the generator's OWN interpreter (tools/genavr/interpret.cpp, by the library's author) executes its
            instruction list, this front end executes the checked-in .S text, both concretely on the same state,
            first_round and register file: the instruction sequences, all data registers, C and T are compared after
            EVERY instruction (all first_round 0..11, several states), and the final state / preserve bytes.
 compiler   tools/xcheck_avr_kernels.c compiled by clang for AVR to assembly, run through the front end and
            evaluated on random inputs, against the same C compiled and executed natively.

Prints one `xcheck <kind> <name>: ...` line per check, `MISSING xcheck ...` for a failed one.  Cached on the inputs.
What remains trusted afterwards: that LLVM's and the generator author's reading of the AVR ISA are right where they
agree with this table (no AVR hardware or cycle-accurate simulator has executed the files here)."""
import os, sys, re, json, random, subprocess, tempfile, ctypes, shutil, hashlib
sys.path.insert(0, os.path.dirname(os.path.abspath(__file__)))
import asm_base, asm_avr
from symx import Stuck

HERE = os.path.dirname(os.path.abspath(__file__))
LINES = []


def sh(cmd, cwd=None, inp=None):
    p = subprocess.run(cmd, cwd=cwd, input=inp, stdout=subprocess.PIPE, stderr=subprocess.PIPE)
    return p.returncode, p.stdout, p.stderr.decode(errors="replace")


def report(ok, kind, name, msg):
    LINES.append("%sxcheck %s %s: %s" % ("" if ok else "MISSING ", kind, name, msg))


def code_lines(text):
    return [re.sub(r"\s+", " ", l.strip()) for l in text.split("\n") if l.strip() and not l.lstrip().startswith("#")]


# ---------------------------------------------------------------------------------------------------- macros
def check_macros(repo, name):
    rel, defs, fn, n, maxs, layout = asm_avr.PROFILES[name]
    mine = asm_avr.load(repo, name)[2]
    cmd = ["clang", "--target=avr", "-mmcu=atmega328p", "-D__AVR_ARCH__=5", "-E", "-x", "assembler-with-cpp"] + ["-I" + i for i in asm_avr.incs(repo)] + \
          ["-D" + d for d in defs] + [os.path.join(repo, rel)]
    rc, out, err = sh(cmd)
    if rc:
        return report(False, "macros", name, "clang -E failed: " + err[-200:])
    a, b = code_lines(mine), code_lines(out.decode())
    report(a == b and len(a) > 50, "macros", name, "%d code lines selected by clang's real avr/atmega328p macros (+ -D__AVR_ARCH__=5, predefined by GCC only) %s the emulated set" % (
        len(b), "equal" if a == b else "DIFFER from"))


# ---------------------------------------------------------------------------------------------------- decode
def norm_op(o):
    o = o.strip().lower().replace(" ", "")
    if re.match(r"^(0x[0-9a-f]+|\d+)$", o):
        return str(int(o, 0))
    m = re.match(r"^([yz])\+(0x[0-9a-f]+|\d+)$", o)
    if m:
        return "%s+%d" % (m.group(1), int(m.group(2), 0))
    return o


def canon(mn, ops):
    """one spelling per encoding: lsl = add rd,rd; rol = adc rd,rd; clr = eor rd,rd; tst = and rd,rd; ld rd,Z = ldd rd,Z+0"""
    ops = [norm_op(o) for o in ops]
    if mn in ("lsl", "rol", "clr", "tst"):
        return {"lsl": "add", "rol": "adc", "clr": "eor", "tst": "and"}[mn], [ops[0], ops[0]]
    if mn == "ld" and ops[1] in ("y", "z"):
        return "ldd", [ops[0], ops[1] + "+0"]
    if mn == "st" and ops[0] in ("y", "z"):
        return "std", [ops[0] + "+0", ops[1]]
    if mn in ("rjmp", "rcall", "breq", "brne", "brcs", "brcc", "brlo", "brsh"):
        return {"brlo": "brcs", "brsh": "brcc"}.get(mn, mn), ["<label>"]
    return mn, ops


def decode16(w):
    """independent decoder of the 16-bit AVR opcodes in the subset (AVR Instruction Set Manual)"""
    d5 = (w >> 4) & 31
    r5 = ((w >> 5) & 16) | (w & 15)
    top6 = w >> 10
    two = {0b000011: "add", 0b000111: "adc", 0b000110: "sub", 0b000010: "sbc", 0b001000: "and", 0b001001: "eor", 0b001010: "or", 0b001011: "mov",
           0b000100: "cpse", 0b000101: "cp", 0b000001: "cpc"}
    if w == 0:
        return "nop", []
    if top6 in two:
        return two[top6], ["r%d" % d5, "r%d" % r5]
    top4 = w >> 12
    immop = {0b0011: "cpi", 0b0100: "sbci", 0b0101: "subi", 0b0110: "ori", 0b0111: "andi", 0b1110: "ldi"}
    if top4 in immop:
        return immop[top4], ["r%d" % (16 + ((w >> 4) & 15)), str(((w >> 4) & 0xF0) | (w & 15))]
    if (w >> 8) == 0b00000001:
        return "movw", ["r%d" % (2 * ((w >> 4) & 15)), "r%d" % (2 * (w & 15))]
    if (w & 0xFE00) == 0x9400 and (w & 15) in (0, 1, 2, 3, 5, 6, 7, 10):
        return {0: "com", 1: "neg", 2: "swap", 3: "inc", 5: "asr", 6: "lsr", 7: "ror", 10: "dec"}[w & 15], ["r%d" % d5]
    if (w & 0xFE0F) == 0x900F:
        return "pop", ["r%d" % d5]
    if (w & 0xFE0F) == 0x920F:
        return "push", ["r%d" % d5]
    if (w & 0xFC00) == 0x9000 and (w & 15) in (0b1100, 0b1101, 0b1110, 0b1001, 0b1010, 0b0001, 0b0010):
        ptr = {0b1100: "x", 0b1101: "x+", 0b1110: "-x", 0b1001: "y+", 0b1010: "-y", 0b0001: "z+", 0b0010: "-z"}[w & 15]
        return ("st", [ptr, "r%d" % d5]) if w & 0x0200 else ("ld", ["r%d" % d5, ptr])
    if (w & 0xD000) == 0x8000:
        q = ((w >> 8) & 0x20) | ((w >> 7) & 0x18) | (w & 7)
        p = "%s+%d" % ("y" if w & 8 else "z", q)
        return ("std", [p, "r%d" % d5]) if w & 0x0200 else ("ldd", ["r%d" % d5, p])
    if (w & 0xF800) == 0xB000:
        return "in", ["r%d" % d5, str(((w >> 5) & 0x30) | (w & 15))]
    if (w & 0xF800) == 0xB800:
        return "out", [str(((w >> 5) & 0x30) | (w & 15)), "r%d" % d5]
    if (w & 0xFE00) == 0x9600:
        return ("sbiw" if w & 0x0100 else "adiw"), ["r%d" % (24 + 2 * ((w >> 4) & 3)), str(((w >> 2) & 0x30) | (w & 15))]
    if w == 0x9508:
        return "ret", []
    if w == 0x94F8:
        return "cli", []
    if (w & 0xFE08) == 0xFA00:
        return "bst", ["r%d" % d5, str(w & 7)]
    if (w & 0xFE08) == 0xF800:
        return "bld", ["r%d" % d5, str(w & 7)]
    return "?%04x" % w, []


def check_decode(repo, name):
    rel, defs, fn, n, maxs, layout = asm_avr.PROFILES[name]
    items, directives, text, path = asm_avr.load(repo, name)
    mine = [canon(it[1], it[2]) for it in asm_avr.function_items(items, fn) if it[0] == "ins"]
    src = "\n".join(l for l in text.split("\n") if not l.startswith("#"))
    rc, out, err = sh(["llvm-mc", "-triple=avr", "-mcpu=atmega328p", "-show-encoding"], inp=src.encode())
    if rc or "error" in err:
        return report(False, "decode", name, "llvm-mc rejects the file for an avr5 core: " + err[-300:])
    theirs, dec, bad_dec = [], [], 0
    infn = False
    for l in out.decode().split("\n"):
        s = l.strip()
        m = re.match(r"^([.\w$]+):", s)
        if m and not s.startswith(".Ltmp") and not m.group(1).startswith(".L"):
            infn = m.group(1) == fn
            continue
        if not infn or not l.startswith("\t") or s.startswith(".") or not s:
            continue
        m = re.match(r"^(\w+)\s*(.*?)\s*;\s*encoding:\s*\[(.*)\]\s*$", s)
        if not m:
            continue
        mn, ops, enc = m.group(1), [o for o in asm_base.split_ops(m.group(2))], m.group(3)
        theirs.append(canon(mn, ops))
        bs = enc.split(",")
        if all(re.match(r"^0x[0-9a-f]{2}$", b.strip()) for b in bs) and len(bs) == 2:
            w = int(bs[0], 16) | (int(bs[1], 16) << 8)
            d = decode16(w)
            d = canon(d[0], d[1])
            dec.append(d)
            if d != theirs[-1]:
                bad_dec += 1
        else:
            dec.append(theirs[-1])          # relocated (rjmp to a label): no fixed encoding to decode
    ok = mine == theirs and bad_dec == 0 and len(mine) > 100
    first = next((i for i, (a, b) in enumerate(zip(mine, theirs)) if a != b), None)
    report(ok, "decode", name, "%d instructions of %s: llvm-mc (avr, atmega328p) encodes all of them; its re-print %s the parsed instruction list%s; %d of %d fixed encodings decode back (independent table) to the same instruction" % (
        len(mine), fn, "equals" if mine == theirs else "DIFFERS from", "" if first is None else " (first difference at #%d: %r vs %r)" % (first, mine[first], theirs[first]),
        len(dec) - bad_dec, len(dec)))


# ---------------------------------------------------------------------------------------------------- genavr interpreter
VARIANT = {"avr5": "plain", "avr5_x2": "x2_2", "avr5_x2m3": "x2_3", "avr5_x3": "x3"}
GEN_MN = {"ADC": "adc", "ADD": "add", "ADIW": "adiw", "AND": "and", "ANDI": "andi", "ASR": "asr", "BLD": "bld", "BST": "bst", "BRCC": "brcc", "BRCS": "brcs",
          "BREQ": "breq", "BRNE": "brne", "CALL": "rcall", "COM": "com", "CP": "cp", "CPC": "cpc", "CPI": "cpi", "CPSE": "cpse", "DEC": "dec", "EOR": "eor",
          "INC": "inc", "JMP": "rjmp", "LD_X": "ld", "LD_Y": "ld", "LD_Z": "ld", "LDI": "ldi", "LSL": "lsl", "LSR": "lsr", "MOV": "mov", "MOVW": "movw",
          "NEG": "neg", "NOP": "nop", "OR": "or", "ORI": "ori", "POP": "pop", "PUSH": "push", "RET": "ret", "ROL": "rol", "ROR": "ror", "SBC": "sbc",
          "SUB": "sub", "SBCI": "sbci", "SUBI": "subi", "SBIW": "sbiw", "ST_X": "st", "ST_Y": "st", "ST_Z": "st", "SWAP": "swap"}


C_WRITERS = ("lsl", "lsr", "rol", "ror", "asr", "add", "adc", "sub", "sbc", "subi", "sbci", "cp", "cpc", "cpi", "adiw", "sbiw", "neg")


def build_genavr(repo, tmp):
    d = os.path.join(tmp, "genavr")
    shutil.copytree(os.path.join(repo, "tools", "genavr"), d)
    shutil.copytree(os.path.join(repo, "tools", "common"), os.path.join(tmp, "common"))
    shutil.copy(os.path.join(HERE, "xcheck_genavr.cpp"), d)
    rc, out, err = sh(["g++", "-O1", "-std=c++11", "-I.", "-I../common", "-o", "xg", "xcheck_genavr.cpp", "algorithm_ascon.cpp", "algorithm_ascon_x2.cpp",
                       "algorithm_ascon_x3.cpp", "code.cpp", "code_out.cpp"], cwd=d)
    if rc:
        return None, err[-400:]
    enum = re.search(r"enum Type\s*\{(.*?)\};", open(os.path.join(d, "code.h")).read(), re.S).group(1)
    names = [re.sub(r"/\*.*?\*/", "", x, flags=re.S).strip() for x in re.sub(r"/\*.*?\*/", "", enum, flags=re.S).split(",")]
    return (os.path.join(d, "xg"), [n for n in names if n]), ""


def my_trace(items, name, k, state, preserve, regs):
    tr = []

    def cb(m, it, fused=0):
        rv = [(v.conc if (isinstance(v, asm_avr.V) and v.is_conc()) else None) for v in m.r]
        c = m.C if not callable(m.C) else None
        c = c.conc if isinstance(c, asm_avr.V) and c.is_conc() else None
        t = m.T.conc if isinstance(m.T, asm_avr.V) and m.T.is_conc() else None
        tr.append((it[1], it[2], rv, c, t, fused))
    m = asm_avr.make_machine(items, name, k, concrete={"state": state, "preserve": preserve, "regs": {i: regs[i] for i in range(32)}}, trace=cb)
    segs = m.run()
    outs = segs[-1].outs
    final = [o.conc if o is not None and o.is_conc() else None for o in outs]
    return tr, final


def check_genavr(repo, name, xg, type_names, rng, states_per_k):
    rel, defs, fn, n, maxs, layout = asm_avr.PROFILES[name]
    items = asm_avr.load(repo, name)[0]
    total_ins = total_regs = runs = 0
    for k in range(12):
        for rep in range(states_per_k):
            state = [rng.getrandbits(8) for _ in range(40 * maxs)]
            preserve = [rng.getrandbits(8) for _ in range(8 * (n - 1))]
            regs = [rng.getrandbits(8) for _ in range(32)]
            regs[1] = 0
            regs[22] = k
            try:
                tr, final = my_trace(items, name, k, state, preserve, regs)
            except Stuck as ex:
                return report(False, "genavr", name, "first_round=%d: the front end is stuck on a concrete run: %s" % (k, ex))
            rc, out, err = sh([xg, VARIANT[name], str(k), "".join("%02x" % b for b in state), "".join("%02x" % b for b in preserve) or "-", "".join("%02x" % b for b in regs)])
            lines = out.decode().split("\n")
            if rc or any(l.startswith("X ") for l in lines):
                return report(False, "genavr", name, "first_round=%d: the generator's interpreter fails: %s" % (k, [l for l in lines if l.startswith("X ")][:1] or err[-200:]))
            theirs = [l.split() for l in lines if l.startswith("I ")]
            # the body starts after the prologue of the .S text: pushes, movw of the arguments, the frame set-up (in/sbiw/cli/out)
            o = 0
            while o < len(tr) and tr[o][0] in ("push", "movw", "in", "out", "cli", "sbiw"):
                o += 1
            if len(tr) - o < len(theirs):
                return report(False, "genavr", name, "first_round=%d: the interpreter executed %d instructions, the .S body only %d" % (k, len(theirs), len(tr) - o))
            c_apart = False          # the interpreter leaves C alone on `com` (hardware and this front end: C <- 1) until the next instruction that both write C with
            for j, t in enumerate(theirs):
                mn, ops, rv, c, tf, fused = tr[o + j]
                if mn == "com":
                    c_apart = True
                elif mn in C_WRITERS:
                    c_apart = False
                ty = type_names[int(t[1])]
                want = GEN_MN.get(ty)
                r1 = int(t[2])
                mine_r = None
                if ops:
                    cand = ops[1] if mn in ("st", "std", "out") else ops[0]
                    mm = re.match(r"^r(\d+)$", cand.strip().lower())
                    mine_r = int(mm.group(1)) if mm else None
                same_mn = want == mn or (want == "ld" and mn == "ldd") or (want == "st" and mn == "std")
                if not same_mn or (mine_r is not None and want not in ("rjmp", "breq", "brne", "brcc", "brcs") and mine_r != r1):
                    return report(False, "genavr", name, "first_round=%d: instruction #%d differs: interpreter executes %s r%d, the .S text has %s %s" % (k, j, ty, r1, mn, ",".join(ops)))
                their_r = bytes.fromhex(t[4])
                for i in range(28):          # r28..r31: the interpreter keeps its frame pointer / state pointer there even where the code leaves them alone
                    if rv[i] is not None:
                        total_regs += 1
                        if rv[i] != their_r[i]:
                            return report(False, "genavr", name, "first_round=%d: after instruction #%d (%s %s) r%d = 0x%02x here, 0x%02x in the generator's interpreter" % (
                                k, j, mn, ",".join(ops), i, rv[i], their_r[i]))
                if c is not None and not fused and not c_apart and c != int(t[5]):
                    return report(False, "genavr", name, "first_round=%d: after instruction #%d (%s %s) C = %d here, %s in the generator's interpreter" % (k, j, mn, ",".join(ops), c, t[5]))
                if tf is not None and tf != int(t[6]):
                    return report(False, "genavr", name, "first_round=%d: after instruction #%d (%s %s) T = %d here, %s in the generator's interpreter" % (k, j, mn, ",".join(ops), tf, t[6]))
            rest = [x[0] for x in tr[o + len(theirs):]]
            if any(x not in ("pop", "ret", "adiw", "in", "out", "cli") for x in rest):
                return report(False, "genavr", name, "first_round=%d: instructions after the interpreter's last one are not an epilogue: %s" % (k, rest[:8]))
            st = next((l[2:] for l in lines if l.startswith("S ")), "")
            pv = next((l[2:] for l in lines if l.startswith("P ")), "")
            if bytes(final).hex() != st + pv:
                return report(False, "genavr", name, "first_round=%d: final state/preserve bytes differ from the generator's interpreter" % k)
            total_ins += len(theirs)
            runs += 1
    report(True, "genavr", name, "%d concrete runs (first_round 0..11 x %d states): the .S text executed by tools/asm_avr.py and the generator's instruction list executed by "
           "tools/genavr/interpret.cpp agree on the instruction sequence, on every data register, C and T after each of %d instructions (%d register comparisons) and on the "
           "final state%s" % (runs, states_per_k, total_ins, total_regs, " and preserve bytes" if n > 1 else ""))


# ---------------------------------------------------------------------------------------------------- compiler
def strip_comments(text):
    return "\n".join(l.split(";")[0] for l in text.split("\n"))


def check_compiler(tmp, rng, n=48):
    src = os.path.join(HERE, "xcheck_avr_kernels.c")
    so = os.path.join(tmp, "k.so")
    rc, out, err = sh(["gcc", "-O1", "-shared", "-fPIC", src, "-o", so])
    if rc:
        return report(False, "compiler", "avr5", "native build of the kernels failed: " + err[-200:])
    lib = ctypes.CDLL(so)
    for opt in ("-O1", "-O2"):
        asm = os.path.join(tmp, "k%s.s" % opt)
        rc, out, err = sh(["clang", "--target=avr", "-mmcu=atmega328p", "-ffreestanding", opt, "-S", "-o", asm, src])
        if rc:
            return report(False, "compiler", "avr5", "clang --target=avr failed: " + err[-200:])
        items, tables, directives = asm_base.parse(strip_comments(open(asm).read()))
        hist, cases = {}, 0
        for fn in ("ka", "kb", "kc", "kd"):
            for it in asm_avr.function_items(items, fn):
                if it[0] == "ins":
                    hist[it[1]] = hist.get(it[1], 0) + 1
            for _ in range(n):
                buf = [rng.getrandbits(8) for _ in range(16)]
                regs = {i: rng.getrandbits(8) for i in range(32) if i not in (1, 24, 25)}
                try:
                    ri = {i: ("int", v) for i, v in regs.items()}
                    ri[24] = ("ptr", "state", 0)
                    m = asm_avr.AVR(items, fn, ri, {"state": {"size": 16, "init": buf}})
                    segs = m.run()
                    a = m.abi_facts()
                except Stuck as ex:
                    return report(False, "compiler", "avr5", "%s (%s): front end stuck on compiler output: %s" % (fn, opt, ex))
                got = [o.conc if o is not None and o.is_conc() else None for o in segs[-1].outs]
                cb = (ctypes.c_uint8 * 16)(*buf)
                getattr(lib, fn)(cb)
                if got != list(cb):
                    return report(False, "compiler", "avr5", "%s (%s): front end %s, native %s on input %s" % (fn, opt, got, list(cb), buf))
                if a["callee_saved_bad"] or not a["sp_restored"] or not a["r1_zero"] or not a["i_flag_restored"] or not a["sp_update_atomic"]:
                    return report(False, "compiler", "avr5", "%s (%s): compiler output fails the ABI facts of the front end: %s" % (fn, opt, a))
                cases += 1
        report(True, "compiler", "avr5" + opt, "clang %s output for 4 kernels (%d instructions: %s) through tools/asm_avr.py = native execution on %d random inputs; ABI facts hold" % (
            opt, sum(hist.values()), " ".join("%s:%d" % kv for kv in sorted(hist.items(), key=lambda kv: -kv[1])), cases))


# ---------------------------------------------------------------------------------------------------- driver
def input_key(repo):
    h = hashlib.sha256()
    for name in asm_avr.PROFILES:
        try:
            h.update(asm_avr.load(repo, name)[2].encode())
        except Stuck as ex:
            h.update(str(ex).encode())
    for f in sorted(os.listdir(os.path.join(repo, "tools", "genavr"))):
        p = os.path.join(repo, "tools", "genavr", f)
        if os.path.isfile(p) and f.endswith((".cpp", ".h")):
            h.update(open(p, "rb").read())
    for t in ("asm_avr.py", "xcheck_avr.py", "xcheck_avr_kernels.c", "xcheck_genavr.cpp", "symx.py", "asm_base.py"):
        h.update(open(os.path.join(HERE, t), "rb").read())
    for tool in ("clang", "llvm-mc", "g++"):
        h.update((shutil.which(tool) or "none").encode())
    return h.hexdigest()


def main():
    repo = sys.argv[1] if len(sys.argv) > 1 else "/repo"
    thorough = "--thorough" in sys.argv
    cache = os.path.join(asm_avr.VERIF, "build", "kern", "xcheck-avr-cache%s.json" % ("-thorough" if thorough else ""))
    key = input_key(repo)
    if os.path.exists(cache) and not os.environ.get("C18_AVR_FORCE"):
        try:
            c = json.load(open(cache))
            if c.get("key") == key:
                sys.stdout.write("".join(l + "\n" for l in c["lines"]))
                print("xcheck avr: unchanged inputs (cached, key %s)" % key[:12])
                return 0
        except Exception:
            pass
    rng = random.Random(20240518)
    tmp = tempfile.mkdtemp(prefix="xcheck-avr-")
    try:
        for name in asm_avr.PROFILES:
            try:
                check_macros(repo, name)
                check_decode(repo, name)
            except Stuck as ex:
                report(False, "decode", name, str(ex))
        if shutil.which("g++"):
            built, err = build_genavr(repo, tmp)
            if built is None:
                report(False, "genavr", "build", "the generator's interpreter does not build with tools/xcheck_genavr.cpp: " + err)
            else:
                for name in asm_avr.PROFILES:
                    try:
                        check_genavr(repo, name, built[0], built[1], rng, 4 if thorough else 1)
                    except Stuck as ex:
                        report(False, "genavr", name, str(ex))
        check_compiler(tmp, rng, 200 if thorough else 48)
    finally:
        shutil.rmtree(tmp, ignore_errors=True)
    sys.stdout.write("".join(l + "\n" for l in LINES))
    os.makedirs(os.path.dirname(cache), exist_ok=True)
    if not any(l.startswith("MISSING") for l in LINES):
        json.dump({"key": key, "lines": LINES}, open(cache, "w"), indent=1)
    return 1 if any(l.startswith("MISSING") for l in LINES) else 0


if __name__ == "__main__":
    sys.exit(main())
