#!/usr/bin/env python3
"""tools/globals.py - the (T) tie of property C16.

Regenerates coq/Gen/Globals.v from the CURRENT tree of the repository under
test (lib/common.REPO, i.e. $VERIF_REPO or /repo).  Nothing is cached.

For every build configuration (default = x86-64 assembly back end, c64, c32,
directxor, generic, checkar = -DCHECK_ACQUIRE_RELEASE=ON) it records

 (a) AST view: every object with static storage duration (file scope, class
     static, function-`static`, thread-local) declared in a file of the
     repository or of the build directory, in every C/C++ translation unit of
     `ascon_static`, obtained from `clang -fsyntax-only -Xclang -ast-dump=json`
     run with exactly the include paths/defines of the CMake build
     (compile_commands.json of our own cmake invocation): name, TU, enclosing
     function, type, top-level const-ness, thread-local-ness;
 (a') object view (independent of clang and of the preprocessor logic, covers
     the assembly TUs too): every allocated section of every member of the
     built libascon_static.a that is writable (SHF_WRITE) or thread-local
     (SHF_TLS) and has non-zero size, with the data symbols it contains
     (`readelf -S -s -W`);
 (b) every pointer parameter of every function declared in the public headers
     src/ascon/*.h (C view): function, index, name, type, pointee type and
     whether the pointee is const-qualified.

Pseudo-configuration `trngnone`: the TRNG back end that is NOT selected on this
host but is portable C (ascon-trng-none.c + ascon-trng-mixer.c), parsed and
compiled with the selection forced (-DASCON_SELECT_TRNG_H -DASCON_TRNG_NONE
-DASCON_TRNG_MIXER) and the default build's config.h, so that its `global_prng`
is accounted for (thread-local where the compiler has __thread).

Finally a preprocessor-blind text scan of every file under src/ lists every
line that declares a `static` object (not a function), so that statics in code
that cannot be parsed on this host (Arduino Due, ESP, STM32, Zephyr, Windows
back ends) are accounted for by name in Props/Properties_C16.v.

usage: globals.py [--configs a,b,..] [--out FILE.v] [--json FILE.json]
                  [--workdir DIR] [--keep]
Exit status 0 when the scan itself worked (whatever it found); 3 when a
configuration no longer configures/builds/parses (details in the JSON)."""
import sys, os, json, re, shlex, argparse, time, tempfile, shutil
from concurrent.futures import ThreadPoolExecutor

sys.path.insert(0, os.path.join(os.path.dirname(os.path.dirname(os.path.abspath(__file__))), "lib"))
import common

ALL_CONFIGS = ["default", "c64", "c32", "directxor", "generic", "checkar"]


# --------------------------------------------------------------------------
# clang AST

def is_const_type(t):
    """Top-level const-ness of an object of (desugared) type text t."""
    t = t.strip()
    t = re.sub(r"(\[[^\]]*\])+$", "", t).strip()          # array of T: const-ness of T
    m = re.search(r"\(\s*\*\s*([a-zA-Z_ ]*)\)\s*(\[[^\]]*\])*\s*\(", t)   # function pointer  R (*quals)(args)
    if m:
        return "const" in m.group(1).split()
    if "*" in t:
        tail = t[t.rindex("*") + 1:]
        return "const" in tail.split()
    if t.endswith("&"):
        return True
    return re.search(r"\bconst\b", t) is not None


def pointee_const(t):
    """For a pointer type text: (is_pointer, pointee is const-qualified)."""
    t = t.strip()
    if "(" in t or "*" not in t:
        return False, False
    head = t[:t.rindex("*")].strip()
    if "*" in head:
        return True, "const" in head[head.rindex("*") + 1:].split()
    return True, re.search(r"\bconst\b", head) is not None


CAST_KINDS = ("CStyleCastExpr", "ImplicitCastExpr", "CXXConstCastExpr", "CXXReinterpretCastExpr", "CXXStaticCastExpr",
              "CXXFunctionalCastExpr")


class AstWalk:
    """Walks one clang JSON AST in document order, tracking the current file
    (clang prints "file" only when it changes)."""

    def __init__(self, roots, tu):
        self.roots, self.tu = roots, tu
        self.cur_file = None
        self.vars = []        # static-storage objects in repository files
        self.funcs = []       # (name, file, params[(name, type)])
        self.const_drops = [] # casts pointer-to-const -> pointer-to-non-const in repository files
        self.cur_line = None

    def see_loc(self, loc):
        if not isinstance(loc, dict):
            return
        for key in ("spellingLoc", "expansionLoc"):
            if key in loc:
                self.see_loc(loc[key])
        if "file" in loc:
            self.cur_file = loc["file"]
        if "line" in loc:
            self.cur_line = loc["line"]

    def in_roots(self, f):
        if not f:
            return False
        f = os.path.realpath(f)
        return any(f == r or f.startswith(r + os.sep) for r in self.roots)

    def walk(self, n, func=None, cls=None, cmp_parent=False):
        if not isinstance(n, dict):
            return
        kind = n.get("kind")
        # document order: loc then range
        if "loc" in n:
            self.see_loc(n["loc"])
        decl_file = self.cur_file
        decl_line = None
        if isinstance(n.get("loc"), dict):
            decl_line = n["loc"].get("line") or (n["loc"].get("expansionLoc") or {}).get("line")
        if "range" in n:
            self.see_loc(n["range"].get("begin"))
            self.see_loc(n["range"].get("end"))
        if kind in CAST_KINDS and func is not None and n.get("inner") and not cmp_parent:
            ty = n.get("type", {})
            to = ty.get("desugaredQualType") or ty.get("qualType", "")
            sub = n["inner"][0] if isinstance(n["inner"][0], dict) else {}
            sty = sub.get("type", {})
            frm = sty.get("desugaredQualType") or sty.get("qualType", "")
            p1, c1 = pointee_const(frm)
            p2, c2 = pointee_const(to)
            if p1 and p2 and c1 and not c2:
                # the begin of the range is where the cast is written
                rb = n.get("range", {}).get("begin", {})
                rb = rb.get("expansionLoc", rb)
                if self.in_roots(self.cur_file):
                    self.const_drops.append({"tu": self.tu, "file": os.path.basename(self.cur_file), "line": rb.get("line") or self.cur_line or 0,
                                             "func": func, "kind": kind, "from": frm, "to": to})
        if kind == "VarDecl":
            sc = n.get("storageClass")
            tls = n.get("tls")
            static_storage = (func is None and sc != "extern") or sc == "static" or (tls is not None and sc != "extern") \
                or (func is None and sc == "extern" and "init" in n)
            if static_storage and self.in_roots(decl_file):
                ty = n.get("type", {})
                t = ty.get("desugaredQualType") or ty.get("qualType", "")
                self.vars.append({
                    "name": n.get("name", "?"), "tu": self.tu, "file": os.path.basename(decl_file),
                    "where": func or (cls and "class " + cls) or "file", "type": ty.get("qualType", ""),
                    "const": bool(is_const_type(t) or n.get("constexpr")), "tls": tls is not None,
                })
        if kind in ("FunctionDecl", "CXXMethodDecl", "CXXConstructorDecl", "CXXDestructorDecl", "CXXConversionDecl"):
            name = n.get("name", "?")
            if kind == "FunctionDecl" and func is None and self.in_roots(decl_file):
                ps = []
                for c in n.get("inner", []) or []:
                    if isinstance(c, dict) and c.get("kind") == "ParmVarDecl":
                        ty = c.get("type", {})
                        ps.append((c.get("name", ""), ty.get("qualType", ""), ty.get("desugaredQualType") or ty.get("qualType", "")))
                self.funcs.append((name, decl_file, ps))
            for c in n.get("inner", []) or []:
                self.walk(c, func=(cls + "::" if cls else "") + name if func is None else func, cls=cls)
            return
        if kind in ("CXXRecordDecl", "ClassTemplateDecl", "ClassTemplateSpecializationDecl") and func is None:
            for c in n.get("inner", []) or []:
                self.walk(c, func=func, cls=n.get("name", cls))
            return
        # operands of a pointer comparison are converted to a common type: not an access path
        is_cmp = kind == "BinaryOperator" and n.get("opcode") in ("==", "!=", "<", ">", "<=", ">=")
        for c in n.get("inner", []) or []:
            self.walk(c, func=func, cls=cls, cmp_parent=is_cmp)


def clang_ast(args, cwd):
    """Run clang on one TU; returns (parsed JSON AST, diagnostics text).  clang
    is only the parser here (the build's compiler is gcc): when clang rejects
    something gcc accepts (e.g. an ill-formed member of an uninstantiated class
    template) it still dumps the AST; the diagnostics are kept as a warning."""
    import subprocess
    p = subprocess.run(args, cwd=cwd, stdout=subprocess.PIPE, stderr=subprocess.PIPE, timeout=900)
    out = p.stdout.decode("utf-8", "replace")
    err = p.stderr.decode("utf-8", "replace")
    i = out.find("{")
    if i < 0:
        raise RuntimeError("clang produced no AST (rc=%d):\n%s" % (p.returncode, err[-1500:]))
    try:
        doc, end = json.JSONDecoder().raw_decode(out[i:])
    except ValueError as e:
        raise RuntimeError("cannot parse clang's JSON (%s); diagnostics:\n%s" % (e, err[:1500]))
    return doc, (err.strip() if p.returncode != 0 else "")


def tu_clang_args(entry):
    """compile_commands entry -> clang -fsyntax-only argv with the build's -I/-D/-std flags."""
    argv = shlex.split(entry["command"]) if "command" in entry else list(entry["arguments"])
    src = entry["file"]
    cxx = src.endswith((".cpp", ".cc", ".cxx"))
    keep = []
    i = 1
    while i < len(argv):
        a = argv[i]
        if a in ("-o", "-MF", "-MT", "-MQ"):
            i += 2
            continue
        if a in ("-c", "-MD", "-MMD") or a == src:
            i += 1
            continue
        if a.startswith(("-I", "-D", "-U", "-std=", "-include", "-isystem", "-f", "-m", "-O", "-pthread")):
            if a in ("-I", "-D", "-U", "-include", "-isystem"):
                keep += [a, argv[i + 1]]
                i += 2
                continue
            if a.startswith("-fsanitize") or a.startswith("-fno-sanitize"):
                i += 1
                continue
            keep.append(a)
        i += 1
    return ["clang++" if cxx else "clang"] + keep + ["-w", "-fsyntax-only", "-Xclang", "-ast-dump=json", src]


def scan_tu(entry, roots, extra=()):
    src = entry["file"]
    tu = os.path.relpath(src, os.path.join(common.REPO, "src")) if src.startswith(common.REPO) else os.path.basename(src)
    args = tu_clang_args(entry)
    args = args[:-1] + list(extra) + args[-1:]
    doc, diag = clang_ast(args, entry.get("directory"))
    w = AstWalk(roots, tu)
    w.walk(doc)
    return {"vars": w.vars, "funcs": w.funcs, "diag": diag, "tu": tu, "const_drops": w.const_drops}


def scan_tu_job(job):
    entry, roots, extra = job
    try:
        return scan_tu(entry, roots, extra), None
    except Exception as ex:
        return None, "%s: %s" % (entry["file"], ex)


# --------------------------------------------------------------------------
# object view

def scan_objects(path):
    """readelf over an archive or object: allocated sections that are writable
    or TLS and non-empty, with the OBJECT/TLS symbols they contain."""
    rc, out = common.sh(["readelf", "-S", "-s", "-W", path], timeout=300)
    if rc != 0:
        raise RuntimeError("readelf failed on %s:\n%s" % (path, out[-1000:]))
    member = os.path.basename(path)
    secs = {}      # (member, index) -> dict
    res = []
    for line in out.split("\n"):
        m = re.match(r"File: .*\((.*)\)\s*$", line)
        if m:
            member = m.group(1)
            continue
        m = re.match(r"\s*\[\s*(\d+)\]\s+(\S+)\s+(\S+)\s+([0-9a-f]+)\s+([0-9a-f]+)\s+([0-9a-f]+)\s+([0-9a-f]+)\s+([A-Za-z]*)\s+\d+\s+\d+\s+\d+\s*$", line)
        if m:
            idx, name, typ, _addr, _off, size, _es, flags = m.groups()
            d = {"member": member, "section": name, "type": typ, "size": int(size, 16), "flags": flags,
                 "write": "W" in flags, "tls": "T" in flags, "alloc": "A" in flags, "syms": []}
            secs[(member, int(idx))] = d
            continue
        m = re.match(r"\s*\d+:\s+[0-9a-f]+\s+(\d+)\s+(OBJECT|TLS|NOTYPE|COMMON)\s+(\S+)\s+(\S+)\s+(\S+)\s+(\S+)\s*$", line)
        if m:
            size, typ, bind, vis, ndx, name = m.groups()
            if ndx == "COM":   # tentative definition: writable zero-initialised storage
                res.append({"member": member, "section": "COMMON", "type": "COMMON", "size": int(size), "flags": "WA",
                            "write": True, "tls": False, "alloc": True, "syms": [name]})
            elif ndx.isdigit() and (member, int(ndx)) in secs and typ in ("OBJECT", "TLS"):
                secs[(member, int(ndx))]["syms"].append(name)
    for d in secs.values():
        if d["alloc"] and (d["write"] or d["tls"]) and d["size"] > 0:
            res.append(d)
    res.sort(key=lambda d: (d["member"], d["section"]))
    return res


# --------------------------------------------------------------------------
# public parameters

def scan_public_params(flags, cwd, roots):
    hdir = os.path.join(common.REPO, "src", "ascon")
    hs = sorted(f for f in os.listdir(hdir) if f.endswith(".h"))
    src = os.path.join(cwd, "verif_public_api.c")
    open(src, "w").write("".join('#include <ascon/%s>\n' % h for h in hs))
    doc, diag = clang_ast(["clang"] + flags + ["-w", "-fsyntax-only", "-Xclang", "-ast-dump=json", src], cwd)
    if diag:
        raise RuntimeError("the public headers do not parse as C:\n" + diag[-1500:])
    w = AstWalk(roots, "public-headers")
    w.walk(doc)
    params, nfun = [], 0
    seen = set()
    for name, f, ps in w.funcs:
        if os.path.dirname(os.path.realpath(f)) != os.path.realpath(hdir) or name in seen:
            continue
        seen.add(name)
        nfun += 1
        for i, (pn, qt, dq) in enumerate(ps):
            t = qt.strip()
            if not t.endswith("*"):
                continue
            pointee = t[:-1].strip()
            if pointee.endswith("*") or "(" in pointee:
                const = "const" in pointee[pointee.rindex("*") + 1:].split() if "*" in pointee else False
                base = pointee
            else:
                const = re.search(r"\bconst\b", pointee) is not None
                base = re.sub(r"\b(const|volatile|struct)\b", "", pointee).strip()
            params.append({"fn": name, "idx": i, "name": pn, "type": t, "pointee": base, "const": const,
                           "header": os.path.basename(f)})
    return params, nfun, hs


# --------------------------------------------------------------------------
# preprocessor-blind text scan

def text_scan():
    """Every line under src/ that declares a `static` object (not a function,
    not inline), whatever #if it sits in."""
    res = []
    root = os.path.join(common.REPO, "src")
    for d, _, names in sorted(os.walk(root)):
        for n in sorted(names):
            if not n.endswith((".c", ".h", ".cpp", ".hpp", ".cc", ".inc")):
                continue
            p = os.path.join(d, n)
            txt = open(p, errors="replace").read()
            txt = re.sub(r"/\*.*?\*/", lambda m: re.sub(r"[^\n]", " ", m.group(0)), txt, flags=re.S)
            txt = re.sub(r"//[^\n]*", "", txt)
            # join declarations up to the first ; { or (
            for m in re.finditer(r"(?m)^[ \t]*((?:[A-Za-z_][A-Za-z0-9_]*[ \t]+)*?)static\b([^;{}()=]*)([;=({])", txt):
                if m.group(3) == "(" :
                    # `static T f(` is a function; `static T (*p)(` or attribute macros are rare here
                    continue
                decl = " ".join(("static" + m.group(2)).split())
                if re.search(r"\binline\b", decl):
                    continue
                if m.group(3) == "{":
                    continue
                line = txt.count("\n", 0, m.start()) + 1
                dm = re.search(r"([A-Za-z_][A-Za-z0-9_]*)\s*(\[[^\]]*\]\s*)*$", decl)
                name = dm.group(1) if dm else "?"
                ty = decl[:dm.start()] if dm else decl
                tyc = re.sub(r"\b(static|volatile)\b", "", ty)
                const = is_const_type(re.sub(r"\s+", " ", tyc).strip()) if "*" in tyc else re.search(r"\bconst\b", tyc) is not None
                res.append({"file": os.path.relpath(p, root), "line": line, "name": name, "decl": decl, "const": bool(const),
                            "tls": re.search(r"\b(THREAD_LOCAL|__thread|_Thread_local|thread_local)\b", decl) is not None})
    return res


# --------------------------------------------------------------------------
# one configuration

def configure_and_build(cfg, dst):
    args = ["cmake", "-G", "Ninja", "-S", common.REPO, "-B", dst, "-DCMAKE_EXPORT_COMPILE_COMMANDS=ON",
            "-DCMAKE_C_FLAGS=-DASCON_SUITE_VERIF", "-DCMAKE_CXX_FLAGS=-DASCON_SUITE_VERIF"] + common.CONFIGS[cfg]
    rc, out = common.sh(args, timeout=600)
    if rc != 0:
        return False, out
    rc, out2 = common.sh(["ninja", "-C", dst, "-j%d" % common.NPROC, "ascon_static"], timeout=1800)
    return rc == 0, out + out2


def prepare_config(cfg, dst):
    """Configure + build; returns the result skeleton and the list of AST jobs."""
    r = {"config": cfg, "ok": True, "errors": [], "warnings": [], "statics": [], "sections": [], "params": [], "const_drops": [], "tus": 0, "asm_tus": 0}
    ok, log = configure_and_build(cfg, dst)
    if not ok:
        r["ok"] = False
        r["errors"].append("configuration %s does not configure/build:\n%s" % (cfg, log[-3000:]))
        return r, []
    cc = json.load(open(os.path.join(dst, "compile_commands.json")))
    ents = [e for e in cc if "ascon_static.dir" in e.get("output", e.get("command", ""))]
    roots = [os.path.realpath(common.REPO), os.path.realpath(dst)]
    c_ents = [e for e in ents if e["file"].endswith((".c", ".cpp", ".cc", ".cxx"))]
    r["tus"] = len(c_ents)
    r["asm_tus"] = len(ents) - len(c_ents)
    r["tu_list"] = sorted(os.path.relpath(e["file"], common.REPO) for e in ents)
    try:
        r["sections"] = scan_objects(os.path.join(dst, "src", "libascon_static.a"))
    except Exception as ex:
        r["ok"] = False
        r["errors"].append(str(ex))
    # public headers with this configuration's flags (taken from any C TU)
    try:
        cents = [e for e in c_ents if e["file"].endswith(".c")]
        flags = [a for a in tu_clang_args(cents[0])[1:-5]]
        r["params"], r["public_functions"], r["public_headers"] = scan_public_params(flags, dst, roots)
    except Exception as ex:
        r["ok"] = False
        r["errors"].append("public headers: %s" % ex)
    return r, [(e, roots, ()) for e in c_ents]


def collect(r, results):
    for w, err in results:
        if err:
            r["ok"] = False
            r["errors"].append(err)
        else:
            r["statics"] += w["vars"]
            r["const_drops"] += w["const_drops"]
            if w["diag"]:
                r["warnings"].append("clang (parser only; gcc built this TU) diagnoses %s: %s" % (w["tu"], " | ".join(
                    l for l in w["diag"].split("\n") if "error:" in l)[:600]))
    # one object may be declared in a header and seen by several TUs: keep (name, file, where, tu) distinct
    seen, uniq = set(), []
    for v in r["statics"]:
        k = (v["name"], v["file"], v["where"], v["tu"])
        if k not in seen:
            seen.add(k)
            uniq.append(v)
    r["statics"] = sorted(uniq, key=lambda v: (v["tu"], v["where"], v["name"]))
    return r


def scan_trng_none(default_dst, work):
    """The unselected portable TRNG back end, selection forced."""
    r = {"config": "trngnone", "ok": True, "errors": [], "warnings": [], "statics": [], "sections": [], "params": [], "const_drops": [], "tus": 0, "asm_tus": 0}
    try:
        cc = json.load(open(os.path.join(default_dst, "compile_commands.json")))
    except Exception as ex:
        r["ok"] = False
        r["errors"].append("no default build to take flags from: %s" % ex)
        return r
    force = ["-DASCON_SELECT_TRNG_H", "-DASCON_TRNG_NONE=1", "-DASCON_TRNG_MIXER=1"]
    roots = [os.path.realpath(common.REPO), os.path.realpath(default_dst)]
    for base in ("ascon-trng-none.c", "ascon-trng-mixer.c"):
        ents = [e for e in cc if "ascon_static.dir" in e.get("output", "") and e["file"].endswith("/random/" + base)]
        if not ents:
            r["errors"].append("%s is not a TU of ascon_static any more" % base)
            r["ok"] = False
            continue
        e = ents[0]
        try:
            w = scan_tu(e, roots, extra=force)
            r["statics"] += w["vars"]
            r["const_drops"] += w["const_drops"]
            r["tus"] += 1
            argv = shlex.split(e["command"])
            obj = os.path.join(work, "trngnone-" + base + ".o")
            cmd = [a for a in argv]
            cmd[cmd.index("-o") + 1] = obj
            rc, out = common.sh(cmd[:1] + force + ["-w"] + cmd[1:], cwd=e["directory"], timeout=300)
            if rc != 0:
                raise RuntimeError("does not compile with the selection forced:\n" + out[-1500:])
            r["sections"] += scan_objects(obj)
        except Exception as ex:
            r["ok"] = False
            r["errors"].append("%s: %s" % (base, ex))
    r["tu_list"] = ["src/random/ascon-trng-none.c", "src/random/ascon-trng-mixer.c"]
    return r


# --------------------------------------------------------------------------
# Coq output

def cs(s):
    return '"' + str(s).replace('"', '""') + '"'


def cb(b):
    return "true" if b else "false"


def clist(items, indent="    "):
    if not items:
        return "[]"
    return "[\n" + ";\n".join(indent + i for i in items) + "\n  ]"


def emit_coq(scans, text, meta):
    o = []
    o.append("(* GENERATED repo=%s inputs-sha256=%s by tools/globals.py - do not edit; regenerated on every run of ./check C16." % (
        meta["repo"], meta["hash"] if meta.get("complete") else "partial-scan"))
    o.append("   Static-storage objects (clang AST), writable/TLS sections (readelf on libascon_static.a) and public")
    o.append("   pointer parameters, per build configuration; plus a preprocessor-blind text scan of src/. *)")
    o.append("From Coq Require Import List String NArith Bool.")
    o.append("From AsconV Require Import Model.Conc.")
    o.append("Import ListNotations.")
    o.append("Local Open Scope string_scope.")
    o.append("")
    plists = []
    for r in scans:
        key = json.dumps(r["params"], sort_keys=True)
        if key not in plists:
            plists.append(key)
            o.append("Definition params_%d : list sparam :=" % (len(plists) - 1))
            o.append("  " + clist(["mk_sparam %s %d %s %s %s %s" % (cs(p["fn"]), p["idx"], cs(p["name"]), cs(p["type"]), cs(p["pointee"]), cb(p["const"]))
                                   for p in r["params"]]) + ".")
            o.append("")
        r["_plist"] = plists.index(key)
    for r in scans:
        n = r["config"]
        o.append("Definition %s_cfg : scan := mk_scan %s %s %d %d" % (n, cs(n), cb(r["ok"]), r["tus"], r["asm_tus"]))
        o.append("  " + clist(["mk_sobj %s %s %s %s %s %s %s" % (cs(v["name"]), cs(v["tu"]), cs(v["file"]), cs(v["where"]), cs(v["type"]),
                                                               cb(v["const"]), cb(v["tls"])) for v in r["statics"]]))
        o.append("  " + clist(["mk_osec %s %s %d%%N %s %s %s" % (cs(s["member"]), cs(s["section"]), s["size"], cb(s["write"]), cb(s["tls"]),
                                                                "[" + "; ".join(cs(x) for x in s["syms"]) + "]") for s in r["sections"]]))
        o.append("  params_%d" % r.pop("_plist"))
        o.append("  " + clist(["mk_cdrop %s %d %s %s %s %s" % (cs(c["tu"]), c["line"], cs(c["func"]), cs(c["kind"]), cs(c["from"]), cs(c["to"]))
                               for c in r["const_drops"]]) + ".")
        o.append("")
    o.append("Definition text_statics : list tstatic :=")
    o.append("  " + clist(["mk_tstatic %s %d %s %s %s %s" % (cs(t["file"]), t["line"], cs(t["name"]), cs(t["decl"]), cb(t["const"]), cb(t["tls"]))
                           for t in text]) + ".")
    o.append("")
    o.append("Definition all_scans : list scan := [%s]." % "; ".join(r["config"] + "_cfg" for r in scans))
    o.append("")
    return "\n".join(o)


def inputs_hash():
    """Content hash of everything the scan depends on: the repository's src/
    tree, its CMake files and config.h.in, and this tool."""
    import hashlib
    h = hashlib.sha256()
    files = [os.path.abspath(__file__)]
    for rel in ("CMakeLists.txt", "config.h.in"):
        files.append(os.path.join(common.REPO, rel))
    for d, _, names in sorted(os.walk(os.path.join(common.REPO, "src"))):
        files += [os.path.join(d, n) for n in sorted(names)]
    for f in files:
        h.update(f.encode() + b"\0")
        try:
            h.update(open(f, "rb").read())
        except OSError:
            h.update(b"<unreadable>")
    return h.hexdigest()


def up_to_date(out=None):
    """Is the existing Globals.v the scan of exactly the current inputs?  (Used
    only by the setup hook tools/gen.d/60-globals; ./check C16 always rescans.)"""
    out = out or os.path.join(common.COQ, "Gen", "Globals.v")
    try:
        head = open(out).readline()
    except OSError:
        return False
    return ("inputs-sha256=%s " % inputs_hash()) in head and ("repo=%s " % common.REPO) in head


def run(configs=None, out=None, json_out=None, workdir=None, keep=False):
    """Returns the summary dict (also written as JSON when json_out)."""
    t0 = time.time()
    configs = configs or ALL_CONFIGS
    out = out or os.path.join(common.COQ, "Gen", "Globals.v")
    own = workdir is None
    work = workdir or tempfile.mkdtemp(prefix="verif-globals-")
    os.makedirs(work, exist_ok=True)
    try:
        from concurrent.futures import ProcessPoolExecutor
        with ThreadPoolExecutor(max_workers=min(len(configs), 3)) as ex:
            prepared = list(ex.map(lambda c: prepare_config(c, os.path.join(work, "g-" + c)), configs))
        jobs = [(ci, j) for ci, (r, js) in enumerate(prepared) for j in js]
        # C++ TUs first (their ASTs are ~100 MB of JSON each); real processes: JSON parsing holds the GIL
        jobs.sort(key=lambda cj: not cj[1][0]["file"].endswith(".cpp"))
        with ProcessPoolExecutor(max_workers=common.NPROC) as ex:
            results = list(ex.map(scan_tu_job, [j for _, j in jobs], chunksize=1))
        scans = []
        for ci, (r, js) in enumerate(prepared):
            scans.append(collect(r, [res for (cj, _), res in zip(jobs, results) if cj == ci]))
        # every configuration named in Props/Properties_C16.v must exist as a definition
        have = {r["config"] for r in scans}
        for c in ALL_CONFIGS:
            if c not in have:
                scans.append({"config": c, "ok": False, "errors": ["not scanned in this run"], "statics": [], "sections": [],
                              "warnings": [], "params": [], "const_drops": [], "tus": 0, "asm_tus": 0})
        dflt = os.path.join(work, "g-default")
        if "default" not in configs:
            configure_and_build("default", dflt)
        scans.append(scan_trng_none(dflt, work))
        text = text_scan()
        meta = {"repo": common.REPO, "hash": inputs_hash(), "complete": sorted(configs) == sorted(ALL_CONFIGS)}
        os.makedirs(os.path.dirname(out), exist_ok=True)
        tmp = out + ".tmp"
        open(tmp, "w").write(emit_coq(scans, text, meta))
        os.replace(tmp, out)
        summary = {"repo": common.REPO, "out": out, "wall_s": round(time.time() - t0, 1), "scans": scans, "text_statics": text}
        if json_out:
            json.dump(summary, open(json_out, "w"), indent=1)
        return summary
    finally:
        if own and not keep:
            shutil.rmtree(work, ignore_errors=True)


def main():
    ap = argparse.ArgumentParser()
    ap.add_argument("--configs", default=",".join(ALL_CONFIGS))
    ap.add_argument("--out", default=None)
    ap.add_argument("--json", default=None)
    ap.add_argument("--workdir", default=None)
    ap.add_argument("--keep", action="store_true")
    ap.add_argument("--if-stale", action="store_true", help="do nothing when the existing output was generated from exactly the current inputs")
    a = ap.parse_args()
    if a.if_stale and up_to_date(a.out):
        print("Globals.v is up to date with %s (content hash of src/, CMake files and tools/globals.py)" % common.REPO)
        return 0
    s = run([c for c in a.configs.split(",") if c], a.out, a.json, a.workdir, a.keep)
    bad = 0
    for r in s["scans"]:
        wr = [v for v in r["statics"] if not v["const"]]
        ws = [x for x in r["sections"]]
        print("%-10s ok=%s TUs=%d+%d asm  static objects=%d (non-const: %s)  writable/TLS sections: %s  pointer params=%d" % (
            r["config"], r["ok"], r["tus"], r["asm_tus"], len(r["statics"]),
            ", ".join("%s%s@%s" % (v["name"], "[tls]" if v["tls"] else "", v["tu"]) for v in wr) or "none",
            ", ".join(sorted({x["section"].split("._Z")[0] + ("[tls]" if x["tls"] else "") for x in ws})) or "none", len(r["params"])))
        for e in r["errors"]:
            print("   ! " + e.split("\n")[0])
        for e in r.get("warnings", []):
            print("   w " + e[:300])
        if not r["ok"] and r["errors"] != ["not scanned in this run"]:
            bad = 1
    print("text scan: %d static object declarations, non-const: %s" % (
        len(s["text_statics"]), ", ".join("%s@%s:%d" % (t["name"], t["file"], t["line"]) for t in s["text_statics"] if not t["const"]) or "none"))
    print("wrote %s (%.1fs)" % (s["out"], s["wall_s"]))
    return 3 if bad else 0


if __name__ == "__main__":
    sys.exit(main())
