#!/bin/bash
# usage: tools/benignall.sh <name>...   : behaviour-preserving rewrites made by sub-agents (/work/seed/out/<ID>-b<n>): confirm (patch applies,
# default build, complete ctest), copy into /verif/benign/<name>, run against it the quick check of every property whose anchors name a
# touched file (and of the property it was written for).  QUIET = the wanted outcome.
cd /verif
for s in "$@"; do
  src=/work/seed/out/$s
  [ -d "$src" ] || continue
  [ -f "$src/confirm.json" ] || python3 tools/seedconfirm.py "$src"
  if python3 -c "import json,sys; sys.exit(0 if json.load(open('$src/confirm.json'))['confirmed'] else 1)"; then
    mkdir -p benign/$s && cp -r $src/* benign/$s/
    ids=$(python3 - "$s" <<'PY'
import json, re, sys
name = sys.argv[1]
files = set(re.findall(r"^\+\+\+ b/(\S+)", open("/verif/benign/%s/patch.diff" % name).read(), re.M))
ids = [name.split("-")[0]]
for l in open("/verif/properties.jsonl"):
    p = json.loads(l)
    # the property it was written for, plus the properties with source-level translators (where a rewrite can break a tie without
    # changing behaviour) whose anchors name a touched file; at most four checks per change
    if set(p["anchors"]["files"]) & files and p["id"] not in ids and p["id"] in ("C03", "C08", "C09", "C10", "C11", "C12", "C14", "C16", "C18", "C20"):
        ids.append(p["id"])
print(",".join(ids[:4]))
PY
)
    python3 tools/seedtest.py benign/$s --ids $ids | sed -e 's/ MISSED by / QUIET under /' -e 's/ CAUGHT by / ALARM from /'
  else
    echo "$s NOT-CONFIRMED"
  fi
done
