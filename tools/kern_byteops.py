#!/usr/bin/env python3
"""(T) translator for the byte-granular state primitives (C08):

    ascon_add_bytes, ascon_overwrite_bytes, ascon_overwrite_with_zeroes, ascon_extract_bytes,
    ascon_extract_and_add_bytes, ascon_extract_and_overwrite_bytes

For every host backend (x86-64 default build, c64, c32, direct-xor, generic) the C file of src/core that
defines these functions under the backend's compile definitions is FOUND (not assumed), compiled to clang -O1
LLVM IR and every function is executed by tools/llvmx.py for each of the 861 (offset, size) pairs with
offset + size <= 40 (size 0 included) with

    the 40 bytes of the backend's memory image of the state     symbolic, writable
    the data / input buffer: exactly `size` bytes               symbolic, read-only
    the output buffer: exactly `size` bytes                     symbolic (old content), writable
    offset, size                                                concrete

extract_and_add and extract_and_overwrite are also run with input and output the SAME buffer.  Control flow and
addresses are decided concretely; any access outside a region (the user buffers are exactly `size` bytes long)
is Stuck and reported as MISSING.

Output: coq/Gen/ByteOpsObl_<backend>_<op>.v - the 861 translated programs of one operation on one backend and the
lemma `bo_table_ok <layout> <op> table = true` (by vm_compute).  The SPECIFICATION is not generated: it is
coq/Obl/ByteOps.v (bo_state / bo_output on the canonical view Sym/Canon.view L of the memory image), and Coq
checks observe(prog(v)) = spec(observe(v)) for ALL v.  The Python copy of the specification below is used only to
search a concrete failing input (build/kern/byteops.json), so that a broken obligation comes with a replay.

A run is skipped for a backend when the LLVM IR of its source (re-derived from the current tree every time) and
the tool sources hash to the recorded value and the generated files are intact."""
import os, sys, re, json, hashlib, random, subprocess, time
sys.path.insert(0, os.path.dirname(os.path.abspath(__file__)))
import llvmx
from symx import Stuck, write_if_changed

VERIF = os.path.dirname(os.path.dirname(os.path.abspath(__file__)))
TOOLS = os.path.dirname(os.path.abspath(__file__))

# name, compile definitions (as CMakeLists.txt passes them), layout the permutation kernel of this backend is proved under
BACKENDS = [
    ("x86_64", [], "KL64"),
    ("c64", ["ASCON_FORCE_C64"], "KL64"),
    ("c32", ["ASCON_FORCE_C32"], "KL32"),
    ("directxor", ["ASCON_FORCE_DIRECT_XOR"], "KL8"),
    ("generic", ["ASCON_FORCE_GENERIC"], "KL8"),
]
LAYOUT_OF_MACRO = [("ASCON_BACKEND_SLICED64", "KL64"), ("ASCON_BACKEND_SLICED32", "KL32"), ("ASCON_BACKEND_DIRECT_XOR", "KL8")]

# key, Coq constructor, C function, regions after the state (name, writable), argument names, nbuf
OPS = [
    ("add", "BAdd", "ascon_add_bytes", [("data", False)], ["state", "data"]),
    ("overwrite", "BOverwrite", "ascon_overwrite_bytes", [("data", False)], ["state", "data"]),
    ("zero", "BZero", "ascon_overwrite_with_zeroes", [], ["state"]),
    ("extract", "BExtract", "ascon_extract_bytes", [("out", True)], ["state", "out"]),
    ("extract_add", "BExtractAdd", "ascon_extract_and_add_bytes", [("in", False), ("out", True)], ["state", "in", "out"]),
    ("extract_add_inplace", "BExtractAddInplace", "ascon_extract_and_add_bytes", [("buf", True)], ["state", "buf", "buf"]),
    ("extract_overwrite", "BExtractOverwrite", "ascon_extract_and_overwrite_bytes", [("in", False), ("out", True)], ["state", "in", "out"]),
    ("extract_overwrite_inplace", "BExtractOverwriteInplace", "ascon_extract_and_overwrite_bytes", [("buf", True)], ["state", "buf", "buf"]),
]
PAIRS = [(o, s) for o in range(41) for s in range(41 - o)]
FUNCS = sorted(set(o[2] for o in OPS))
PART_INSTR = 30000        # instructions (+40 per program) per generated part file


def compact(e):
    """a symx expression (Sym/Wexpr constructor syntax) in Obl/ByteOps.cexpr syntax, operands by name (Obl/ByteOpsNames.v)"""
    e = re.sub(r"\(WTmp (\d+)\)", lambda m: "t" + m.group(1) if int(m.group(1)) < 2048 else m.group(0), e)
    e = re.sub(r"\(WIn (\d+)\)", lambda m: "i" + m.group(1) if int(m.group(1)) < 160 else m.group(0), e)
    e = re.sub(r"\((WShl|WShr|WRotr|WZext|WTrunc|WConst) (\d+) ", lambda m: "(%s %s " % (m.group(1), "n" + m.group(2) if int(m.group(2)) <= 128 else m.group(2)), e)
    return e.replace("(W", "(C")


def clist(exprs):
    """Obl/ByteOps.clist of compact expressions"""
    return "%s cnil%s" % (" ".join("(ccons " + compact(e) for e in exprs), ")" * len(exprs)) if exprs else "cnil"


def incs_of(repo):
    return [os.path.join(repo, "src"), os.path.join(repo, "src", "ascon"), os.path.join(repo, "src", "core")]


def backend_macros(repo, defs):
    cmd = ["clang", "-dM", "-E", "-x", "c", "-include", os.path.join(repo, "src", "core", "ascon-select-backend.h")] + ["-D" + d for d in defs] + ["/dev/null"]
    p = subprocess.run(cmd, stdout=subprocess.PIPE, stderr=subprocess.PIPE)
    return set(l.split()[1] for l in p.stdout.decode().split("\n") if l.startswith("#define ASCON_BACKEND_"))


def find_source(repo, defs):
    """the file(s) of src/core that define the byte-range functions under these definitions: -> [(file, ir)]"""
    found = []
    core = os.path.join(repo, "src", "core")
    for f in sorted(os.listdir(core)):
        if not f.endswith(".c"):
            continue
        txt = open(os.path.join(core, f), errors="replace").read()
        if "ascon_add_bytes" not in txt:
            continue
        try:
            ir = llvmx.compile_ll(os.path.join(core, f), defs=defs, incs=incs_of(repo))
        except Stuck:
            continue
        if "@ascon_add_bytes(" in ir and "define" in ir:
            mod = llvmx.Module(ir)
            if "@ascon_add_bytes" in mod.funcs:
                found.append((f, ir))
    return found


# ---------------------------------------------------------------- Python copy of the specification (counter-example search only)
def canon(layout, img):
    """memory image (40 ints) -> the 40 canonical big-endian bytes"""
    if layout == "KL8":
        return list(img)
    if layout == "KL64":
        return [img[8 * (j // 8) + 7 - j % 8] for j in range(40)]
    if layout == "KL32":
        out = []
        for i in range(5):
            ev = int.from_bytes(bytes(img[8 * i:8 * i + 4]), "little")
            od = int.from_bytes(bytes(img[8 * i + 4:8 * i + 8]), "little")
            x = 0
            for k in range(32):
                x |= ((ev >> k) & 1) << (2 * k)
                x |= ((od >> k) & 1) << (2 * k + 1)
            out += list(x.to_bytes(8, "big"))
        return out
    raise ValueError(layout)


def spec(op, off, size, V, data):
    """-> (canonical state after, output bytes)"""
    seg = V[off:off + size]
    x = [a ^ b for a, b in zip(seg, data)]
    if op == "add":
        return V[:off] + x + V[off + size:], []
    if op == "overwrite":
        return V[:off] + data + V[off + size:], []
    if op == "zero":
        return V[:off] + [0] * size + V[off + size:], []
    if op == "extract":
        return V, seg
    if op.startswith("extract_add"):
        return V, x
    if op.startswith("extract_overwrite"):
        return V[:off] + data + V[off + size:], x
    raise ValueError(op)


def hexs(l):
    return bytes(l).hex() or "-"


def find_cex(layout, op, off, size, b, outs, rng, tries=4):
    n = len(b.in_widths)
    for t in range(tries):
        if t == 0:
            ins = [0x00] * 40 + [0xFF] * (n - 40)
        elif t == 1:
            ins = [0xFF] * 40 + [0x00] * (n - 40)
        else:
            ins = [rng.getrandbits(8) for _ in range(n)]
        got = b.evaluate(ins, outs)
        V = canon(layout, ins[:40])
        data = ins[40:40 + size]
        ws, wo = spec(op, off, size, V, data)
        gs, go = canon(layout, got[:40]), got[40:]
        if gs != ws or go != wo:
            bad = [i for i in range(40) if gs[i] != ws[i]]
            return {"state_image": hexs(ins[:40]), "canonical_state": hexs(V), "buffers": hexs(ins[40:]), "data": hexs(data),
                    "got_state": hexs(gs), "want_state": hexs(ws), "got_output": hexs(go), "want_output": hexs(wo),
                    "first_wrong_state_byte": bad[0] if bad else None}
    return None


# ---------------------------------------------------------------- one operation on one group of backends with identical IR: 861 runs
def translate(job):
    (users, ir, srcfile, opkey, gen) = job           # users: [(backend, layout)], the first one names the part files
    bname = users[0][0]
    key, ctor, fn, bufs, argn = next(o for o in OPS if o[0] == opkey)
    t0 = time.time()
    mod = llvmx.Module(ir)
    rng = random.Random("%s/%s" % (bname, opkey))
    nbuf = len(bufs)
    tab = "bo_%s_%s" % (bname, key)
    head = ["(* GENERATED by tools/kern_byteops.py from /repo's current source: %s of src/core/%s (backend %s, clang -O1 LLVM IR)," % (fn, srcfile, "/".join(u for u, _ in users)),
            "   one translated program per (offset, size) with offset + size <= 40; inputs: 40 state image bytes, then the user buffers%s *)" %
            (" (input and output are the same buffer)" if key.endswith("inplace") else ""),
            "From Coq Require Import NArith.", "From AsconV Require Import Obl.ByteOps Obl.ByteOpsNames.", ""]
    defs, names, missing, ninstr = [], [], [], 0
    cexs = dict((u, []) for u, _ in users)
    for (off, size) in PAIRS:
        regions = {"state": {"size": 40, "symbolic": True, "writable": True}}
        for (rn, wr) in bufs:
            regions[rn] = {"size": size, "symbolic": True, "writable": wr}
        args = [("ptr", a, 0) for a in argn] + [("int", off), ("int", size)]
        nm = "%s_%d_%d" % (tab, off, size)
        ptxt, ni = None, 0
        try:
            if fn not in [f[1:] for f in mod.funcs]:
                raise Stuck("function %s is not defined in %s" % (fn, srcfile))
            s = llvmx.Exec(mod, "@" + fn, args, regions, cut=False).run()[0]
            want_in = 40 + nbuf * size
            want_out = 40 + (size if any(w for _, w in bufs) else 0)
            if s.b.in_widths != [8] * want_in:
                raise Stuck("unexpected inputs: %d words" % len(s.b.in_widths))
            if len(s.outs) != want_out or any(o is None for o in s.outs):
                raise Stuck("unexpected outputs")
            seen = {}
            for (u, layout) in users:
                if layout not in seen:
                    seen[layout] = find_cex(layout, key, off, size, s.b, s.outs, rng)
                if seen[layout]:
                    cex = dict(seen[layout])
                    cex.update({"backend": u, "operation": fn, "variant": key, "offset": off, "size": size})
                    cexs[u].append(cex)
            ptxt = "{| c_body := %s; c_outs := %s |}" % (clist(s.b.body), clist([s.b.ref(o) for o in s.outs]))
            ni = len(s.b.body)
        except (Stuck, KeyError, IndexError, ValueError) as ex:
            missing.append("%s(offset=%d, size=%d): %s" % (fn, off, size, str(ex)[:200]))
            ptxt = "{| c_body := cnil; c_outs := cnil |}"       # cannot satisfy the obligation: the proof breaks
        defs.append((ni, "Definition %s : bo_case := {| bc_off := %d; bc_size := %d; bc_code := %s |}." % (nm, off, size, ptxt)))
        names.append(nm)
        ninstr += ni
    # the programs go into part files of bounded size (parsing dominates the Coq time; parts are compiled in parallel)
    parts, cur, cnt = [], [], 0
    for ni, d in defs:
        if cur and cnt + ni > PART_INSTR:
            parts.append(cur); cur, cnt = [], 0
        cur.append(d); cnt += ni + 40
    parts.append(cur)
    pfiles, ph = [], hashlib.sha256()
    for k, part in enumerate(parts):
        text = "\n".join(head + part) + "\n"
        path = os.path.join(gen, "ByteOps_%s_%s_p%d.v" % (bname, key, k))
        write_if_changed(path, text)
        pfiles.append(os.path.basename(path)); ph.update(text.encode())
    out = []
    for (u, layout) in users:
        ut = "bo_%s_%s" % (u, key)
        M = ["(* GENERATED by tools/kern_byteops.py: %s on backend %s - the table of the 861 translated programs%s and its check *)" %
             (fn, u, "" if u == bname else " (those of backend %s: the LLVM IR of the six functions is identical)" % bname),
             "From AsconV Require Import Sym.Kernel Obl.ByteOps %s." % " ".join("Gen.ByteOps_%s_%s_p%d" % (bname, key, k) for k in range(len(parts))),
             "Definition %s : list bo_case := %s nil%s." % (ut, " ".join("cons %s (" % n for n in names), ")" * len(names)),
             "Lemma %s_ok : bo_table_ok %s %s %s = true. Proof. vm_compute. reflexivity. Qed." % (ut, layout, ctor, ut)]
        text = "\n".join(M) + "\n"
        path = os.path.join(gen, "ByteOpsObl_%s_%s.v" % (u, key))
        write_if_changed(path, text)
        h = ph.copy(); h.update(text.encode())
        out.append({"backend": u, "op": key, "function": fn, "source": "src/core/" + srcfile, "layout": layout, "pairs": len(names), "instructions": ninstr,
                    "programs_of": bname, "missing": ["kern_byteops %s %s" % (u, m) for m in missing], "counterexamples": cexs[u][:8], "n_counterexamples": len(cexs[u]),
                    "seconds": round(time.time() - t0, 2) if u == bname else 0.0, "files": pfiles + [os.path.basename(path)], "sha": h.hexdigest()})
    return out


def relevant_ir(ir):
    """what the translation of the six functions can depend on: target/type/global lines and their `define` blocks, provided they
    call nothing (otherwise the whole module).  Backends for which this text is identical share their translated programs."""
    lines, header, blocks, i = ir.split("\n"), [], {}, 0
    while i < len(lines):
        m = re.match(r"define .*?@([\w.$]+)\(", lines[i])
        if m:
            j = i
            while lines[j] != "}":
                j += 1
            blocks[m.group(1)] = lines[i:j + 1]
            i = j + 1
            continue
        if lines[i].startswith(("target ", "%", "@")):
            header.append(lines[i])
        i += 1
    body = []
    for f in FUNCS:
        b = blocks.get(f)
        if b is None or any(re.search(r"\b(call|invoke)\b", x) for x in b):
            return ir
        body += [re.sub(r" #\d+", "", b[0])] + b[1:]
    return "\n".join(header + body)


def files_sha(gen, files):
    h = hashlib.sha256()
    for f in files:
        p = os.path.join(gen, f)
        if not os.path.exists(p):
            return None
        h.update(open(p, "rb").read())
    return h.hexdigest()


def tool_hash():
    h = hashlib.sha256()
    for f in ("kern_byteops.py", "llvmx.py", "symx.py"):
        h.update(open(os.path.join(TOOLS, f), "rb").read())
    return h.hexdigest()


def main(repo, gen, force=False, jobs=None, report_path=None, only=None):
    t0 = time.time()
    kd = os.path.join(VERIF, "build", "kern")
    rp = report_path or os.path.join(kd, "byteops.json")
    os.makedirs(os.path.dirname(rp), exist_ok=True)
    old = {}
    if os.path.exists(rp) and not force:
        try:
            old = json.load(open(rp))
        except ValueError:
            old = {}
    th = tool_hash()
    report = {"backends": {}, "results": []}
    todo, keep, groups = [], set(), {}
    for (bname, defs, layout) in BACKENDS:
        if only is not None and bname not in only:
            continue
        macros = backend_macros(repo, defs)
        lay = [l for m, l in LAYOUT_OF_MACRO if m in macros]
        srcs = find_source(repo, defs)
        info = {"defines": defs, "macros": sorted(macros), "layout": layout, "sources": [f for f, _ in srcs]}
        report["backends"][bname] = info
        if lay != [layout]:
            print("MISSING kern_byteops %s: ascon-select-backend.h selects state representation %s, expected %s" % (bname, lay, layout))
            info["error"] = "representation"
        if len(srcs) != 1:
            print("MISSING kern_byteops %s: %d files of src/core define ascon_add_bytes under %s: %s" % (bname, len(srcs), defs, [f for f, _ in srcs]))
            info["error"] = "source"
            # keep the proof broken: tables that cannot check
            for o in OPS:
                p = os.path.join(gen, "ByteOpsObl_%s_%s.v" % (bname, o[0]))
                write_if_changed(p, "From AsconV Require Import Sym.Kernel Obl.ByteOps.\nDefinition bo_%s_%s : list bo_case := nil.\n"
                                    "Lemma bo_%s_%s_ok : bo_table_ok %s %s bo_%s_%s = true. Proof. vm_compute. reflexivity. Qed.\n" %
                                 (bname, o[0], bname, o[0], layout, o[1], bname, o[0]))
                keep.add(os.path.basename(p))
            continue
        srcfile, ir = srcs[0]
        rk = hashlib.sha256(relevant_ir(ir).encode()).hexdigest()
        g = groups.setdefault(rk, {"users": [], "ir": ir, "srcfile": srcfile})
        g["users"].append((bname, layout))
        irn = "\n".join(l for l in ir.split("\n") if not l.startswith(("; ModuleID", "source_filename")))      # these two lines carry the path of the tree
        info["key"] = hashlib.sha256((th + "\0" + layout + "\0" + g["users"][0][0] + "\0" + irn).encode()).hexdigest()
        info["programs_of"] = g["users"][0][0]
    for g in groups.values():
        for o in OPS:
            cached = []
            for (u, _) in g["users"]:
                pr = None
                if old.get("backends", {}).get(u, {}).get("key") == report["backends"][u]["key"]:
                    pr = next((r for r in old.get("results", []) if r.get("backend") == u and r["op"] == o[0]), None)
                if pr and files_sha(gen, pr["files"]) == pr["sha"]:
                    pr = dict(pr); pr["cached"] = True
                    cached.append(pr)
            if len(cached) == len(g["users"]):
                report["results"] += cached
            else:
                todo.append((g["users"], g["ir"], g["srcfile"], o[0], gen))
    if todo:
        import multiprocessing
        with multiprocessing.Pool(jobs or min(16, len(todo))) as pool:
            for rs in pool.imap_unordered(translate, todo):
                report["results"] += rs
    for r in report["results"]:
        keep.update(r["files"])
    for f in sorted(os.listdir(gen)):
        stem = f.lstrip(".").split(".")[0]
        if stem.startswith("ByteOps_") or stem.startswith("ByteOpsObl_"):
            if stem + ".v" not in keep and (only is None or any(stem.startswith("ByteOps_%s_" % b) or stem.startswith("ByteOpsObl_%s_" % b) for b in only)):
                os.remove(os.path.join(gen, f))          # a part (or its compiled files) that is no longer generated
    report["results"].sort(key=lambda r: ([b[0] for b in BACKENDS].index(r["backend"]), [o[0] for o in OPS].index(r["op"])))
    nm = 0
    for r in report["results"]:
        for m in r["missing"][:3]:
            print("MISSING " + m)
        if len(r["missing"]) > 3:
            print("MISSING kern_byteops %s %s: ... %d more (offset, size) pairs untranslated" % (r["backend"], r["function"], len(r["missing"]) - 3))
        nm += len(r["missing"])
    report["seconds"] = round(time.time() - t0, 2)
    json.dump(report, open(rp, "w"), indent=1)
    bad = [r for r in report["results"] if r["n_counterexamples"]]
    print("kern_byteops: %d backends x %d operation variants x %d (offset,size) pairs = %d programs (%d re-translated, %d untranslated), "
          "%d with a concrete counter-example%s; %.1f s" %
          (len(report["backends"]), len(OPS), len(PAIRS), sum(r["pairs"] for r in report["results"]), sum(r["pairs"] for r in report["results"] if not r.get("cached")),
           nm, sum(r["n_counterexamples"] for r in bad),
           "".join(" [%s %s(offset=%d,size=%d) state=%s data=%s]" % (r["backend"], r["function"], r["counterexamples"][0]["offset"], r["counterexamples"][0]["size"],
                                                                     r["counterexamples"][0]["canonical_state"], r["counterexamples"][0]["data"]) for r in bad[:3]),
           time.time() - t0))


if __name__ == "__main__":
    # kern_byteops.py [repo] [--force] [--gen DIR] [--report FILE] [--only backend,backend]   (the last three: self-test)
    argv, opt = sys.argv[1:], {}
    for k in ("--gen", "--report", "--only"):
        if k in argv:
            i = argv.index(k)
            opt[k] = argv[i + 1]
            del argv[i:i + 2]
    a = [x for x in argv if not x.startswith("--")]
    repo = a[0] if a else os.environ.get("VERIF_REPO", "/repo")
    gen = opt.get("--gen") or os.path.join(VERIF, "coq", "Gen")
    os.makedirs(gen, exist_ok=True)
    main(repo, gen, force="--force" in argv, report_path=opt.get("--report"), only=opt["--only"].split(",") if "--only" in opt else None)
