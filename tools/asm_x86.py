"""x86-64 (AT&T syntax) front end of the symbolic executor, for the checked-in
.S files of the host backend.  The file is preprocessed with gcc -E (host
macros select the ELF/SysV variant), parsed, and executed instruction by
instruction with symx: data symbolic, control flow / addresses / shift
counts concrete.  The lowering table below (one entry per mnemonic that
occurs in the files) is the trusted ISA model; it is cross-checked natively
by the differential runs on the assembled library."""
import re, subprocess
from symx import Builder, Memory, V, Stuck, mask
from llvmx import Ptr, Segment

REGS64 = ["rax", "rbx", "rcx", "rdx", "rsi", "rdi", "rbp", "rsp", "r8", "r9", "r10", "r11", "r12", "r13", "r14", "r15"]
CALLEE_SAVED = ["rbx", "rbp", "r12", "r13", "r14", "r15"]
SUB32 = {"eax": "rax", "ebx": "rbx", "ecx": "rcx", "edx": "rdx", "esi": "rsi", "edi": "rdi", "ebp": "rbp", "esp": "rsp",
         "r8d": "r8", "r9d": "r9", "r10d": "r10", "r11d": "r11", "r12d": "r12", "r13d": "r13", "r14d": "r14", "r15d": "r15"}
SUB8 = {"al": "rax", "bl": "rbx", "cl": "rcx", "dl": "rdx", "sil": "rsi", "dil": "rdi", "r8b": "r8", "r9b": "r9", "r10b": "r10",
        "r11b": "r11", "r12b": "r12", "r13b": "r13", "r14b": "r14", "r15b": "r15"}


class LabelAddr:
    def __init__(self, name, delta=0):
        self.name, self.delta = name, delta


class LabelDiff:
    def __init__(self, a, b):
        self.a, self.b = a, b


class RetAddr:
    def __init__(self, idx):
        self.idx = idx


def preprocess(path, incs=(), defs=()):
    cmd = ["gcc", "-E", "-x", "assembler-with-cpp"] + ["-I" + i for i in incs] + ["-D" + d for d in defs] + [path]
    p = subprocess.run(cmd, stdout=subprocess.PIPE, stderr=subprocess.PIPE)
    if p.returncode != 0:
        raise Stuck("gcc -E failed: " + p.stderr.decode()[-500:])
    return p.stdout.decode()


def parse(text):
    """-> items: list of ('label', name) | ('ins', mnemonic, [operands]) ; tables: label -> list of LabelDiff/int ;
    directives: list of (name, args) for the ELF-note check"""
    items, tables, directives = [], {}, []
    section = ".text"
    cur_data_label = None
    for raw in text.split("\n"):
        line = raw.split("#")[0].strip() if raw.lstrip().startswith("#") else raw.strip()
        if not line or line.startswith("#"):
            continue
        for part in line.split(";"):
            part = part.strip()
            if not part:
                continue
            m = re.match(r"^([.\w$]+):\s*(.*)$", part)
            if m:
                name = m.group(1)
                if section == ".text":
                    items.append(("label", name))
                else:
                    cur_data_label = name
                    tables[name] = []
                part = m.group(2).strip()
                if not part:
                    continue
            if part.startswith("."):
                toks = part.split(None, 1)
                d, args = toks[0], (toks[1] if len(toks) > 1 else "")
                directives.append((d, args))
                if d in (".text",):
                    section = ".text"
                elif d == ".section":
                    section = ".text" if args.split(",")[0].strip() in (".text",) else args.split(",")[0].strip()
                elif d in (".data", ".rodata", ".bss"):
                    section = d
                elif d in (".long", ".quad") and section != ".text" and cur_data_label is not None:
                    for a in args.split(","):
                        a = a.strip()
                        mm = re.match(r"^([.\w$]+)\s*-\s*([.\w$]+)$", a)
                        tables[cur_data_label].append(LabelDiff(mm.group(1), mm.group(2)) if mm else int(a, 0))
                continue
            toks = part.split(None, 1)
            ops = split_ops(toks[1]) if len(toks) > 1 else []
            items.append(("ins", toks[0], ops))
    return items, tables, directives


def split_ops(s):
    out, depth, cur = [], 0, ""
    for ch in s:
        if ch == "(":
            depth += 1
        elif ch == ")":
            depth -= 1
        if ch == "," and depth == 0:
            out.append(cur.strip()); cur = ""
        else:
            cur += ch
    if cur.strip():
        out.append(cur.strip())
    return out


class X86:
    """Symbolic execution of one function of a parsed .S file.

    regs_init: dict reg -> ('ptr', region, off) | ('int', value) | ('sym',) ; unspecified registers are fresh symbolic inputs.
    regions: like llvmx.Exec.  cut_labels: predicate on label names where the run is cut into segments."""

    def __init__(self, items, tables, entry, regs_init, regions, cut=None, rand_fns=(), stack_size=1024):
        self.items, self.tables = items, tables
        self.labels = {it[1]: i for i, it in enumerate(items) if it[0] == "label"}
        self.b = Builder()
        self.mem = Memory(self.b)
        self.region_order = []
        self.seg_in_desc = []
        for name, spec in regions.items():
            self.mem.add(name, spec["size"], init=spec.get("init"), symbolic=spec.get("symbolic", False), writable=spec.get("writable", True))
            self.region_order.append(name)
            if spec.get("symbolic"):
                self.seg_in_desc += [("mem", name, i) for i in range(spec["size"])]
        self.mem.add("stack", stack_size)
        self.stack_size = stack_size
        self.regs = {}
        self.init_regs = {}
        for r in REGS64:
            if r == "rsp":
                self.regs[r] = Ptr("stack", stack_size - 8)          # return address slot
                continue
            spec = regs_init.get(r, ("sym",))
            if spec[0] == "ptr":
                self.regs[r] = Ptr(spec[1], spec[2])
            elif spec[0] == "int":
                self.regs[r] = self.b.const(64, spec[1])
            else:
                v = self.b.inp(64)
                self.regs[r] = v
                self.seg_in_desc.append(("reg", r, 64))
            self.init_regs[r] = self.regs[r]
        self.objs = {}      # stack slots holding non-bit-vector objects (pointers, return addresses)
        self.objs[stack_size - 8] = RetAddr(-1)      # return address sentinel
        self.cut = cut
        self.rand_fns = set(rand_fns)
        self.segments = []
        self.flags = None
        self.nrand = 0
        self.pc = self.labels[entry]
        self.min_rsp = stack_size - 8
        self.steps = 0
        self.done = False

    # ---- stack slots may hold pointers / return addresses (objects), kept beside the byte memory
    def stack_store(self, off, obj):
        if not hasattr(self, "objs"):
            self.objs = {}
        self.objs[off] = obj

    # ---- operand access
    def reg_get(self, name, width=64):
        if name in SUB32:
            v = self.regs[SUB32[name]]
            if not isinstance(v, V):
                raise Stuck("32-bit view of a pointer register " + name)
            return self.b.trunc(v, 32)
        if name in SUB8:
            v = self.regs[SUB8[name]]
            if not isinstance(v, V):
                raise Stuck("8-bit view of a pointer register " + name)
            return self.b.trunc(v, 8)
        return self.regs[name]

    def reg_set(self, name, v):
        if name in SUB32:
            self.regs[SUB32[name]] = self.b.zext(v, 64) if isinstance(v, V) else v
        elif name in SUB8:
            full = self.regs[SUB8[name]]
            if not isinstance(full, V):
                raise Stuck("8-bit write to a pointer register")
            hi = self.b.lshr(full, 8)
            self.regs[SUB8[name]] = self.b.concat(self.b.trunc(hi, 56), v)
        else:
            self.regs[name] = v

    def addr(self, op):
        m = re.match(r"^(-?[.\w$]*)\((%\w+)?(?:,(%\w+)(?:,(\d+))?)?\)$", op)
        if not m:
            raise Stuck("bad memory operand " + op)
        disp = int(m.group(1), 0) if m.group(1) not in ("", "-") and re.match(r"^-?\d|^-?0x", m.group(1)) else 0
        sym_disp = m.group(1) if m.group(1) and not re.match(r"^-?(\d|0x)", m.group(1)) else None
        base = m.group(2)[1:] if m.group(2) else None
        if base == "rip":
            return ("label", LabelAddr(sym_disp, 0))
        if sym_disp:
            raise Stuck("symbolic displacement " + op)
        b = self.regs[base]
        idx = 0
        if m.group(3):
            iv = self.regs[m.group(3)[1:]]
            if not isinstance(iv, V) or not iv.is_conc():
                raise Stuck("data-dependent address (index register %s)" % m.group(3))
            n = iv.conc
            if n >> 63:
                n -= 1 << 64
            idx = n * int(m.group(4) or 1)
        if isinstance(b, LabelAddr):
            return ("table", b.name, b.delta + disp + idx)
        if not isinstance(b, Ptr):
            raise Stuck("data-dependent address (base register %s is not a pointer)" % base)
        return ("mem", b.region, b.off + disp + idx)

    def load(self, op, nbytes):
        a = self.addr(op)
        if a[0] == "table":
            ent = self.tables[a[1]]
            i, rem = divmod(a[2], 4)
            if rem or i < 0 or i >= len(ent):
                raise Stuck("jump table access out of range")
            return ent[i]
        if a[0] == "label":
            raise Stuck("load through rip-relative label")
        region, off = a[1], a[2]
        if region == "stack" and nbytes == 8 and off in self.objs and self.objs[off] is not None:
            return self.objs[off]
        if region is None:
            raise Stuck("null pointer dereference")
        return self.mem.load(region, off, nbytes)

    def store(self, op, v):
        a = self.addr(op)
        if a[0] != "mem":
            raise Stuck("store to a table/label")
        region, off = a[1], a[2]
        if region is None:
            raise Stuck("null pointer dereference")
        if region == "stack":
            self.check_stack(off, 8 if not isinstance(v, V) else v.w // 8)
        if not isinstance(v, V):
            if region != "stack":
                raise Stuck("pointer stored outside the stack")
            self.objs[off] = v
            return
        if region == "stack":
            for k in range(off - 7, off + v.w // 8):
                if k in self.objs:
                    self.objs[k] = None
        self.mem.store(region, off, v)

    def check_stack(self, off, n):
        rsp = self.regs["rsp"]
        if off < rsp.off:
            raise Stuck("stack access below the stack pointer (outside the function's frame)")
        if off + n > self.stack_size - 8 + 8:
            raise Stuck("stack access above the return address")

    def src(self, op, width=64):
        if op.startswith("$"):
            return self.b.const(width, int(op[1:], 0))
        if op.startswith("%"):
            return self.reg_get(op[1:])
        return self.load(op, width // 8)

    def dst_set(self, op, v):
        if op.startswith("%"):
            self.reg_set(op[1:], v)
        else:
            self.store(op, v)

    # ---- cut
    def do_cut(self, label):
        iface_vals, iface_desc, binds = [], [], []
        for r in REGS64:
            v = self.regs[r]
            if isinstance(v, V) and not v.is_conc():
                iface_vals.append(v); iface_desc.append(("reg", r, 64)); binds.append(("reg", r))
        for rn in sorted(self.mem.regions):
            reg = self.mem.regions[rn]
            if not reg.writable:
                continue
            for i, c in enumerate(reg.cells):
                if c is None:
                    continue
                bv = self.mem._cell_val(c)
                if not bv.is_conc():
                    iface_vals.append(bv); iface_desc.append(("mem", rn, i)); binds.append(("mem", rn, i))
        self.segments.append(Segment(self.b, self.seg_in_desc, iface_vals, iface_desc))
        nb = Builder()
        self.b = nb
        self.mem.b = nb
        for bd, v in zip(binds, iface_vals):
            nv = nb.inp(v.w)
            if bd[0] == "reg":
                self.regs[bd[1]] = nv
            else:
                self.mem.regions[bd[1]].cells[bd[2]] = ("v", nv)
        # initial register values are no longer nameable across a cut (ABI checks use an uncut run)
        self.seg_in_desc = iface_desc
        self.cut_labels_seen = getattr(self, "cut_labels_seen", []) + [label]

    # ---- run
    def run(self, max_steps=400000):
        while not self.done:
            it = self.items[self.pc]
            self.pc += 1
            if it[0] == "label":
                if self.cut and self.cut(it[1]):
                    self.do_cut(it[1])
                continue
            self.steps += 1
            if self.steps > max_steps:
                raise Stuck("step limit exceeded")
            self.step(it[1], it[2])
        outs, desc = [], []
        for rn in self.region_order:
            r = self.mem.regions[rn]
            if not r.writable:
                continue
            for i, c in enumerate(r.cells):
                outs.append(None if c is None else self.mem._cell_val(c)); desc.append(("mem", rn, i))
        self.final_regs = dict(self.regs)
        self.segments.append(Segment(self.b, self.seg_in_desc, outs, desc))
        return self.segments

    def jump(self, label):
        if label not in self.labels:
            raise Stuck("jump to unknown label " + label)
        self.b.leak.append(("J", label))
        self.pc = self.labels[label]      # the label item itself is processed (cut) on arrival

    def conc(self, v, what):
        if not isinstance(v, V) or not v.is_conc():
            raise Stuck("data-dependent " + what)
        return v.conc

    def step(self, op, ops):
        b = self.b
        if op in ("movq", "movl", "movb", "mov"):
            w = {"movq": 64, "movl": 32, "movb": 8, "mov": 64}[op]
            v = self.src(ops[0], w)
            if isinstance(v, V) and v.w != w:
                v = b.trunc(v, w) if v.w > w else b.zext(v, w)
            self.dst_set(ops[1], v)
        elif op == "movzbl":
            v = self.src(ops[0], 8)
            self.dst_set(ops[1], b.zext(v, 32))
        elif op == "movslq":
            v = self.src(ops[0], 32)
            if isinstance(v, LabelDiff):
                self.dst_set(ops[1], v)
            else:
                n = self.conc(v, "sign extension")
                if n >> 31:
                    n -= 1 << 32
                self.dst_set(ops[1], b.const(64, n))
        elif op == "leaq":
            a = self.addr(ops[0])
            if a[0] == "label":
                self.dst_set(ops[1], a[1])
            elif a[0] == "mem":
                self.dst_set(ops[1], Ptr(a[1], a[2]))
            else:
                raise Stuck("leaq of a table address")
        elif op in ("xorq", "andq", "orq", "xorl", "andl", "orl"):
            w = 64 if op.endswith("q") else 32
            s, d = self.src(ops[0], w), self.src(ops[1], w)
            if not isinstance(s, V) or not isinstance(d, V):
                raise Stuck("logical operation on a pointer")
            r = {"x": b.xor, "a": b.and_, "o": b.or_}[op[0]](d, s)
            self.dst_set(ops[1], r)
            self.flags = None
        elif op in ("notq", "notl"):
            w = 64 if op.endswith("q") else 32
            self.dst_set(ops[0], b.not_(self.src(ops[0], w)))
        elif op in ("rorq", "rolq", "shlq", "shrq", "shll", "shrl", "rorl", "roll"):
            w = 64 if op.endswith("q") else 32
            k = self.conc(self.src(ops[0], 8), "shift/rotate count") if len(ops) == 2 else 1
            tgt = ops[-1]
            v = self.src(tgt, w)
            r = {"ror": b.rotr, "rol": b.rotl, "shl": b.shl, "shr": b.lshr}[op[:3]](v, k & (w - 1))   # hardware masks the count to 6 (5) bits
            self.dst_set(tgt, r)
            self.flags = None
        elif op == "bswapq":
            v = self.src(ops[0])
            bs = [b.byte_of(v, i) for i in range(8)]
            r = bs[7]
            for i in range(6, -1, -1):
                r = b.concat(bs[i], r)
            self.dst_set(ops[0], r)
        elif op in ("addq", "subq"):
            s, d = self.src(ops[0]), self.src(ops[1])
            if isinstance(d, Ptr):
                n = self.conc(s, "pointer arithmetic")
                if n >> 63:
                    n -= 1 << 64
                r = Ptr(d.region, d.off + (n if op == "addq" else -n))
                if ops[1] == "%rsp":
                    self.min_rsp = min(self.min_rsp, r.off)
            elif isinstance(d, LabelDiff) and isinstance(s, LabelAddr) and op == "addq":
                if d.b != s.name:
                    raise Stuck("label arithmetic does not resolve")
                r = LabelAddr(d.a)
            elif isinstance(d, LabelAddr) and isinstance(s, LabelDiff) and op == "addq":
                if s.b != d.name:
                    raise Stuck("label arithmetic does not resolve")
                r = LabelAddr(s.a)
            else:
                x, y = self.conc(d, "addition/subtraction"), self.conc(s, "addition/subtraction")
                r = b.const(64, x + y if op == "addq" else x - y)
                self.flags = ("res", r.conc)
            self.dst_set(ops[1], r)
        elif op == "cmpq":
            s, d = self.src(ops[0]), self.src(ops[1])
            self.flags = ("cmp", self.conc(d, "comparison"), self.conc(s, "comparison"))
        elif op in ("jge", "jl", "jg", "jle", "je", "jne", "jz", "jnz", "jb", "jae", "ja", "jbe"):
            if self.flags is None or self.flags[0] != "cmp":
                raise Stuck("conditional jump without a concrete comparison")
            x, y = self.flags[1], self.flags[2]
            sx = x - (1 << 64) if x >> 63 else x
            sy = y - (1 << 64) if y >> 63 else y
            take = {"jge": sx >= sy, "jl": sx < sy, "jg": sx > sy, "jle": sx <= sy, "je": x == y, "jz": x == y, "jne": x != y, "jnz": x != y,
                    "jb": x < y, "jae": x >= y, "ja": x > y, "jbe": x <= y}[op]
            self.b.leak.append(("C", op, take))
            if take:
                self.jump(ops[0])
        elif op == "jmp":
            if ops[0].startswith("*"):
                t = self.regs[ops[0][2:]]
                if not isinstance(t, LabelAddr):
                    raise Stuck("data-dependent indirect jump")
                self.jump(t.name)
            else:
                self.jump(ops[0])
        elif op == "pushq":
            v = self.src(ops[0])
            rsp = self.regs["rsp"]
            self.regs["rsp"] = Ptr("stack", rsp.off - 8)
            self.min_rsp = min(self.min_rsp, rsp.off - 8)
            if rsp.off - 8 < 0:
                raise Stuck("stack overflow in the model")
            self.store("(%rsp)", v)
        elif op == "popq":
            v = self.load("(%rsp)", 8)
            rsp = self.regs["rsp"]
            self.regs["rsp"] = Ptr("stack", rsp.off + 8)
            self.dst_set(ops[0], v)
        elif op == "call":
            tgt = ops[0].split("@")[0]
            if tgt in self.rand_fns:
                self.nrand += 1
                v = b.inp(64)
                self.seg_in_desc = self.seg_in_desc + [("rand", tgt, self.nrand)]
                self.regs["rax"] = v
                # caller-saved registers are clobbered by the call
                for r in ("rcx", "rdx", "rsi", "rdi", "r8", "r9", "r10", "r11"):
                    self.regs[r] = b.inp(64)
                    self.seg_in_desc = self.seg_in_desc + [("clobber", r, self.nrand)]
            elif tgt in self.labels:
                rsp = self.regs["rsp"]
                self.regs["rsp"] = Ptr("stack", rsp.off - 8)
                self.min_rsp = min(self.min_rsp, rsp.off - 8)
                self.objs[rsp.off - 8] = RetAddr(self.pc)
                self.jump(tgt)
            else:
                raise Stuck("call to unknown function " + tgt)
        elif op in ("ret", "retq"):
            rsp = self.regs["rsp"]
            ra = self.objs.get(rsp.off)
            if not isinstance(ra, RetAddr):
                raise Stuck("return address was overwritten or the stack is unbalanced")
            self.regs["rsp"] = Ptr("stack", rsp.off + 8)
            if ra.idx < 0:
                self.done = True
            else:
                self.pc = ra.idx
        elif op in ("nop", "endbr64"):
            pass
        else:
            raise Stuck("unsupported x86-64 instruction: %s %s" % (op, ", ".join(ops)))
