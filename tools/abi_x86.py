#!/usr/bin/env python3
"""C18 sub-check 3 for the x86-64 files: ABI, frame and bounds facts from
complete (uncut) symbolic executions of every global function of

    src/core/ascon-asm-x86-64.S            ascon_permute (first_round 0..12), ascon_backend_free
    src/masking/ascon-x{2,3,4}-asm-x86-64.S ascon_x{2,3,4}_permute (first_round 0..12), for every
                                           ASCON_MASKED_MAX_SHARES profile that selects code in the file
    src/masking/ascon-word-asm-x86-64.S    all ascon_masked_word_* functions (every size / offset argument,
                                           distinct and aliased operands), MAX_SHARES 4, 3, 2

with tools/asm_x86.py (data symbolic; control flow, addresses, shift counts
concrete; an access outside a declared region, below the stack pointer, at or
above the return address slot (stores) / above it (loads), a read of memory
never written, a write through a const pointer, a `ret` through a slot that
no longer holds the entry return address => Stuck).  At the final `ret`:

  * rbx rbp r12 r13 r14 r15 hold the very value objects they held on entry
    (the executor keeps the identity of register inputs through push/pop and
    moves; any computation creates a new SSA value),
  * rsp = entry rsp + 8,
  * the frame size is entry rsp - lowest rsp reached.

Calls to ascon_trng_generate_64 are modelled as: fresh rax, every
caller-saved register clobbered with a fresh value, callee-saved registers
and memory untouched (i.e. the callee itself obeys the ABI).

Writes coq/Gen/AbiX86.v (the table + the list of global functions, checked
by Props/Properties_C18.v) and build/c18-abi-x86.json (same rows plus the
Stuck messages).  Prints MISSING lines when a file no longer has the shape
the tool knows (an unknown global function)."""
import os, sys, re, json, time
sys.path.insert(0, os.path.dirname(os.path.abspath(__file__)))
import asm_x86
from asm_x86 import X86, CALLEE_SAVED
from symx import Stuck, V
from llvmx import Ptr

VERIF = os.path.dirname(os.path.dirname(os.path.abspath(__file__)))
RAND_FNS = ("ascon_trng_generate_64",)


class AbiX86(X86):
    """X86 plus: stack loads are bounds-checked like stores, every stack access and every call is recorded."""

    def __init__(self, *a, **kw):
        super().__init__(*a, **kw)
        self.stack_acc = []       # (kind, off, n)
        self.call_rsp = []        # rsp offset at each call
        self.entry_rsp = self.regs["rsp"].off

    def load(self, op, nbytes):
        a = self.addr(op)
        if a[0] == "mem" and a[1] == "stack":
            self.check_stack(a[2], nbytes)
            self.stack_acc.append(("R", a[2], nbytes))
        return super().load(op, nbytes)

    def store(self, op, v):
        a = self.addr(op)
        if a[0] == "mem" and a[1] == "stack":
            self.stack_acc.append(("W", a[2], 8 if not isinstance(v, V) else v.w // 8))
        return super().store(op, v)

    def step(self, op, ops):
        if op == "call":
            self.call_rsp.append(self.regs["rsp"].off)
        return super().step(op, ops)


def same_value(a, b):
    if a is b:
        return True
    if isinstance(a, V) and isinstance(b, V):
        return a.w == b.w and ((a.is_conc() and b.is_conc() and a.conc == b.conc) or (not a.is_conc() and not b.is_conc() and a.ref == b.ref))
    if isinstance(a, Ptr) and isinstance(b, Ptr):
        return a.region == b.region and a.off == b.off
    return False


# ---------------------------------------------------------------------------
# what to run

def word_signature(fn, W):
    """-> list of (case, variant, regs_init, regions) for one masked-word function; W = bytes per masked word."""
    sym = lambda n, ro=False: {"size": n, "symbolic": True, "writable": not ro}
    out_ = lambda n: {"size": n}
    trng = {"size": 0}
    R = []
    m = re.match(r"ascon_masked_word_(?:x\d_)?(\w+)$", fn)
    op = m.group(1) if m else None
    if fn == "ascon_backend_free":
        R.append((0, "", {"rdi": ("ptr", "state", 0)}, {"state": sym(40)}))
    elif op == "zero":
        R.append((0, "", {"rdi": ("ptr", "word", 0), "rsi": ("ptr", "trng", 0)}, {"word": sym(W), "trng": trng}))
    elif op == "load":
        R.append((0, "", {"rdi": ("ptr", "word", 0), "rsi": ("ptr", "data", 0), "rdx": ("ptr", "trng", 0)},
                  {"word": sym(W), "data": sym(8, True), "trng": trng}))
    elif op == "load_partial":
        for n in range(0, 9):
            R.append((n, "", {"rdi": ("ptr", "word", 0), "rsi": ("ptr", "data", 0), "rdx": ("int", n), "rcx": ("ptr", "trng", 0)},
                      {"word": sym(W), "data": sym(n, True), "trng": trng}))
    elif op == "load_32":
        R.append((0, "", {"rdi": ("ptr", "word", 0), "rsi": ("ptr", "data1", 0), "rdx": ("ptr", "data2", 0), "rcx": ("ptr", "trng", 0)},
                  {"word": sym(W), "data1": sym(4, True), "data2": sym(4, True), "trng": trng}))
    elif op == "store":
        R.append((0, "", {"rdi": ("ptr", "data", 0), "rsi": ("ptr", "word", 0)}, {"data": out_(8), "word": sym(W, True)}))
    elif op == "store_partial":
        for n in range(0, 9):
            R.append((n, "", {"rdi": ("ptr", "data", 0), "rsi": ("int", n), "rdx": ("ptr", "word", 0)}, {"data": out_(n), "word": sym(W, True)}))
    elif op == "randomize" or (op or "").startswith("from_x"):
        R.append((0, "", {"rdi": ("ptr", "dest", 0), "rsi": ("ptr", "src", 0), "rdx": ("ptr", "trng", 0)},
                  {"dest": sym(W), "src": sym(W, True), "trng": trng}))
        R.append((0, "alias", {"rdi": ("ptr", "dest", 0), "rsi": ("ptr", "dest", 0), "rdx": ("ptr", "trng", 0)}, {"dest": sym(W), "trng": trng}))
    elif op == "xor":
        R.append((0, "", {"rdi": ("ptr", "dest", 0), "rsi": ("ptr", "src", 0)}, {"dest": sym(W), "src": sym(W, True)}))
        R.append((0, "alias", {"rdi": ("ptr", "dest", 0), "rsi": ("ptr", "dest", 0)}, {"dest": sym(W)}))
    elif op == "replace":
        # size 8 is outside the function's domain (the C twin shifts a 64-bit value by 64 there); on x86 the count of
        # `shrq %cl` is taken mod 64, which the lowering table of asm_x86.py does not model (found by native_x86.py)
        for n in range(0, 8):
            R.append((n, "", {"rdi": ("ptr", "dest", 0), "rsi": ("ptr", "src", 0), "rdx": ("int", n)}, {"dest": sym(W), "src": sym(W, True)}))
    elif op == "pad":
        for n in range(0, 8):
            R.append((n, "", {"rdi": ("ptr", "word", 0), "rsi": ("int", n)}, {"word": sym(W)}))
    elif op == "separator":
        R.append((0, "", {"rdi": ("ptr", "word", 0)}, {"word": sym(W)}))
    else:
        return None
    return R


def perm_signature(fn, shares, max_shares):
    if fn == "ascon_permute":
        return [(k, "", {"rdi": ("ptr", "state", 0), "rsi": ("int", k)}, {"state": {"size": 40, "symbolic": True}}) for k in range(13)]
    return [(k, "", {"rdi": ("ptr", "state", 0), "rsi": ("int", k), "rdx": ("ptr", "preserve", 0)},
             {"state": {"size": 40 * max_shares, "symbolic": True}, "preserve": {"size": 8 * (shares - 1), "symbolic": True}}) for k in range(13)]


def plan(repo):
    """-> list of (relative file, profile name, defines, {permutation entry: shares}, bytes per masked word)"""
    P = [("src/core/ascon-asm-x86-64.S", "default", [], {"ascon_permute": 1}, 0)]
    for shares in (2, 3, 4):
        for mx in (4, 3, 2):
            if mx >= shares:
                P.append(("src/masking/ascon-x%d-asm-x86-64.S" % shares, "max%d" % mx, ["ASCON_MASKED_MAX_SHARES=%d" % mx],
                          {"ascon_x%d_permute" % shares: shares}, 8 * mx))
    for mx in (4, 3, 2):
        P.append(("src/masking/ascon-word-asm-x86-64.S", "max%d" % mx, ["ASCON_MASKED_MAX_SHARES=%d" % mx], {}, 8 * mx))
    return P


def load_file(repo, rel, defs):
    incs = [os.path.join(repo, "src"), os.path.join(repo, "src", "core"), os.path.join(repo, "src", "masking")]
    text = asm_x86.preprocess(os.path.join(repo, rel), incs=incs, defs=defs)
    items, tables, directives = asm_x86.parse(text)
    globs = []
    labels = {it[1] for it in items if it[0] == "label"}
    for d, a in directives:
        if d in (".globl", ".global"):
            for n in a.split(","):
                n = n.strip()
                if n in labels and n not in globs:
                    globs.append(n)
    return items, tables, directives, globs


def run_one(items, tables, fn, regs_init, regions):
    m = AbiX86(items, tables, fn, regs_init, regions, cut=None, rand_fns=RAND_FNS)
    err = None
    segs = None
    try:
        segs = m.run()
    except Stuck as ex:
        err = str(ex)
    return m, segs, err


def row_of(rel, profile, fn, kind, case, variant, m, err, regions):
    fin = err is None
    entry = m.entry_rsp
    ru = []
    for name in m.region_order:
        acc = [(k[0], k[2], k[3]) for k in m.b.leak if k[0] in ("R", "W") and k[1] == name]
        size = regions[name]["size"]
        ru.append({"name": name, "size": size, "reads": sum(1 for a in acc if a[0] == "R"), "writes": sum(1 for a in acc if a[0] == "W"),
                   "lo": min([a[1] for a in acc] or [size]), "hi": max([a[1] + a[2] for a in acc] or [0])})
    st = m.stack_acc
    lo = min([a[1] for a in st] or [entry])
    above = sum(a[2] for a in st if a[1] + a[2] > entry)
    r = {"file": rel, "profile": profile, "fn": fn, "kind": kind, "case": case, "variant": variant, "finished": fin,
         "callee_saved_ok": fin and all(same_value(m.final_regs[x], m.init_regs[x]) for x in CALLEE_SAVED),
         "rsp_ok": fin and isinstance(m.final_regs["rsp"], Ptr) and m.final_regs["rsp"].region == "stack" and m.final_regs["rsp"].off == entry + 8,
         "ret_ok": fin, "in_region": fin or not re.search(r"out-of-bounds|stack access|read-only|uninitialised|null pointer|outside", err or ""),
         "frame_bytes": entry - m.min_rsp, "stack_lo": entry - lo, "stack_above": above, "steps": m.steps, "calls": len(m.call_rsp),
         "calls_aligned": all(o % 16 == 0 for o in m.call_rsp), "regions": ru, "stuck": err,
         "clobbered": ([x for x in CALLEE_SAVED if not same_value(m.final_regs[x], m.init_regs[x])] if fin else [])}
    if not fin:
        r["in_region"] = False if re.search(r"out-of-bounds|stack access|read-only|uninitialised|null pointer|outside", err) else True
        r["ret_ok"] = not re.search(r"return address|unbalanced", err)
    return r


def analyse(repo):
    rows, globs_all, perms_all, missing = [], [], [], []
    for rel, profile, defs, perms, W in plan(repo):
        if not os.path.exists(os.path.join(repo, rel)):
            missing.append("abi_x86: file %s does not exist" % rel)
            continue
        try:
            items, tables, directives, globs = load_file(repo, rel, defs)
        except Stuck as ex:
            missing.append("abi_x86: %s [%s]: %s" % (rel, profile, ex))
            continue
        for p in perms:
            if p not in globs:
                missing.append("abi_x86: %s [%s] does not define %s" % (rel, profile, p))
        for fn in globs:
            globs_all.append((rel, profile, fn))
            if fn in perms:
                cases, kind = perm_signature(fn, perms[fn], W // 8 if W else 1), 0
                perms_all.append((rel, profile, fn))
            else:
                cases, kind = word_signature(fn, W), 1
            if cases is None:
                missing.append("abi_x86: %s defines a global function the tool has no signature for: %s" % (rel, fn))
                continue
            for case, variant, regs_init, regions in cases:
                m, segs, err = run_one(items, tables, fn, regs_init, regions)
                rows.append(row_of(rel, profile, fn, kind, case, variant, m, err, regions))
    return rows, globs_all, perms_all, missing


def row_ok(r):
    return (r["finished"] and r["callee_saved_ok"] and r["rsp_ok"] and r["ret_ok"] and r["in_region"] and r["frame_bytes"] <= 512
            and r["stack_lo"] <= r["frame_bytes"] and r["stack_above"] == 0 and r["steps"] > 0
            and all(u["hi"] <= u["size"] and (u["reads"] + u["writes"] == 0 or u["lo"] < u["hi"]) for u in r["regions"]))


# ---------------------------------------------------------------------------
# Coq

def cb(x):
    return "true" if x else "false"


def emit_coq(rows, globs, perms, out):
    L = ["(* GENERATED by tools/abi_x86.py from /repo's current x86-64 assembly files: one row per complete symbolic run *)",
         "From Coq Require Import List NArith String.", "From AsconV Require Import Obl.AbiDefs.", "Import ListNotations.",
         "Local Open Scope string_scope.", "Local Open Scope nat_scope.", ""]
    ents = []
    for r in rows:
        ru = "; ".join('{| ru_name := "%s"; ru_size := %d; ru_reads := %d; ru_writes := %d; ru_lo := %d; ru_hi := %d |}'
                       % (u["name"], u["size"], u["reads"], u["writes"], u["lo"], u["hi"]) for u in r["regions"])
        ents.append('  {| ae_file := "%s"; ae_profile := "%s"; ae_fn := "%s"; ae_kind := %d; ae_case := %d; ae_variant := "%s"; ae_finished := %s; '
                    'ae_callee_saved_ok := %s; ae_rsp_ok := %s; ae_ret_ok := %s; ae_in_region := %s; ae_frame_bytes := %d; ae_stack_lo := %d; '
                    'ae_stack_above := %d; ae_steps := %d%%N; ae_calls := %d; ae_calls_aligned := %s; ae_regions := [%s] |}'
                    % (r["file"], r["profile"], r["fn"], r["kind"], r["case"], r["variant"], cb(r["finished"]), cb(r["callee_saved_ok"]),
                       cb(r["rsp_ok"]), cb(r["ret_ok"]), cb(r["in_region"]), r["frame_bytes"], r["stack_lo"], r["stack_above"], r["steps"],
                       r["calls"], cb(r["calls_aligned"]), ru))
    L.append("Definition abi_entries : list abi_entry := [\n%s\n]." % ";\n".join(ents))
    tri = lambda g: '("%s", "%s", "%s")' % g
    L.append("Definition abi_globals : list (string * string * string) := [\n  %s\n]." % ";\n  ".join(tri(g) for g in globs))
    L.append("Definition abi_perms : list (string * string * string) := [\n  %s\n]." % ";\n  ".join(tri(g) for g in perms))
    open(out, "w").write("\n".join(L) + "\n")


def main():
    repo = sys.argv[1] if len(sys.argv) > 1 and not sys.argv[1].startswith("--") else os.environ.get("VERIF_REPO", "/repo")
    t0 = time.time()
    rows, globs, perms, missing = analyse(repo)
    gen = os.path.join(VERIF, "coq", "Gen")
    os.makedirs(gen, exist_ok=True)
    emit_coq(rows, globs, perms, os.path.join(gen, "AbiX86.v"))
    os.makedirs(os.path.join(VERIF, "build"), exist_ok=True)
    bad = [r for r in rows if not row_ok(r)]
    json.dump({"repo": repo, "rows": rows, "globals": globs, "perms": perms, "missing": missing, "bad": len(bad), "wall_s": round(time.time() - t0, 2)},
              open(os.path.join(VERIF, "build", "c18-abi-x86.json"), "w"))
    for m in missing:
        print("MISSING " + m)
    print("abi_x86: %d runs of %d global functions in %d file/profile pairs, %d not ok, %d instructions executed (%.1fs)"
          % (len(rows), len(globs), len({(g[0], g[1]) for g in globs}), len(bad), sum(r["steps"] for r in rows), time.time() - t0))
    if "--show" in sys.argv:
        for r in rows:
            print(r["file"], r["profile"], r["fn"], r["case"], r["variant"], "OK" if row_ok(r) else "BAD", r["frame_bytes"], r["steps"],
                  "aligned" if r["calls_aligned"] else "MISALIGNED-CALL", r["stuck"] or "")


if __name__ == "__main__":
    main()
