"""m68k / ColdFire (GNU as, Motorola syntax with %-registers) front end of the
symbolic executor (C18) for ascon-asm-m68k.S.  Big-endian: memory is a
MemoryBE, the state layout is KL32BE.  Arguments are on the stack above the
return address (all promoted to 32 bits); d2-d7, a2-a6 and sp are callee
saved.  The lowering table models the mnemonics of the file with their
architectural semantics (M68000 PRM / ColdFire PRM), including the operand
restrictions that make an instruction exist at all (eor takes a data-register
source, and/or/not/shift never touch address registers, immediate shift counts
are 1..8, register counts are taken modulo 64, ColdFire has no rotates).
Condition codes computed from symbolic data are 'unknown'; a conditional
branch on them is Stuck.  NOT validated against hardware, an assembler or an
emulator: none is available here."""
import re, os
from symx import V, Stuck, mask
from llvmx import Ptr
from asm_base import Machine, LabelAddr, LabelDiff, RetAddr, preprocess, parse, signed, kern_runs

DREGS = ["d%d" % i for i in range(8)]
AREGS = ["a%d" % i for i in range(8)]
BCC = {"eq": "eq", "ne": "ne", "hi": "hi", "ls": "ls", "cc": "hs", "hs": "hs", "cs": "lo", "lo": "lo", "ge": "ge", "lt": "lt", "gt": "gt", "le": "le", "mi": "mi", "pl": "pl"}


class M68K(Machine):
    W = 32
    REGS = DREGS + AREGS
    SP = "a7"
    CALLEE_SAVED = ["d2", "d3", "d4", "d5", "d6", "d7", "a2", "a3", "a4", "a5", "a6"]
    BIG_ENDIAN = True
    RET_ON_STACK = True

    def __init__(self, *a, coldfire=False, **kw):
        Machine.__init__(self, *a, **kw)
        self.coldfire = coldfire

    def rn(self, op):
        m = re.match(r"^%(\w+)$", op.strip())
        if not m:
            return None
        n = m.group(1).lower()
        n = {"fp": "a6", "sp": "a7"}.get(n, n)
        if n not in self.regs:
            raise Stuck("unsupported register " + op)
        return n

    def kind(self, op):
        """'d' data register, 'a' address register, 'i' immediate, 'm' memory"""
        if op.startswith("#"):
            return "i"
        r = self.rn(op)
        if r:
            return r[0]
        return "m"

    def addr(self, op, size=4):
        """d(An) | (d,An) | (An) ; -(An) and (An)+ move the register by the operand size"""
        op = op.strip()
        m = re.match(r"^-\((%\w+)\)$", op) or re.match(r"^\((%\w+)\)\+$", op)
        if m:
            r = self.rn(m.group(1))
            base = self.regs[r]
            if r[0] != "a" or not isinstance(base, Ptr):
                raise Stuck("data-dependent address (base register %s is not a pointer)" % m.group(1))
            if op.startswith("-"):
                base = Ptr(base.region, base.off - size)
                self.setreg(r, base)
                return base
            self.post_inc = (r, Ptr(base.region, base.off + size))
            return base
        m = re.match(r"^\((-?(?:0x[0-9a-fA-F]+|\d+)),(%\w+)\)$", op.replace(" ", "")) or re.match(r"^(-?(?:0x[0-9a-fA-F]+|\d+))?\((%\w+)\)$", op)
        if not m:
            raise Stuck("unsupported addressing mode " + op)
        r = self.rn(m.group(2))
        if r[0] != "a":
            raise Stuck("memory operand with a data-register base")
        disp = int(m.group(1), 0) if m.group(1) else 0
        if not -32768 <= disp <= 32767:
            raise Stuck("displacement does not fit 16 bits")
        base = self.regs[r]
        if not isinstance(base, Ptr):
            raise Stuck("data-dependent address (base register %s is not a pointer)" % m.group(2))
        return Ptr(base.region, base.off + disp)

    def src(self, op):
        k = self.kind(op)
        if k == "i":
            return self.b.const(32, int(op[1:], 0))
        if k in "da":
            return self.regs[self.rn(op)]
        self.post_inc = None
        v = self.mem_load(self.addr(op), 4)
        if self.post_inc:
            self.setreg(*self.post_inc)
        return v

    def dst_set(self, op, v):
        k = self.kind(op)
        if k == "i":
            raise Stuck("immediate as destination")
        if k in "da":
            self.setreg(self.rn(op), v)
        else:
            self.post_inc = None
            self.mem_store(self.addr(op), v)
            if self.post_inc:
                self.setreg(*self.post_inc)

    def reglist(self, op):
        out = []
        for part in op.split("/"):
            if "-" in part:
                a, z = [self.rn(x) for x in part.split("-")]
                out += self.REGS[self.REGS.index(a):self.REGS.index(z) + 1]
            else:
                out.append(self.rn(part))
        return sorted(set(out), key=self.REGS.index)          # transfer order is d0..d7, a0..a7 whatever the text says

    def ccr(self, r):
        self.flags = ("cmp", r.conc, 0, 32) if isinstance(r, V) and r.is_conc() else None

    def data(self, v):
        if not isinstance(v, V):
            raise Stuck("logical operation on a pointer")
        return v

    def step(self, op, ops):
        b = self.b
        if op in ("move.l", "movea.l"):
            ks, kd = self.kind(ops[0]), self.kind(ops[1])
            if op == "movea.l" and kd != "a":
                raise Stuck("movea needs an address-register destination")
            if ks == "m" and kd == "m" and self.coldfire:
                pass          # (d16,An) -> (d16,An) exists on ColdFire as well
            v = self.src(ops[0])
            self.dst_set(ops[1], v)
            if kd != "a":          # movea does not affect the condition codes
                self.ccr(v)
        elif op == "movem.l":
            to_mem = self.kind(ops[1]) == "m" and not re.match(r"^%\w+([-/]%\w+)+$", ops[1])
            lst, ea = (ops[0], ops[1]) if to_mem else (ops[1], ops[0])
            regs = self.reglist(lst)
            if re.match(r"^-\(|.*\)\+$", ea.strip()):
                raise Stuck("movem with predecrement/postincrement not modelled")
            base = self.addr(ea)
            for i, r in enumerate(regs):          # control addressing modes: ascending addresses, d0 first
                p = Ptr(base.region, base.off + 4 * i)
                if to_mem:
                    self.mem_store(p, self.regs[r])
                else:
                    self.setreg(r, self.mem_load(p, 4))
        elif op == "moveq.l" or op == "moveq":
            if self.kind(ops[0]) != "i" or self.kind(ops[1]) != "d":
                raise Stuck("moveq needs #imm, Dn")
            n = int(ops[0][1:], 0)
            if not -128 <= n <= 127:
                raise Stuck("moveq immediate out of range")
            r = b.const(32, n)          # sign-extended to 32 bits
            self.dst_set(ops[1], r)
            self.ccr(r)
        elif op in ("eor.l", "eori.l"):
            ks, kd = self.kind(ops[0]), self.kind(ops[1])
            if (op == "eor.l" and ks != "d") or (op == "eori.l" and ks != "i") or kd == "a" or (self.coldfire and kd != "d" and op == "eori.l"):
                raise Stuck("operand combination does not exist for " + op)
            r = b.xor(self.data(self.src(ops[1])), self.data(self.src(ops[0])))
            self.dst_set(ops[1], r)
            self.ccr(r)
        elif op in ("and.l", "or.l", "andi.l", "ori.l"):
            ks, kd = self.kind(ops[0]), self.kind(ops[1])
            if ks == "a" or kd == "a" or (ks != "d" and kd != "d") or (op.endswith("i.l") and ks != "i"):
                raise Stuck("operand combination does not exist for " + op)
            f = b.and_ if op.startswith("and") else b.or_
            r = f(self.data(self.src(ops[1])), self.data(self.src(ops[0])))
            self.dst_set(ops[1], r)
            self.ccr(r)
        elif op == "not.l":
            if self.kind(ops[0]) == "a" or (self.coldfire and self.kind(ops[0]) != "d"):
                raise Stuck("operand does not exist for not.l")
            r = b.not_(self.data(self.src(ops[0])))
            self.dst_set(ops[0], r)
            self.ccr(r)
        elif op in ("lsl.l", "lsr.l", "ror.l", "rol.l"):
            if op in ("ror.l", "rol.l") and self.coldfire:
                raise Stuck("ColdFire has no rotate instructions")
            if len(ops) != 2 or self.kind(ops[1]) != "d":
                raise Stuck("register shift needs a data-register destination")
            if self.kind(ops[0]) == "i":
                k = int(ops[0][1:], 0)
                if not 1 <= k <= 8:
                    raise Stuck("immediate shift count must be 1..8")
            elif self.kind(ops[0]) == "d":
                k = self.conc(self.regs[self.rn(ops[0])], "shift/rotate count") % 64
            else:
                raise Stuck("bad shift count operand")
            v = self.data(self.src(ops[1]))
            if op == "ror.l":
                r = b.rotr(v, k % 32)
            elif op == "rol.l":
                r = b.rotl(v, k % 32)
            elif op == "lsl.l":
                r = b.shl(v, k) if k < 32 else b.const(32, 0)
            else:
                r = b.lshr(v, k) if k < 32 else b.const(32, 0)
            self.dst_set(ops[1], r)
            self.flags = None
        elif op in ("cmpi.l", "cmp.l"):
            s, d = self.src(ops[0]), self.src(ops[1])          # computes destination - source
            if op == "cmpi.l" and self.kind(ops[0]) != "i":
                raise Stuck("cmpi needs an immediate")
            if op == "cmpi.l" and self.coldfire and self.kind(ops[1]) != "d":
                raise Stuck("ColdFire cmpi needs a data register")
            self.flags = ("cmp", self.conc(d, "comparison"), self.conc(s, "comparison"), 32)
        elif op in ("tst.l",):
            self.flags = ("cmp", self.conc(self.src(ops[0]), "test"), 0, 32)
        elif re.match(r"^j?b(\w\w)(\.[bswl])?$", op) and re.match(r"^j?b(\w\w)", op).group(1) in BCC:
            if self.cond(BCC[re.match(r"^j?b(\w\w)", op).group(1)]):
                self.jump(ops[0])
        elif op in ("jmp", "jra", "bra", "bra.s", "bra.w", "bra.l"):
            if ops[0].startswith("("):
                self.jump_value(self.regs[self.rn(ops[0].strip("()"))])
            else:
                self.jump(ops[0])
        elif op in ("addq.l", "subq.l", "adda.l", "suba.l", "add.l", "sub.l", "lea"):
            if op == "lea":
                self.dst_set(ops[1], self.addr(ops[0]))
            else:
                r = self.add_values(self.src(ops[1]), self.src(ops[0]), sub=op.startswith("sub"))
                self.dst_set(ops[1], r)
                if self.kind(ops[1]) != "a":
                    self.flags = None
        elif op in ("link.w", "link", "link.l"):
            an = self.rn(ops[0])
            if an is None or an[0] != "a" or self.kind(ops[1]) != "i":
                raise Stuck("link needs An, #disp")
            d = int(ops[1][1:], 0)
            if op != "link.l" and not -32768 <= d <= 32767:
                raise Stuck("link displacement does not fit 16 bits")
            self.push(self.regs[an])
            self.setreg(an, self.regs["a7"])
            sp = self.regs["a7"]
            self.setreg("a7", Ptr("stack", sp.off + d))
        elif op == "unlk":
            an = self.rn(ops[0])
            v = self.regs[an]
            self.setreg("a7", v)          # setreg rejects anything but a stack pointer value
            self.setreg(an, self.pop())
        elif op == "rts":
            ra = self.pop()
            if not isinstance(ra, RetAddr):
                raise Stuck("return address was overwritten or the stack is unbalanced")
            self.jump_value(ra)
        elif op in ("jsr", "bsr", "jbsr"):
            if ops[0] not in self.labels:
                raise Stuck("call to unknown function " + ops[0])
            self.push(RetAddr(self.pc))
            self.jump(ops[0])
        elif op == "nop":
            pass
        else:
            raise Stuck("unsupported m68k instruction")


PROFILES = {
    "m68k": ("ascon-asm-m68k.S", ["__m68k__", "__m68k", "mc68000", "__mc68000__", "__mc68020__", "__ELF__"], False, "KL32BE"),
    "m68kcf": ("ascon-asm-m68k.S", ["__m68k__", "__m68k", "mc68000", "__mc68000__", "__mcoldfire__", "__mcfisaa__", "__ELF__"], True, "KL32BE"),
}


def runs(repo, name):
    fn, defs, cf, layout = PROFILES[name]
    path = os.path.join(repo, "src", "core", fn)
    text = preprocess(path, incs=[os.path.join(repo, "src"), os.path.join(repo, "src", "core")], defs=defs)
    items, tables, directives = parse(text, path)

    def make(k, cut):
        # ascon_permute(state, first_round): both on the stack, promoted to 32 bits, first argument at 4(%sp)
        return M68K(items, tables, "ascon_permute", {}, {"state": {"size": 40, "symbolic": True}}, cut=cut,
                    stack_args=[("ptr", "state", 0), ("int", k)], coldfire=cf)
    verif = os.path.dirname(os.path.dirname(os.path.abspath(__file__)))
    return kern_runs(name, layout, make, lambda lab: lab.startswith(".L"), items, "ascon_permute",
                     os.path.join(verif, "build", "kern"), {"file": "src/core/" + fn, "macros": defs, "isa": "ColdFire ISA_A" if cf else "m68k"})


PROVIDERS = {n: runs for n in PROFILES}
