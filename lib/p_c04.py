"""C04 - PRF, MAC, HMAC and KMAC compute their specified functions; verify is exact."""
import random, time
import common, diffrun, gen, kat, stdflow
from common import hx, rnd_bytes


def spec_kat(res, driver, tier):
    n = 0
    step = 16 if tier == "quick" else 1
    jobs = []
    for f, mk in (("ASCON-Prf.txt", lambda r: "PRFSPEC %s 0 %s 16" % (kat.h(r["Key"]), kat.h(r["Msg"]))),
                  ("ASCON-Prf-long-output.txt", lambda r: "PRFSPEC %s 0 %s %d" % (kat.h(r["Key"]), kat.h(r["Msg"]), len(r["Tag"]) // 2)),
                  ("ASCON-Mac.txt", lambda r: "PRFSPEC %s 16 %s 16" % (kat.h(r["Key"]), kat.h(r["Msg"]))),
                  ("ASCON-PrfShort.txt", lambda r: "PRFSSPEC %s %s %d" % (kat.h(r["Key"]), kat.h(r["Msg"]), len(r["Tag"]) // 2)),
                  ("ASCON-HMAC.txt", lambda r: "HMSPEC hmac %s %s" % (kat.h(r["Key"]), kat.h(r["Msg"]))),
                  ("ASCON-HMACA.txt", lambda r: "HMSPEC hmaca %s %s" % (kat.h(r["Key"]), kat.h(r["Msg"]))),
                  ("ASCON-KMAC.txt", lambda r: "KMSPEC kmac %s %s %s %d %d" % (kat.h(r["Key"]), kat.h(r["Msg"]), kat.h(r.get("Custom", "")), len(r["Tag"]) // 2, len(r["Tag"]) // 2)),
                  ("ASCON-KMACA.txt", lambda r: "KMSPEC kmaca %s %s %s %d %d" % (kat.h(r["Key"]), kat.h(r["Msg"]), kat.h(r.get("Custom", "")), len(r["Tag"]) // 2, len(r["Tag"]) // 2))):
        recs = kat.read_kat(f)
        sel = [r for i, r in enumerate(recs) if i < 24 or i % step == 0]
        lines = [mk(r) for r in sel]
        rc, out, err = common.run_parallel(driver, lines)
        for l, o, r in zip(lines, out, sel):
            n += 1
            if o != kat.h(r["Tag"]):
                res.violation("spec-kat-" + f, "Spec/Mac.v disagrees with KAT file %s: %s -> %s, expected %s" % (f, l[:120], o[:64], r["Tag"][:64].lower()),
                              {"line": l, "spec": o, "kat": r["Tag"].lower()})
    return n


def flip(b, bit):
    b = bytearray(b); b[bit // 8] ^= 0x80 >> (bit % 8); return bytes(b)


def gen_cases(rng, tier, driver, corr, stats):
    maxlen = 2048 if tier == "quick" else 32768
    reps = 1 if tier == "quick" else 5
    for _ in range(reps):
        for mlen in gen.boundary_lengths(32, maxlen):
            k, m = gen.patterned(rng, 16), rnd_bytes(rng, mlen)
            n = rng.choice([0, 1, 15, 16, 17, 32, 33, 100])
            L = rng.choice([0, n, n, 2 ** 29, 7])
            corr.one("PRF %s %d %s %d" % (hx(k), L, hx(m), n)); stats["ops"]["PRF"] += 1; stats["len"].append(mlen)
            corr.one("MAC %s %s" % (hx(k), hx(m))); stats["ops"]["MAC"] += 1
        for inl in range(0, 19):
            for outl in (0, 1, 15, 16, 17, 18):
                corr.one("PRFS %s %s %d" % (hx(gen.patterned(rng, 16)), hx(rnd_bytes(rng, inl)), outl)); stats["ops"]["PRFS"] += 1
        # the PRF object used incrementally: absorb calls that start inside a 32-byte block and cross its boundary, squeezes in pieces;
        # followed by the same message one-shot
        for splits in ([5, 40], [20, 25], [31, 1, 1, 70], [32, 33], [1, 0, 62, 3], [33, 31, 64]):
            k = gen.patterned(rng, 16)
            msg = rnd_bytes(rng, sum(splits))
            L = rng.choice([0, 16, 40])
            n = rng.choice([16, 33]) if L == 0 else L
            ses = ["X 1 prf INITK %s %d" % (hx(k), L)]
            pos = 0
            for c in splits:
                ses.append("X 1 ABS %s" % hx(msg[pos:pos + c])); pos += c
            for o in gen.partition(rng, n, 16) if n else [0]:
                ses.append("X 1 SQZ %d" % o)
            ses.append("X 1 FREE")
            corr.session(ses, "X-prf-chunks"); stats["ops"]["PRF-incremental"] += 1
            corr.one("PRF %s %d %s %d" % (hx(k), L, hx(msg), n)); stats["ops"]["PRF"] += 1
        # PrfShort must refuse every length above 16, also those whose low 32 bits are small
        for big in (17, 255, 2 ** 32, 2 ** 32 + 5, 2 ** 32 + 16, 2 ** 33 + 1, 2 ** 63, 2 ** 64 - 1):
            k = gen.patterned(rng, 16)
            corr.one("PRFSL %s %s %d %d" % (hx(k), hx(rnd_bytes(rng, 5)), big, 16)); stats["ops"]["PRFS-huge-inlen"] += 1
            corr.one("PRFSL %s %s %d %d" % (hx(k), hx(rnd_bytes(rng, 5)), 5, big)); stats["ops"]["PRFS-huge-outlen"] += 1
        corr.one("PRFSL %s %s %d %d" % (hx(gen.patterned(rng, 16)), hx(rnd_bytes(rng, 5)), 5, 16)); stats["ops"]["PRFS-huge-control"] += 1
        for v in ("hmac", "hmaca"):
            for klen in (0, 1, 31, 32, 33, 63, 64, 65, 100, 1000):
                for mlen in (0, 1, 31, 32, 33, 64, 100, rng.choice(gen.boundary_lengths(8, maxlen))):
                    k, m = rnd_bytes(rng, klen), rnd_bytes(rng, mlen)
                    ak = " AK" if rng.random() < 0.3 else ""          # digest written over the key buffer (out == key)
                    if ak:
                        stats["ops"]["HMAC-out-aliases-key"] += 1
                    if rng.random() < 0.5:
                        corr.one("HMO %s %s %s%s" % (v, hx(k), hx(m), ak))
                    else:
                        parts = gen.split_data(m, gen.partition(rng, mlen, 8))
                        if not ak and rng.random() < 0.35:
                            ak = " RE:%d" % rng.randrange(1, 1 << 30); stats["ops"]["HMAC-through-reinit"] += 1
                        corr.one("HM %s %s %s%s" % (v, hx(k), ",".join(hx(p) for p in parts) or "-", ak))
                    stats["ops"]["HMAC"] += 1; stats["len"].append(mlen); stats["keylen"].append(klen)
        for v in ("kmac", "kmaca"):
            for outl in (0, 1, 31, 32, 33, 64, 200):
                for cu in (b"", b"c", b"c" * 7, b"c" * 8, b"c" * 9, b"custom" * 9):
                    klen = rng.choice([0, 1, 16, 32, 40, 100]); mlen = rng.choice([0, 1, 7, 8, 9, 40, 300])
                    k, m = rnd_bytes(rng, klen), rnd_bytes(rng, mlen)
                    if rng.random() < 0.5:
                        corr.one("KMO %s %s %s %s %d" % (v, hx(k), hx(m), hx(cu), outl))
                    else:
                        parts = gen.split_data(m, gen.partition(rng, mlen, 8))
                        L = rng.choice([outl, 0, 32, 2 ** 29])
                        outs = gen.partition(rng, outl, 8) if outl else [0]
                        # a third of them through *_reinit on an object with a prior history (RE:<seed>), as in C07
                        re = " RE:%d" % rng.randrange(1, 1 << 30) if rng.random() < 0.35 else ""
                        if re:
                            stats["ops"]["KMAC-through-reinit"] += 1
                        corr.one("KM %s %s %s %d %s %s%s" % (v, hx(k), hx(cu), L, ",".join(hx(p) for p in parts) if parts else "-", ",".join(map(str, outs)), re))
                    stats["ops"]["KMAC"] += 1; stats["keylen"].append(klen)
    # verification: the right tag, each of the 128 one-bit-wrong tags, random tags
    base = [(gen.patterned(rng, 16), rnd_bytes(rng, L)) for L in (0, 1, 31, 32, 33, 100)]
    rc, tags, err = common.run_parallel(driver, ["MAC %s %s" % (hx(k), hx(m)) for k, m in base])
    for (k, m), t in zip(base, tags):
        t = bytes.fromhex(t)
        corr.one("MACV %s %s %s" % (hx(t), hx(k), hx(m))); stats["ops"]["MACV-ok"] += 1
        for bit in range(128):
            corr.one("MACV %s %s %s" % (hx(flip(t, bit)), hx(k), hx(m))); stats["ops"]["MACV-bit"] += 1
        corr.one("MACV %s %s %s" % (hx(rnd_bytes(rng, 16)), hx(k), hx(m))); stats["ops"]["MACV-rand"] += 1


def run(res, tier, seed, replay=None):
    import collections
    t0 = time.time()
    rng = random.Random(seed)
    pr = stdflow.prove(res, "C04")
    driver = common.build_driver()
    res.cov["kat_vectors_checked_against_spec"] = spec_kat(res, driver, tier)
    stats = {"ops": collections.Counter(), "len": [], "keylen": []}
    corr = diffrun.Corr()
    if replay:
        import json
        corr.session(json.load(open(replay))["replay"]["ops"])
    else:
        gen_cases(rng, tier, driver, corr, stats)
    configs = ["default", "c32"] if tier == "quick" else ["default", "c64", "c32", "directxor", "generic"]
    if not pr["ok"] and "directxor" not in configs:
        configs.append("directxor")
    per = []
    with common.Scratch() as sc:
        b = stdflow.Builds(res, sc)
        for cfg in configs:
            got = b.get(cfg)
            if got:
                per.append(diffrun.compare(res, corr, driver, got[1], got[2]))
                if tier == "thorough" and not replay and got[2] in ("default", "c32"):
                    # lengths of 2^32 bytes and more: size_t parameters must not be processed modulo 2^32 (harness/x_huge.c)
                    res.cov.setdefault("huge_lengths", {})[got[2]] = common.run_huge(res, got[0], got[2], ["prf-hmac"])
    res.cov.update({
        "evaluations": sum(p["sessions"] for p in per),
        "distinct_nontrivial": max([p["nontrivial"] for p in per] or [0]),
        "rule": "PRF/Mac (message boundary lengths for rate 32, outputs {0,1,15,16,17,32,33,100}, declared lengths), PrfShort in/out 0..18 (error range crossed), "
                "HMAC keys {0,1,31,32,33,63,64,65,100,1000} x messages one-shot and chunked, KMAC outputs {0,1,31,32,33,64,200} x customisation strings x split absorb/squeeze, "
                "MAC verify with the right tag and each of the 128 one-bit-wrong tags",
        "samples": corr.lines[:3] + corr.lines[-2:],
        "per_config": per,
        "input_distribution": {"ops": dict(stats["ops"]), "msglen": diffrun.histogram(stats["len"]), "keylen": diffrun.histogram(stats["keylen"])},
    })
    res.assumptions += ["Spec/Mac.v transcribes ASCON-PRF, RFC 2104 and doc/kmac.dox (validated on the KAT files this run)",
                        "Model/Macm.v mirrors the C (differential run); all lengths < 2^31"]
    res.cov["wall_total"] = round(time.time() - t0, 1)
    return "proof"
