"""C10 - masked code computes the unmasked function for every randomness and share count."""
import random, time, collections, json, os, re, glob
import common, diffrun, gen, stdflow
from common import hx, rnd_bytes

M64 = (1 << 64) - 1
TAPES = ["zero", "ones", "alt", "counter", "rep", "prng"]


def tape_words(rng, kind, n):
    if kind == "zero":
        return [0] * n
    if kind == "ones":
        return [M64] * n
    if kind == "alt":
        return [M64 if i & 1 else 0 for i in range(n)]
    if kind == "rep":
        r = rng.getrandbits(64)
        return [r] * n
    if kind == "pairs":      # equal words inside one masked word: share 0 does not move although shares 1.. do
        r = rng.getrandbits(64)
        return [r, r] * (n // 2 + 1)
    if kind == "short":
        return [rng.getrandbits(64) for _ in range(rng.randrange(0, 4))]
    if kind == "sparse":
        return [rng.getrandbits(64) if rng.random() < 0.5 else 0 for _ in range(n)]
    return [rng.getrandbits(64) for _ in range(n)]


def tape_str(ws):
    return ",".join("%016x" % w for w in ws) if ws else "-"


def gen_cases(rng, tier, corr, stats, kshares, maxshares, kind):
    q = tier == "quick"
    # --- masked AEAD, every tape behaviour, sizes around the rates
    for v, (klen, rate) in gen.AEAD_VARIANTS.items():
        lens = [(0, 0), (1, rate - 1), (rate, rate), (rate + 1, 2 * rate + 1), (5, 3 * rate), (33, 64)]
        # final partial blocks of every size (the masked code loads/stores/replaces partial words), a few per run
        lens += [(rng.randrange(0, 2 * rate), rate * rng.randrange(0, 3) + r) for r in rng.sample(range(1, rate), min(4, rate - 1))]
        if not q:
            lens += [(a, p) for a in (0, rate - 1, 2 * rate, 70) for p in (1, rate + 3, 200, 1000)]
        for (alen, plen) in lens:
            for tp in TAPES:
                k, n, ad, pt = rnd_bytes(rng, klen), rnd_bytes(rng, 16), rnd_bytes(rng, alen), rnd_bytes(rng, plen)
                mode = "TRNG MODE %s %016x" % (tp, rng.getrandbits(64) | 1)
                ses = [mode, "AEM %s ENC %s %s %s %s" % (v, hx(k), hx(n), hx(ad), hx(pt))]
                corr.session(ses, "AEM-%s-ENC-%s" % (v, tp)); stats["ops"]["AEM-enc-" + tp] += 1
                # decrypt: random ciphertext (rejected) under the same tape behaviour; valid decryptions are
                # made from the model's own ciphertext below
                ct = rnd_bytes(rng, plen + 16)
                corr.session([mode, "AEM %s DEC %s %s %s %s" % (v, hx(k), hx(n), hx(ad), hx(ct))], "AEM-%s-DECBAD-%s" % (v, tp))
                stats["ops"]["AEM-dec-forged-" + tp] += 1
                stats["valid"].append((v, k, n, ad, pt, mode))
    # --- masked keys: mask / extract / randomize histories
    for bits, klen, nw in ((128, 16, 2), (160, 20, 6)):
        for tp in ["zero", "ones", "alt", "rep", "pairs", "short", "sparse", "prng", "prng", "prng"] * (1 if q else 12):
            rounds = rng.randrange(0, 4)
            ws = tape_words(rng, tp, nw * (kshares - 1) * (rounds + 1) * (2 if kind == "w32" else 1))
            key = rnd_bytes(rng, klen)
            corr.one("MK %d %d %s %s %d %s" % (bits, kshares, kind, hx(key), rounds, tape_str(ws)), "MK-%d-%s" % (bits, tp))
            stats["ops"]["MK-%d-%s" % (bits, tp)] += 1
    # --- masked states: conversions between share counts, randomize, masked permutation from every round
    avail = [n for n in (2, 3, 4) if n <= maxshares]
    for _ in range(80 if q else 1500):
        st = rnd_bytes(rng, 40) if rng.random() < 0.9 else bytes(40)
        prog = []
        for _s in range(rng.randrange(1, 7)):
            c = rng.random()
            if not prog or c < 0.35:
                prog.append(str(rng.choice(avail)))
            elif c < 0.5:
                prog.append("r")
            else:
                prog.append("p%d" % rng.choice([0, 4, 6, 11, 12, rng.randrange(0, 13)]))
        tp = rng.choice(["zero", "ones", "alt", "rep", "sparse", "prng", "prng"])
        ws = tape_words(rng, tp, 64)
        corr.one("MP %s %s %s" % (hx(st), ",".join(prog), tape_str(ws)), "MP-" + tp)
        stats["ops"]["MP-" + tp] += 1
        stats["mp_steps"][len(prog)] += 1
    # --- masked states: mask, then 0..3 re-randomisations with per-share change flags
    for n in avail:
        for tp in ["zero", "ones", "alt", "rep", "pairs", "short", "sparse", "prng", "prng"] * (1 if q else 8):
            rounds = rng.randrange(0, 4)
            ws = tape_words(rng, tp, 5 * (n - 1) * (rounds + 1) * (2 if kind == "w32" else 1))
            corr.one("MR %d %s %s %d %s" % (n, kind, hx(rnd_bytes(rng, 40)), rounds, tape_str(ws)), "MR-%d-%s" % (n, tp))
            stats["ops"]["MR-%d-%s" % (n, tp)] += 1
    for n in avail:          # every first_round for every share count, straight from x1
        for k in range(13):
            corr.one("MP %s %d,p%d %s" % (hx(rnd_bytes(rng, 40)), n, k, tape_str(tape_words(rng, "prng", 8))), "MP-round")
            stats["ops"]["MP-every-round"] += 1


def add_valid_decrypts(driver, corr, stats):
    lines = ["AE %s ENC %s %s %s %s" % (v, hx(k), hx(n), hx(ad), hx(pt)) for (v, k, n, ad, pt, mode) in stats["valid"]]
    rc, out, err = common.run_parallel(driver, lines)
    for (v, k, n, ad, pt, mode), o in zip(stats["valid"], out):
        ct = o.split()[0]
        corr.session([mode, "AEM %s DEC %s %s %s %s" % (v, hx(k), hx(n), hx(ad), "" if ct == "-" else ct)], "AEM-%s-DEC-valid" % v)
        stats["ops"]["AEM-dec-valid"] += 1


def translator_findings(res):
    """the (T) side's own concrete counter-examples for obligations that no longer hold"""
    rep = {}
    tool = {}
    for jf, t in (("mword.json", "kern_mword.py"), ("mword2.json", "kern_mword2.py"),
                  ("mword_max.json", "kern_mword_max.py"), ("masked_max.json", "kern_masked_max.py")):     # MAX_SHARES = 2, 3 and direct-XOR x1 rows
        p = os.path.join(common.BUILD, "kern", jf)
        if os.path.exists(p):
            part = json.load(open(p))
            rep.update(part)
            tool.update({k: t for k in part})
    bad = {k: v for k, v in rep.items() if not v.get("concrete_ok")}
    for k, v in bad.items():
        cex = v.get("counterexample") or {}
        res.violation("obligation-" + k,
                      "translated %s does not meet its masking obligation: %s" % (v.get("title", k), cex.get("error") or
                      ("observation %s is %s, the specification gives %s" % (cex.get("observation_index"), cex.get("got"), cex.get("want")))),
                      {"function": v.get("title", k), "obligation": k, "counterexample": cex,
                       "how": "python3 tools/%s /repo re-translates the function and evaluates both sides on `inputs` (region bytes, then random words)" % tool[k]},
                      no_input="error" in cex and False)
    return rep


def run(res, tier, seed, replay=None):
    t0 = time.time()
    rng = random.Random(seed)
    # group files Props/Properties_C10_<group>.v (32-bit kernels, remaining word operations) are picked up by glob
    groups = sorted(glob.glob(os.path.join(common.COQ, "Props", "Properties_C10_*.v")))
    for g in groups:            # force a re-check: Print Assumptions re-printed, and a stale .vo must not count as checked
        if os.path.exists(g + "o"):
            os.remove(g + "o")
    pr = stdflow.prove(res, "C10", extra_targets=["Props/" + os.path.basename(g) + "o" for g in groups])
    names, discharged, files = list(pr["names"]), res.cov["discharged"], [{"file": "coq/Props/Properties_C10.v", "theorems": list(pr["names"]), "checked": bool(pr["targets"].get(common.props_file("C10")))}]
    for g in groups:
        ns = re.findall(r"^\s*(?:Theorem|Corollary)\s+([A-Za-z0-9_']+)", re.sub(r"\(\*.*?\*\)", "", open(g).read(), flags=re.S), flags=re.M)
        ok = bool(pr["targets"].get("Props/" + os.path.basename(g) + "o"))
        files.append({"file": "coq/Props/" + os.path.basename(g), "theorems": ns, "checked": ok})
        names += ns
        discharged += len(ns) if ok else 0
    res.cov.update({"obligations": len(names), "discharged": discharged, "theorems": names, "theorem_files": files})
    rep = translator_findings(res)
    driver = common.build_driver()
    if tier == "quick":
        # ("default", (3, 2, 3)): the x86-64 assembly with 24-byte masked words (the `#elif ASCON_MASKED_MAX_SHARES >= 3` bodies)
        configs = [("default", None), ("default", (3, 2, 3)), ("c64", (3, 3, 3)), ("c64", (4, 1, 4)), ("c32", (2, 2, 2)), ("c32", (4, 3, 4))]
    else:
        configs = [("default", None), ("default", (2, 1, 2)), ("default", (3, 2, 3)), ("default", (3, 3, 4)), ("default", (4, 4, 4)),
                   ("c64", (2, 2, 2)), ("c64", (3, 3, 3)), ("c64", (4, 1, 4)), ("c64", (3, 2, 4)), ("c64", (4, 4, 4)),
                   ("c32", (2, 2, 2)), ("c32", (3, 3, 3)), ("c32", (4, 3, 4)), ("c32", (4, 4, 4)), ("c32", (4, 2, 4)), ("c32", (3, 1, 3)),
                   # the ASCON_BACKEND_DIRECT_XOR bodies of ascon_xN_copy_from_x1 / copy_to_x1 (DATA_SHARES = 1 makes the AEAD use them)
                   ("directxor", (2, 1, 2)), ("generic", (3, 1, 3))]
    per = []
    dist = collections.Counter()
    samples = []
    with common.Scratch() as sc:
        b = stdflow.Builds(res, sc)
        for cfg, shares in configs:
            force = {"c64": ("-DASCON_FORCE_C64",), "c32": ("-DASCON_FORCE_C32",), "directxor": ("-DASCON_FORCE_DIRECT_XOR",), "generic": ("-DASCON_FORCE_GENERIC",)}
            got = b.get(cfg, shares=shares, harness_defs=force.get(cfg, ()))   # the harness reads the internal masking headers: same backend selection as the library
            if not got:
                continue
            ks, ds, ms = shares or (4, 2, 4)
            stats = {"ops": collections.Counter(), "valid": [], "mp_steps": collections.Counter()}
            corr = diffrun.Corr()
            if replay:
                r = json.load(open(replay))["replay"]
                if r.get("config") and r["config"] != got[2]:
                    continue
                corr.session(r["ops"])
            else:
                gen_cases(random.Random(rng.getrandbits(64)), tier, corr, stats, ks, ms, "w32" if cfg == "c32" else "w64")
                add_valid_decrypts(driver, corr, stats)
            per.append(diffrun.compare(res, corr, driver, got[1], got[2]))
            dist.update(stats["ops"])
            if not samples:
                samples = [corr.lines[1][:200], [l for l in corr.lines if l.startswith("MK")][0][:200], [l for l in corr.lines if l.startswith("MP")][0][:200]] if not replay else corr.lines[:3]
    nobl = len(rep)
    res.cov.update({
        "evaluations": sum(p["sessions"] for p in per),
        "distinct_nontrivial": sum(p["nontrivial"] for p in per),
        "rule": "(T) masked permutation kernels (C64 + C32 + x86-64 asm, x2/x3/x4, every first_round, every container size MAX_SHARES >= shares: 18 kernels), the whole masked-word toolkit (C64 + C32 + x86-64 asm: load, store, "
                "randomize, xor, conversions, zero, load_partial/store_partial/replace for size 0..7, load_32, pad for offset 0..7, separator), masked-key functions "
                "(KEY_SHARES 2,3,4; C64 and C32) and masked-state functions incl. the x1 conversions (also their direct-XOR bodies) re-translated and proved for all shares and all random words, "
                "for masked words of 32 bytes and again for 16 and 24 bytes (MAX_SHARES 2, 3); (D) masked AEAD vs the proved AEAD model under zero/ones/alternating/"
                "counter/repeating/pseudo-random tapes, masked-key histories (mask, extract, 0..3 re-randomisations, per-share change flags) under degenerate and short tapes, "
                "masked-state histories (conversions between 2/3/4 shares, randomize, permute from every round) over backends x share triples",
        "samples": samples,
        "per_config": per,
        "translated_obligations": nobl,
        "input_distribution": {"ops": dict(dist)},
    })
    res.assumptions += ["clang -O1 LLVM IR of the C64 and C32 masked sources and the AT&T lowering table of tools/asm_x86.py stand for the compiled code (the built library is tied by the differential run)",
                        "the value functions (un-rotate by 11j / by 5j per 32-bit half, XOR over shares, bit-interleave the halves) are the reading of src/masking/ascon-masked-word.h; "
                        "size/offset arguments are enumerated over 0..7 (8 is outside the documented range); the masked AEAD mode code is covered by the differential run only",
                        "the random source is the link-time substitute harness/h_trng.cpp (any tape can be scripted); first-order probing security of the masking is out of scope: "
                        "the property is functional equivalence plus 'every share gets its own fresh word'"]
    res.cov["wall_total"] = round(time.time() - t0, 1)
    return "proof"
