"""Shared machinery of the /verif checks: building the Coq development, the
extracted OCaml driver, /repo in a given configuration, the C++ harness;
running an operation file through both sides; evidence; known findings."""
import os, sys, json, time, subprocess, tempfile, shutil, hashlib, fcntl, re, random, fnmatch

VERIF = os.path.dirname(os.path.dirname(os.path.abspath(__file__)))
REPO = os.environ.get("VERIF_REPO", "/repo")
COQ = os.path.join(VERIF, "coq")
BUILD = os.path.join(VERIF, "build")
NPROC = 16


class Infra(Exception):
    """A failure that says nothing about the property (exit 2)."""


def sh(cmd, cwd=None, timeout=3600, env=None, check=False, input=None):
    e = dict(os.environ)
    if env:
        e.update(env)
    p = subprocess.run(cmd, cwd=cwd, shell=isinstance(cmd, str), stdout=subprocess.PIPE,
                       stderr=subprocess.STDOUT, timeout=timeout, env=e, input=input)
    out = p.stdout.decode("utf-8", "replace")
    if check and p.returncode != 0:
        raise Infra("command failed (%d): %s\n%s" % (p.returncode, cmd, out[-4000:]))
    return p.returncode, out


class Lock:
    def __init__(self, name):
        os.makedirs(BUILD, exist_ok=True)
        self.path = os.path.join(BUILD, name + ".lock")

    def __enter__(self):
        self.f = open(self.path, "w")
        fcntl.flock(self.f, fcntl.LOCK_EX)
        return self

    def __exit__(self, *a):
        fcntl.flock(self.f, fcntl.LOCK_UN)
        self.f.close()


# --------------------------------------------------------------------------
# Coq

def coq_files():
    fs = []
    for root, _, names in os.walk(COQ):
        for n in names:
            if n.endswith(".v"):
                fs.append(os.path.relpath(os.path.join(root, n), COQ))
    return sorted(fs)


def coq_lint():
    """The development must contain no axiom-like declaration and no switch
    that weakens the kernel."""
    bad = []
    pat = re.compile(r"\b(Admitted|admit|Axiom|Axioms|Parameter|Parameters|Conjecture|Admit Obligations|"
                     r"Unset Guard Checking|Unset Positivity Checking|Unset Universe Checking|bypass_check|"
                     r"type-in-type|impredicative-set|native_compute)\b")
    for f in coq_files():
        txt = open(os.path.join(COQ, f)).read()
        # strip comments (non-nested is enough for our files)
        txt2 = re.sub(r"\(\*.*?\*\)", "", txt, flags=re.S)
        for i, line in enumerate(txt2.split("\n")):
            if pat.search(line):
                bad.append("%s: %s" % (f, line.strip()))
        # Variable/Hypothesis outside a section
        depth = 0
        for line in txt2.split("\n"):
            s = line.strip()
            if re.match(r"Section\b", s):
                depth += 1
            elif re.match(r"End\b", s) and depth > 0:
                depth -= 1
            elif depth == 0 and re.match(r"(Variable|Variables|Hypothesis|Hypotheses|Context)\b", s):
                bad.append("%s: outside section: %s" % (f, s))
    return bad


def coq_make(targets, timeout=3000):
    """make -k the given .vo targets (paths relative to coq/).  Returns
    (ok: dict target->bool, log)."""
    with Lock("coq"):
        files = coq_files()
        rc, out = sh(["coq_makefile", "-f", "_CoqProject", "-o", "Makefile"] + files, cwd=COQ, check=True)
        rc, log = sh(["timeout", str(timeout), "make", "-k", "-j%d" % NPROC] + targets, cwd=COQ, timeout=timeout + 60)
        ok = {}
        for t in targets:
            vo = os.path.join(COQ, t)
            # up to date with respect to ALL its dependencies (a stale .vo whose dependency failed to build must not count)
            rcq, _ = sh(["make", "-q", t], cwd=COQ, timeout=600)
            ok[t] = os.path.exists(vo) and rcq == 0
        return ok, log


def print_assumptions(log):
    """Extract the Print Assumptions output blocks from a make/coqc log."""
    res = []
    lines = log.split("\n")
    i = 0
    while i < len(lines):
        l = lines[i]
        if l.startswith("Closed under the global context"):
            res.append("Closed under the global context")
        elif l.startswith("Axioms:"):
            blk = [l]
            i += 1
            while i < len(lines) and (lines[i].startswith(" ") or lines[i].strip() == "" or ":" in lines[i]) \
                    and not lines[i].startswith("COQC") and not lines[i].startswith("Closed"):
                if lines[i].strip():
                    blk.append(lines[i])
                i += 1
            res.append("\n".join(blk))
            continue
        i += 1
    return res


def regenerate():
    """Run every translator (tools/gen.d/*) on the current /repo tree."""
    with Lock("coq"):
        rc, out = sh([os.path.join(VERIF, "tools", "gen_all.py")], env={"VERIF_REPO": REPO}, timeout=1800)
    missing = [l[8:] for l in out.split("\n") if l.startswith("MISSING ")]
    if rc != 0 and not missing:
        raise Infra("translator failed:\n" + out[-2000:])
    return {"missing": missing, "summary": [l for l in out.split("\n") if l and not l.startswith("MISSING ")][:400]}


def props_file(pid):
    return "Props/Properties_%s.vo" % pid


def theorem_names(pid, files=None):
    """theorem names of Props/Properties_<pid>.v, or of the given .vo/.v targets under coq/"""
    paths = [os.path.join(COQ, "Props", "Properties_%s.v" % pid)] if files is None else \
            [os.path.join(COQ, f[:-1] if f.endswith(".vo") else f) for f in files]
    names = []
    for p in paths:
        if not os.path.exists(p):
            continue
        txt = re.sub(r"\(\*.*?\*\)", "", open(p).read(), flags=re.S)
        names += re.findall(r"^\s*(?:Theorem|Corollary)\s+([A-Za-z0-9_']+)", txt, flags=re.M)
    return names


def coq_props(pid, extra_targets=()):
    """Compile the property file (and everything it depends on).  Returns a
    dict with obligations/discharged/names/assumptions/log/ok."""
    t0 = time.time()
    tgt = props_file(pid)
    targets = [tgt] + list(extra_targets)
    # force re-check of the property file itself so that Print Assumptions is re-printed
    # force re-check of every property file among the targets so that nothing stale counts and Print Assumptions is re-printed
    props = [t for t in targets if t.startswith("Props/")]
    for t in props:
        vo = os.path.join(COQ, t)
        if os.path.exists(vo):
            os.remove(vo)
    ok, log = coq_make(targets)
    names = theorem_names(pid, props)
    lint = coq_lint()
    pa = print_assumptions(log)
    if all(ok.get(t) for t in props) and len(pa) < len(names):
        lint = lint + ["%d theorem(s) in %s but only %d Print Assumptions output(s): every theorem must be followed by Print Assumptions" %
                       (len(names), " ".join(props), len(pa))]
    res = {
        "ok": all(ok.values()) and not lint,
        "targets": ok,
        "names": names,
        "obligations": len(names),
        "discharged": len(names) if all(ok.get(t) for t in props) else len(theorem_names(pid, [t for t in props if ok.get(t)])),
        "assumptions": pa,
        "lint": lint,
        "log": log,
        "wall_s": time.time() - t0,
    }
    return res


# --------------------------------------------------------------------------
# extracted OCaml driver

def extract_modules():
    d = os.path.join(COQ, "Extract")
    return sorted(f[:-2] for f in os.listdir(d) if f.startswith("X_") and f.endswith(".v"))


def build_driver():
    """Extract the models (every coq/Extract/X_*.v: all its `Definition x_...`
    plus the names on its `(* also: a b c *)` lines) and build the OCaml
    driver from ocaml/drv_*.ml; returns its path."""
    d = os.path.join(BUILD, "ocaml")
    with Lock("ocaml"):
        os.makedirs(d, exist_ok=True)
        mods = extract_modules()
        ok, log = coq_make(["Extract/%s.vo" % m for m in mods])
        if not all(ok.values()):
            raise Infra("Coq models do not compile:\n" + "\n".join(l for l in log.split("\n") if "Error" in l or l.startswith("File"))[-3000:])
        h = hashlib.sha256()
        for f in coq_files():
            if f.startswith(("Model/", "Spec/", "Bits/", "Extract/")):
                h.update(open(os.path.join(COQ, f), "rb").read())
        mls = sorted(f for f in os.listdir(os.path.join(VERIF, "ocaml")) if f.startswith("drv_") and f.endswith(".ml"))
        for f in mls:
            h.update(open(os.path.join(VERIF, "ocaml", f), "rb").read())
        stamp = os.path.join(d, "stamp")
        exe = os.path.join(d, "driver")
        if os.path.exists(exe) and os.path.exists(stamp) and open(stamp).read() == h.hexdigest():
            return exe
        names = []
        for m in mods:
            txt = open(os.path.join(COQ, "Extract", m + ".v")).read()
            names += re.findall(r"^Definition\s+(x_[A-Za-z0-9_']+)", txt, flags=re.M)
            for also in re.findall(r"\(\*\s*also:\s*(.*?)\*\)", txt, flags=re.S):
                names += also.split()
        ev = ("(* generated by lib/common.py:build_driver - extraction with ExtrOcamlBasic only *)\n"
              "Require Extraction.\nRequire Import ExtrOcamlBasic.\n"
              + "".join("From AsconV Require Import Extract.%s.\n" % m for m in mods)
              + "Extraction Language OCaml.\nExtraction \"model.ml\" " + " ".join(names) + ".\n")
        open(os.path.join(d, "Extract.v"), "w").write(ev)
        sh(["coqc", "-Q", COQ, "AsconV", "Extract.v"], cwd=d, check=True, timeout=900)
        for f in mls:
            shutil.copy(os.path.join(VERIF, "ocaml", f), d)
        order = ["drv_core.ml"] + [f for f in mls if f not in ("drv_core.ml", "drv_main.ml")] + ["drv_main.ml"]
        sh(["ocamlfind", "ocamlopt", "-w", "-a", "model.mli", "model.ml"] + order + ["-o", "driver"],
           cwd=d, check=True, timeout=900)
        open(stamp, "w").write(h.hexdigest())
        return exe


# --------------------------------------------------------------------------
# /repo builds

class Scratch:
    """A scratch directory outside /repo and /verif, removed on exit."""

    def __init__(self, prefix="verif-"):
        self.path = tempfile.mkdtemp(prefix=prefix)

    def __enter__(self):
        return self.path

    def __exit__(self, *a):
        shutil.rmtree(self.path, ignore_errors=True)


CONFIGS = {
    "default": [],
    "c64": ["-DBACKEND_C64=ON"],
    "c32": ["-DBACKEND_C32=ON"],
    "directxor": ["-DBACKEND_DIRECT_XOR=ON"],
    "generic": ["-DBACKEND_GENERIC=ON"],
    "checkar": ["-DCHECK_ACQUIRE_RELEASE=ON"],
    # ascon_clean()'s last-resort branch (volatile byte loop): pretend the C library has neither explicit_bzero nor memset_s
    "volclean": ["-DHAVE_EXPLICIT_BZERO=", "-DHAVE_MEMSET_S="],
}
SAN_FLAGS = "-O1 -g -fsanitize=address,undefined -fno-sanitize-recover=all -fno-omit-frame-pointer"


def build_repo(dst, config="default", shares=None, san=False, targets=("ascon_static",), cflags="", guard=True):
    """Configure and build /repo's working tree into dst.  Returns (ok, log)."""
    args = ["cmake", "-G", "Ninja", "-S", REPO, "-B", dst] + CONFIGS[config.split("+")[0]]
    if shares:
        k, d, m = shares
        args += ["-DKEY_SHARES=%d" % k, "-DDATA_SHARES=%d" % d, "-DMAX_SHARES=%d" % m]
    fl = cflags
    if guard:
        fl += " -DASCON_SUITE_VERIF"
    if san:
        fl += " " + SAN_FLAGS
        args += ["-DCMAKE_BUILD_TYPE=Debug"]
    if fl.strip():
        args += ["-DCMAKE_C_FLAGS=" + fl.strip(), "-DCMAKE_CXX_FLAGS=" + fl.strip()]
    rc, out = sh(args, timeout=600)
    if rc != 0:
        return False, out
    rc, out2 = sh(["ninja", "-C", dst, "-j%d" % NPROC] + list(targets), timeout=1800)
    if rc == 0:
        why = config_took_effect(dst, config.split("+")[0], shares)
        if why:
            return False, "the requested configuration did not take effect: " + why + "\n" + (out + out2)[-1500:]
    return rc == 0, out + out2


# what a configuration must look like in the build tree: compiler defines, the object that provides ascon_permute
CONFIG_FACTS = {
    "default": ([], "ascon-asm-x86-64.S.o"), "volclean": ([], "ascon-asm-x86-64.S.o"),
    "c64": (["-DASCON_FORCE_C64"], "ascon-c64.c.o"), "c32": (["-DASCON_FORCE_C32"], "ascon-c32.c.o"),
    "directxor": (["-DASCON_FORCE_DIRECT_XOR"], "ascon-c64.c.o"), "generic": (["-DASCON_FORCE_GENERIC"], "ascon-c64.c.o"),
    "checkar": (["-DASCON_FORCE_GENERIC", "-DASCON_CHECK_ACQUIRE_RELEASE"], "ascon-c64.c.o"),
}


def config_took_effect(dst, config, shares):
    """read the configuration back from the build tree (a mistyped option in CMakeLists.txt would otherwise silently give the
    default build under another name); '' when everything is as requested"""
    defs, obj = CONFIG_FACTS[config]
    try:
        ninja = open(os.path.join(dst, "build.ninja")).read()
    except OSError:
        return "no build.ninja"
    forced = set(re.findall(r"-DASCON_(?:FORCE_[A-Z0-9_]+|CHECK_ACQUIRE_RELEASE)", ninja))
    if forced != set(defs):
        return "compiler defines are %s, expected %s" % (sorted(forced) or "none", defs or "none")
    lib = os.path.join(dst, "src", "libascon_static.a")
    if os.path.exists(lib):
        rc, out = sh(["nm", "-A", lib])
        prov = [l.split(":")[1] for l in out.split("\n") if l.endswith(" T ascon_permute") and l.count(":") >= 2]
        if prov != [obj]:
            return "ascon_permute is provided by %s, expected %s" % (prov, obj)
    want = shares or (4, 2, 4)
    try:
        cfg = open(os.path.join(dst, "config.h")).read()
    except OSError:
        return "no config.h"
    got = tuple(int((re.search(r"#define ASCON_MASKED_%s_SHARES (\d+)" % n, cfg) or [0, "0"])[1]) for n in ("KEY", "DATA", "MAX"))
    if got != tuple(want):
        return "config.h has key/data/max shares %s, expected %s" % (got, tuple(want))
    return ""


HARNESS_SRCS = ["main.cpp", "h_aead.cpp"]


def harness_sources():
    d = os.path.join(VERIF, "harness")
    return sorted(f for f in os.listdir(d) if f.endswith(".cpp") and (f == "main.cpp" or f.startswith("h_")))


def build_harness(bdir, out=None, san=False, extra=(), srcs=None, defs=()):
    out = out or os.path.join(bdir, "verif_harness")
    srcs = srcs or harness_sources()
    cmd = ["g++", "-std=c++11", "-O1", "-g", "-w", "-I" + os.path.join(REPO, "src"), "-I" + os.path.join(REPO, "src", "ascon"),
           "-I" + bdir, "-I" + os.path.join(VERIF, "harness"), "-DHAVE_CONFIG_H", "-DASCON_SUITE_VERIF"]
    cmd += list(defs)
    if san:
        cmd += SAN_FLAGS.split()
    cmd += [os.path.join(VERIF, "harness", s) for s in srcs]
    cmd += list(extra)
    cmd += [os.path.join(bdir, "src", "libascon_static.a"), "-lpthread", "-o", out]
    rc, log = sh(cmd, timeout=900)
    return rc == 0, log, out


def run_lines(exe, lines, env=None, timeout=3600, wrapper=()):
    data = ("\n".join(lines) + "\n").encode()
    e = dict(os.environ)
    if env:
        e.update(env)
    p = subprocess.run(list(wrapper) + [exe], input=data, stdout=subprocess.PIPE, stderr=subprocess.PIPE, timeout=timeout, env=e)
    out = p.stdout.decode("utf-8", "replace").split("\n")
    if out and out[-1] == "":
        out.pop()
    return p.returncode, out, p.stderr.decode("utf-8", "replace")


def run_parallel(exe, lines, sessions=None, env=None, timeout=3600, wrapper=(), jobs=NPROC):
    """Run independent groups of lines in parallel processes.  `sessions` is a
    list of (start, end) index ranges that must stay together and in order;
    default: every line on its own.  Returns (rc_max, outputs aligned with
    lines, stderr)."""
    from concurrent.futures import ThreadPoolExecutor
    if sessions is None:
        sessions = [(i, i + 1) for i in range(len(lines))]
    # pack sessions into `jobs` shards round-robin by size
    shards = [[] for _ in range(jobs)]
    sizes = [0] * jobs
    for s in sorted(sessions, key=lambda r: r[0] - r[1]):
        j = sizes.index(min(sizes))
        shards[j].append(s)
        sizes[j] += s[1] - s[0]
    shards = [sorted(s) for s in shards if s]

    def work(shard):
        idx = [i for (a, b) in shard for i in range(a, b)]
        rc, out, err = run_lines(exe, [lines[i] for i in idx], env=env, timeout=timeout, wrapper=wrapper)
        return idx, rc, out, err

    outs = [None] * len(lines)
    rcmax, errs = 0, []
    with ThreadPoolExecutor(max_workers=jobs) as ex:
        for idx, rc, out, err in ex.map(work, shards):
            rcmax = max(rcmax, abs(rc))
            if err.strip():
                errs.append(err)
            for k, i in enumerate(idx):
                outs[i] = out[k] if k < len(out) else "<no output (crash?)>"
    return rcmax, outs, "\n".join(errs)


# --------------------------------------------------------------------------
# known findings, evidence, reporting

def known_findings():
    p = os.path.join(VERIF, "known-findings.txt")
    known = []
    if os.path.exists(p):
        for line in open(p):
            line = line.strip()
            m = re.match(r"known:\s+property=(\S+)\s+sig=(\S+)\s+(.*)", line)
            if m:
                known.append((m.group(1), m.group(2), m.group(3)))
    return known


class Result:
    """Collects what one check run found; decides exit status; writes evidence."""

    def __init__(self, pid, tier, seed):
        self.pid, self.tier, self.seed = pid, tier, seed
        self.t0 = time.time()
        self.violations = []       # (signature, description, replay dict)
        self.cov = {}
        self.assumptions = []
        self.notes = []

    def violation(self, sig, desc, replay, no_input=False):
        self.violations.append((sig, desc, replay, no_input))

    def finish(self, level="proof"):
        known = [k for k in known_findings() if k[0] == self.pid]
        # runs against a scratch copy of the repository (VERIF_REPO) must not overwrite the real evidence
        evdir = os.path.join(VERIF, "evidence") if REPO == "/repo" else os.path.join(BUILD, "evidence-scratch")
        os.makedirs(os.path.join(VERIF, "replays"), exist_ok=True)
        os.makedirs(evdir, exist_ok=True)
        reported, known_hit = [], {}
        for sig, desc, replay, no_input in self.violations:
            hit = None
            for (_, pat, text) in known:
                if fnmatch.fnmatchcase(sig, pat):
                    hit = (pat, text)
                    break
            if hit:
                known_hit.setdefault(hit, 0)
                known_hit[hit] += 1
            else:
                reported.append((sig, desc, replay, no_input))
        for (pat, text), n in known_hit.items():
            print("KNOWN-FINDING: property=%s %s (sig=%s, %d occurrence(s) this run)" % (self.pid, text, pat, n))
        # a broken proof/translation for which the correspondence found a concrete failing input is reported with that input
        concrete = [(sig, replay) for sig, desc, replay, no_input in reported if not no_input]
        if concrete:
            reported = [(sig, desc + ("\n  concrete failing input: see signature %s" % concrete[0][0] if no_input else ""),
                         (dict(replay, failing_input=concrete[0][1]) if no_input and isinstance(replay, dict) else replay), False)
                        for sig, desc, replay, no_input in reported]
        seen = set()
        nrep = 0
        for sig, desc, replay, no_input in reported:
            if sig in seen:
                continue
            seen.add(sig)
            nrep += 1
            if nrep > 20:
                break
            path = os.path.join(VERIF, "replays", "%s-%s.json" % (self.pid, re.sub(r"[^A-Za-z0-9_.-]", "_", sig)[:80]))
            json.dump({"property": self.pid, "signature": sig, "description": desc, "seed": self.seed, "tier": self.tier,
                       "replay": replay}, open(path, "w"), indent=1)
            print("VIOLATION property=%s replay=%s%s" % (self.pid, path, " no-failing-input-found" if no_input else ""))
            print("  " + desc.replace("\n", "\n  ")[:2000])
        cov = dict(self.cov)
        ev = {
            "property_id": self.pid, "tier": self.tier, "seed": self.seed, "level": level,
            "coverage": cov, "assumptions": self.assumptions, "wall_s": round(time.time() - self.t0, 2),
            "violations": len(seen), "known_findings_hit": [t for (_, t) in known_hit],
            "notes": self.notes,
        }
        # which trees this run looked at
        def _git(d, *a):
            try:
                return subprocess.run(["git", "-C", d] + list(a), stdout=subprocess.PIPE, stderr=subprocess.DEVNULL, timeout=30).stdout.decode().strip()
            except Exception:
                return ""
        cov["source_tree"] = {"repo": REPO, "repo_head": _git(REPO, "rev-parse", "--short", "HEAD"),
                              "repo_worktree_changes": len([l for l in _git(REPO, "status", "--porcelain", "--untracked-files=no").split("\n") if l.strip()]),
                              "verif_head": _git(VERIF, "rev-parse", "--short", "HEAD")}
        json.dump(ev, open(os.path.join(evdir, "%s.json" % self.pid), "w"), indent=1)
        return 1 if seen else 0


TRUSTED_BASE = [
    "Coq 8.16.1 kernel including its vm_compute bytecode VM (native_compute is not used)",
    "no axioms declared; per-theorem Print Assumptions output is in coverage.print_assumptions",
    "extraction with ExtrOcamlBasic only (no Extract Constant / extra Extract Inductive), OCaml 4.13.1; used only to run the model",
    "Spec/*.v as transcriptions of ASCON v1.2, ASCON-PRF, RFC 2104/5869/8018, ISAP v2.0 and the library's documents (validated on the KAT files, not proved)",
    "hand-written Model/*.v: faithful to the C only as far as the differential correspondence run shows",
    "the correspondence harness (harness/*.cpp), ocaml/driver.ml, lib/*.py generators and canonicalisation",
    "gcc/g++ 12, the C library and the kernel of the sandbox (not modelled)",
    "(T) translators tools/*.py: symbolic execution with concrete control in Python (symx/llvmx/asm_* lowering tables; clang 14 -O1 LLVM IR "
    "as the reading of the C kernels, gcc -E for the #if structure of .S files, clang's JSON AST for skeleton/hex/static-storage walks): control flow, "
    "addresses and the pairing of programs with function names are decided there; the data flow of every emitted program, the specification side "
    "(Obl/ByteOps.v, Obl/MWordSpec.v, Obl/CtObl.v, Obl/BoundsReq.v) and the required-coverage lists are checked in Coq",
    "`coqchk -o` was run on Properties_C01, C05, C08 and C14 (Axioms: <none>; these pull in the Sym engine, the kernel obligations and the mode-level proofs); every theorem's Print Assumptions is re-read on every run",
]


def seed_from_env(default=20250925):
    try:
        return int(os.environ.get("VERIF_SEED", default))
    except ValueError:
        return default


def rnd_bytes(rng, n):
    return bytes(rng.getrandbits(8) for _ in range(n))


def hx(b):
    return b.hex() if len(b) else "-"


def driver_supports(driver, op):
    """Does the extracted-model driver know operation family `op`?"""
    rc, out, err = run_lines(driver, ["HAS " + op])
    return bool(out) and out[0] == "YES"


def run_huge(res, bdir, config, tests, sig_prefix="huge", parallel=False):
    """thorough tier: harness/x_huge.c against the library in bdir (lengths of 2^32 bytes and more); returns the result lines"""
    exe = os.path.join(bdir, "x_huge")
    rc, log = sh(["gcc", "-O2", "-I" + os.path.join(REPO, "src"), "-I" + os.path.join(REPO, "src", "ascon"), os.path.join(VERIF, "harness", "x_huge.c"),
                  os.path.join(bdir, "src", "libascon_static.a"), "-o", exe], timeout=300)
    if rc != 0:
        res.violation("harness-build-failed@x_huge", "harness/x_huge.c no longer compiles against /repo:\n" + log[-1200:], {"log_tail": log[-3000:]}, no_input=True)
        return []
    lines = []
    procs = [(t, subprocess.Popen(["timeout", "1500", exe, t], stdout=subprocess.PIPE, stderr=subprocess.PIPE)) for t in tests] if parallel else None
    for i, t in enumerate(tests):
        if parallel:
            o, e = procs[i][1].communicate()
            p = subprocess.CompletedProcess([exe, t], procs[i][1].returncode, o, e)
        else:
            p = subprocess.run(["timeout", "1500", exe, t], stdout=subprocess.PIPE, stderr=subprocess.PIPE)
        out = p.stdout.decode("utf-8", "replace").split("\n")
        for l in out:
            if l.startswith("FAIL "):
                name = l.split()[1]
                res.violation("%s:%s@%s" % (sig_prefix, name, config),
                              "with a length of 2^32 bytes or more (%s build): %s" % (config, l[5:]),
                              {"config": config, "test": t, "line": l, "how": "build /repo (%s), gcc harness/x_huge.c libascon_static.a, run: x_huge %s (needs ~5 GiB of memory)" % (config, t)})
            if l.startswith(("OK ", "FAIL ")):
                lines.append(l)
        if p.returncode not in (0, 1):
            res.violation("%s:%s-crash@%s" % (sig_prefix, t, config), "x_huge %s ended with status %d: %s" % (t, p.returncode, p.stderr.decode("utf-8", "replace")[-300:]),
                          {"config": config, "test": t}, no_input=True)
    return lines
