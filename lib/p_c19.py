"""C19 - the command-line tools asconcrypt and asconsum.

Prove (coq/Props/Properties_C19.v), then tie the model to /repo's working tree:
asconcrypt and asconsum are built from the tree and run in scratch directories
under the LD_PRELOAD shim harness/shim_c19.c (deterministic system random
source, k-th open/read/write/random/fgets call failing or short); the
extracted model coq/Model/Clim.v (ocaml/drv_clim.ml) is run on the same
scenario.  The cryptography that the model leaves abstract is supplied to it
by harness/c19_oracle.c, i.e. by the library built from the same tree (its
correctness is the business of C01-C06, not of C19).

Every scenario is evaluated in the model of the FIXED tree (cfg F; proved to
satisfy C19) and, when a write fault is injected, also in the model of the
tree as shipped (cfg S).  real == F: fine.  real != F but == S: the tree has
the known write-error defect -> VIOLATION with the concrete scenario.
real matches neither: the model no longer describes the code -> VIOLATION."""
import os, re, sys, json, time, random, shutil, subprocess, hashlib
from concurrent.futures import ThreadPoolExecutor
import common, stdflow

H = os.path.join(common.VERIF, "harness")


def hx(b):
    return b.hex() if len(b) else "-"


# --------------------------------------------------------------------------
# scenarios

class Content:
    """File content: raw bytes, or a named blob with one byte xor-ed / truncated."""

    def __init__(self, raw=None, blob=None, flip=None, trunc=None):
        self.raw, self.blob, self.flip, self.trunc = raw, blob, flip, trunc

    def bytes(self, blobs):
        if self.blob is None:
            return self.raw
        b = bytearray(blobs[self.blob])
        if self.flip is not None:
            b[self.flip[0]] ^= self.flip[1]
        if self.trunc is not None:
            b = b[:self.trunc]
        return bytes(b)

    def token(self):
        if self.blob is None:
            return self.raw.hex()
        if self.flip is not None:
            return "@%s^%d:%02x" % (self.blob, self.flip[0], self.flip[1])
        if self.trunc is not None:
            return "@%s<%d" % (self.blob, self.trunc)
        return "@" + self.blob

    def js(self, blobs):
        return self.bytes(blobs).hex()


def C(raw):
    return Content(raw=raw)


class Case:
    def __init__(self, tool, stream, fs, faults=".", rseed=1, **kw):
        self.tool, self.stream, self.fs, self.faults, self.rseed = tool, stream, fs, faults, rseed
        self.__dict__.update(kw)           # crypt: mode pw files ; gen: kf ; sum: alg check files
        self.observe_only = kw.get("observe_only", False)

    def fs_token(self):
        if not self.fs:
            return "."
        return ",".join("%s=%s" % (n.hex(), c.token()) for n, c in self.fs.items())

    def model_faults(self):
        """fault selectors the model knows (EINTR 'e' and close 'c' selectors are outside it)"""
        keep = [f for f in self.faults.split(",") if f != "." and not f.endswith("e") and not f.startswith("c")]
        return ",".join(keep) if keep else "."

    def line(self, cfg, bufsiz):
        if self.tool == "crypt":
            pw = ("P:" if self.pw[0] == "P" else "K:") + hx(self.pw[1])
            files = ",".join("%s:%s" % (i.hex(), o.hex()) for i, o in self.files)
            return "CRYPT %s %d %s %s %s %s %s %d" % (cfg, bufsiz, self.mode, pw, files, self.fs_token(), self.model_faults(), self.rseed)
        if self.tool == "gen":
            return "GEN %s %s %s %s %d" % (cfg, self.kf.hex(), self.fs_token(), self.model_faults(), self.rseed)
        return "SUM %s %d %d %s %s %s %s" % (cfg, bufsiz, self.alg, "C" if self.check else "H",
                                          ",".join(f.hex() for f in self.files), self.fs_token(), self.model_faults())

    def argv(self, exes):
        if self.tool == "crypt":
            a = [exes["asconcrypt"], "-e" if self.mode == "E" else "-d"]
            a += (["-p", self.pw[1]] if self.pw[0] == "P" else ["-k", self.pw[1]])
            if self.explicit_out:
                a += ["-o", self.files[0][1]]
            return a + [i for i, _ in self.files]
        if self.tool == "gen":
            return [exes["asconcrypt"], "-g", self.kf]
        return [exes["asconsum"], "-" + "haxy"[self.alg]] + (["-c"] if self.check else []) + list(self.files)

    def blobs_used(self):
        return sorted(set(c.blob for c in self.fs.values() if c.blob))

    def describe(self, blobs, exes=None):
        d = {"tool": self.tool, "stream": self.stream, "faults": self.faults, "rseed": self.rseed,
             "fs": {n.decode("latin1"): (c.js(blobs) if len(c.bytes(blobs)) <= 64 else
                                        {"len": len(c.bytes(blobs)), "sha256": hashlib.sha256(c.bytes(blobs)).hexdigest(),
                                         "hex": c.js(blobs)}) for n, c in self.fs.items()}}
        for k in ("mode", "alg", "check", "explicit_out"):
            if hasattr(self, k):
                d[k] = getattr(self, k)
        if self.tool == "crypt":
            d["pw"] = [self.pw[0], self.pw[1].hex()]
            d["files"] = [[i.decode("latin1"), o.decode("latin1")] for i, o in self.files]
        elif self.tool == "gen":
            d["kf"] = self.kf.decode("latin1")
        else:
            d["files"] = [f.decode("latin1") for f in self.files]
        return d


def case_from_json(d):
    fs = {}
    for n, c in d["fs"].items():
        h = c if isinstance(c, str) else c["hex"]
        fs[n.encode("latin1")] = C(bytes.fromhex(h))
    kw = {}
    if d["tool"] == "crypt":
        kw = dict(mode=d["mode"], pw=(d["pw"][0], bytes.fromhex(d["pw"][1])), explicit_out=d.get("explicit_out", True),
                  files=[(i.encode("latin1"), o.encode("latin1")) for i, o in d["files"]])
    elif d["tool"] == "gen":
        kw = dict(kf=d["kf"].encode("latin1"))
    else:
        kw = dict(alg=d["alg"], check=d["check"], files=[f.encode("latin1") for f in d["files"]])
    return Case(d["tool"], d["stream"], fs, d["faults"], d["rseed"], **kw)


# --------------------------------------------------------------------------
# the implementation side

ERR_PATTERNS = [
    (re.compile(rb"^FATAL: system random number generator"), "fatal-random"),
    (re.compile(rb": unrecognized encrypted file format$"), "bad-format"),
    (re.compile(rb": password is incorrect$"), "bad-password"),
    (re.compile(rb": encrypted data is truncated$"), "truncated"),
    (re.compile(rb": file is corrupt and failed to decrypt$"), "corrupt"),
    (re.compile(rb": password is too long, maximum is \d+ bytes$"), "pw-too-long"),
    (re.compile(rb": password value contains a NUL$"), "pw-nul"),
    (re.compile(rb": no properly formatted checksum lines found$"), "no-lines"),
    (re.compile(rb"^WARNING: (\d+) lines? (?:is|are) improperly formatted$"), "warn-format"),
    (re.compile(rb"^WARNING: (\d+) computed checksums? did not match$"), "warn-mismatch"),
    (re.compile(rb"^WARNING: (\d+) listed files? could not be read$"), "warn-read"),
]
STRERR = re.compile(rb": (No such file or directory|Permission denied|Input/output error|No space left on device|"
                    rb"Is a directory|Bad file descriptor|Interrupted system call|Success|[A-Z][A-Za-z /-]+)$")


def classify_stderr(err):
    out = []
    for ln in err.split(b"\n"):
        if not ln:
            continue
        for pat, name in ERR_PATTERNS:
            m = pat.search(ln)
            if m:
                out.append(name + (":%d" % int(m.group(1)) if m.groups() else ""))
                break
        else:
            out.append("perror" if STRERR.search(ln) else "other(%s)" % ln[:60].decode("latin1"))
    return ",".join(out) if out else "."


def run_real(case, blobs, exes, shim, workdir, timeout=60):
    """Run the real program on the scenario; returns the canonical answer line
    (same format as the model's) plus details."""
    shutil.rmtree(workdir, ignore_errors=True)
    os.makedirs(workdir)
    fs0 = {}
    for n, c in case.fs.items():
        b = c.bytes(blobs)
        fs0[n] = b
        with open(os.path.join(workdir.encode(), n), "wb") as f:
            f.write(b)
    rep = workdir + ".rep"
    env = dict(os.environ)
    env.update({"LD_PRELOAD": shim, "C19_RSEED": str(case.rseed), "C19_REPORT": rep, "LC_ALL": "C", "LANG": "C"})
    env.pop("C19_FAULTS", None)
    if case.faults != ".":
        env["C19_FAULTS"] = case.faults
    try:
        p = subprocess.run(case.argv(exes), cwd=workdir, env=env, stdin=subprocess.DEVNULL, stdout=subprocess.PIPE,
                           stderr=subprocess.PIPE, timeout=timeout)
        rc, out, err = p.returncode, p.stdout, p.stderr
    except subprocess.TimeoutExpired:
        rc, out, err = -999, b"", b"TIMEOUT"
    final = {}
    for n in os.listdir(workdir.encode()):
        with open(os.path.join(workdir.encode(), n), "rb") as f:
            final[n] = f.read()
    changes = []
    for n, b in final.items():
        if fs0.get(n) != b:
            changes.append("+%s=%s" % (hx(n), hx(b)))
    for n in fs0:
        if n not in final:
            changes.append("-" + hx(n))
    changes.sort()
    cnt = {}
    try:
        for tok in open(rep).read().split():
            k, v = tok.split("=")
            cnt[k] = int(v)
        os.remove(rep)
    except OSError:
        pass
    shutil.rmtree(workdir, ignore_errors=True)
    counts = "%d,%d,%d,%d,%d" % tuple(cnt.get(k, -1) for k in ("open", "read", "write", "rand", "gets"))
    return {"exit": rc, "err": classify_stderr(err), "out": hx(out), "fs": ",".join(changes) if changes else ".",
            "cnt": counts, "stderr_text": err.decode("latin1")[:600]}


def parse_answer(s):
    d = {}
    for tok in s.split():
        if "=" in tok:
            k, v = tok.split("=", 1)
            d[k] = v
    if "exit" not in d:
        return {"exit": None, "err": "?", "out": "?", "fs": "?", "cnt": "?", "flg": "?", "raw": s[:300]}
    d["exit"] = int(d["exit"])
    return d


KEYS = ("exit", "err", "out", "fs", "cnt")


def same(real, model, observe_only=False):
    keys = ("exit", "out", "fs") if observe_only else KEYS
    return all(real[k] == model[k] for k in keys)


# --------------------------------------------------------------------------
# generators

def patterned(rng, n):
    kind = rng.choice(["rand", "rand", "rand", "zero", "ff", "ramp", "text"])
    if kind == "zero":
        return bytes(n)
    if kind == "ff":
        return b"\xff" * n
    if kind == "ramp":
        return bytes(i & 255 for i in range(n))
    if kind == "text":
        return bytes(rng.choice(b"abcdefghij klmnop\n") for _ in range(n))
    return common.rnd_bytes(rng, n)


def password(rng, n):
    return bytes(rng.randrange(1, 256) for _ in range(n))


def sizes(B, tier):
    s = [0, 1, 15, 16, 17] + list(range(B - 17, B + 18)) + [2 * B - 1, 2 * B, 2 * B + 1, 3 * B]
    if tier == "thorough":
        s += list(range(2 * B - 17, 2 * B + 18)) + [3 * B - 16, 3 * B - 1, 3 * B + 1, 3 * B + 16, 5 * B + 3, 8 * B]
    return sorted(set(s))


def pw_variants(rng):
    """(password source, extra files) choices."""
    p8 = password(rng, 8).replace(b"\n", b"x").replace(b"\r", b"y")
    return [
        (("P", password(rng, 1)), {}),
        (("P", p8), {}),
        (("P", password(rng, 1023)), {}),
        (("K", b"key.txt"), {b"key.txt": C(p8 + b"\n")}),
        (("K", b"key.txt"), {b"key.txt": C(p8)}),                         # no end of line
        (("K", b"key.txt"), {b"key.txt": C(p8 + b"\r\nsecond line\n")}),
        (("K", b"key.txt"), {b"key.txt": C(password(rng, 1023).replace(b"\n", b"x").replace(b"\r", b"y") + b"\n")}),
    ]


def crypt(stream, mode, pw, i, o, fs, faults=".", rseed=1, explicit_out=True, observe_only=False, files=None):
    return Case("crypt", stream, fs, faults, rseed, mode=mode, pw=pw, files=files or [(i, o)], explicit_out=explicit_out,
                observe_only=observe_only)


def fault_specs(cls_counts, B, rng, tier):
    """Every k of every class for a run whose fault-free call counts are given
    (open, read, write, rand): FAIL for every k (and one beyond), short
    transfers, ENOSPC = short write followed by a failing write."""
    o, r, w, g = cls_counts
    specs = []
    specs += ["o%d" % k for k in range(o + 1)]
    specs += ["g%d" % k for k in range(g + 1)]
    specs += ["r%df" % k for k in range(r + 1)]
    specs += ["w%df" % k for k in range(w + 1)]
    for k in range(r):
        specs.append("r%ds%d" % (k, rng.choice([0, 1, 15, 16, 17, B // 2])))
    for k in range(w):
        n = rng.choice([0, 1, 15, 16, 17, B // 2])
        specs.append("w%ds%d" % (k, n))
        specs.append("w%ds%d,w%df" % (k, n, k + 1))           # ENOSPC: partial write, then the error
    if tier == "thorough":
        specs += ["r%ds%d" % (k, n) for k in range(r) for n in (0, 7, B - 2)]
        specs += ["w%ds%d" % (k, n) for k in range(w) for n in (0, 7, B - 2)]
        specs += ["r%df,w%df" % (k, j) for k in range(0, r, 2) for j in range(0, w, 3)]
    # short transfers on every call at once
    specs.append(",".join("r%ds%d" % (k, rng.choice([0, 3, 100])) for k in range(min(r * 40, 60))))
    specs.append(",".join("w%ds%d" % (k, rng.choice([0, 3, 100])) for k in range(min(w * 40, 60))))
    return [s for s in specs if s]


# --------------------------------------------------------------------------
# running a batch of cases through both sides

class Runner:
    def __init__(self, res, driver, exes, shim, oracle, bufsiz, scratch):
        self.res, self.driver, self.exes, self.shim, self.oracle, self.B, self.scratch = res, driver, exes, shim, oracle, bufsiz, scratch
        self.blobs = {}
        self.n_eval = 0
        self.distinct = set()
        self.nontrivial = set()
        self.per_stream = {}
        self.samples = []
        self.mismatch = 0
        self.model_s_needed = 0
        self.t_model = self.t_real = 0.0

    def model(self, cases, cfgs):
        """cfgs[i] in ('F',) or ('F','S'); returns list of dict cfg -> answer."""
        lines, sessions, owner = [], [], []
        chunk = max(1, min(400, (len(cases) + 63) // 64))
        for a in range(0, len(cases), chunk):
            part = list(range(a, min(a + chunk, len(cases))))
            start = len(lines)
            names = sorted(set(b for i in part for b in cases[i].blobs_used()))
            for b in names:
                lines.append("C19DEF %s %s" % (b, hx(self.blobs[b])))
                owner.append(None)
            for i in part:
                for cfg in cfgs[i]:
                    lines.append(cases[i].line(cfg, self.B))
                    owner.append((i, cfg))
            sessions.append((start, len(lines)))
        t0 = time.time()
        rc, outs, err = common.run_parallel(self.driver, lines, sessions=sessions, env={"C19_ORACLE": self.oracle}, timeout=7200)
        self.t_model += time.time() - t0
        ans = [dict() for _ in cases]
        for o, own in zip(outs, owner):
            if own:
                ans[own[0]][own[1]] = parse_answer(o)
        return ans, lines

    def real(self, cases):
        t0 = time.time()

        def work(ic):
            i, c = ic
            return run_real(c, self.blobs, self.exes, self.shim, os.path.join(self.scratch, "run", "w%d" % i))
        with ThreadPoolExecutor(max_workers=common.NPROC) as ex:
            out = list(ex.map(work, enumerate(cases)))
        self.t_real += time.time() - t0
        return out

    def batch(self, cases):
        """Runs the cases on both sides, compares, records; returns the real results."""
        if not cases:
            return []
        cfgs = [("F", "S") if (re.search(r"w\d+f|l\d+", c.faults)) else ("F",) for c in cases]
        self.model_s_needed += sum(1 for c in cfgs if len(c) == 2)
        ans, lines = self.model(cases, cfgs)
        real = self.real(cases)
        for c, a, r in zip(cases, ans, real):
            self.n_eval += 1
            key = c.line("F", self.B)
            st = self.per_stream.setdefault(c.stream, {"cases": 0, "agree_fixed_model": 0, "agree_only_shipped_model": 0,
                                                       "mismatch": 0, "exit0": 0, "exit_nonzero": 0})
            st["cases"] += 1
            st["exit0" if r["exit"] == 0 else "exit_nonzero"] += 1
            if key not in self.distinct:
                self.distinct.add(key)
                mf = a["F"]
                cnt = mf.get("cnt", "0,0,0,0,0").split(",")
                if len(cnt) == 5 and cnt[0].isdigit() and int(cnt[1]) + int(cnt[2]) > 0:
                    self.nontrivial.add(key)
            if len(self.samples) < 6 and st["cases"] == 1:
                self.samples.append({"case": c.describe(self.blobs) if sum(len(x.bytes(self.blobs)) for x in c.fs.values()) < 300
                                     else {"tool": c.tool, "stream": c.stream, "argv": [x.decode("latin1")[:40] if isinstance(x, bytes) else os.path.basename(x) for x in c.argv(self.exes)],
                                           "faults": c.faults}, "model": {k: a["F"].get(k) if k != "fs" else a["F"].get(k, "")[:80] for k in KEYS},
                                     "real": {k: (r[k] if k != "fs" else r[k][:80]) for k in KEYS}})
            if same(r, a["F"], c.observe_only):
                st["agree_fixed_model"] += 1
                continue
            repl = {"case": c.describe(self.blobs), "real": {k: r[k] if len(str(r[k])) < 400 else str(r[k])[:400] + "..." for k in r},
                    "model_fixed": {k: (v if len(str(v)) < 400 else str(v)[:400] + "...") for k, v in a["F"].items()},
                    "how": "cd /verif && ./check C19 --replay <this file>   (rebuilds asconcrypt/asconsum from the working tree, runs "
                           "argv under LD_PRELOAD=shim_c19.so with C19_FAULTS/C19_RSEED as recorded, and the model on the same scenario)",
                    "argv": [x.decode("latin1") if isinstance(x, bytes) else os.path.basename(x) for x in c.argv(self.exes)],
                    "env": {"C19_FAULTS": c.faults, "C19_RSEED": c.rseed}}
            if "S" in a and same(r, a["S"], c.observe_only):
                st["agree_only_shipped_model"] += 1
                if same(r, a["F"], True):
                    # same exit status, stdout and files as the fixed model: only the stderr text / call count differs
                    st["shipped_differs_in_stderr_only"] = st.get("shipped_differs_in_stderr_only", 0) + 1
                    continue
                repl["model_shipped"] = {k: (v if len(str(v)) < 400 else str(v)[:400] + "...") for k, v in a["S"].items()}
                if c.tool == "sum":
                    self.res.violation("list-read-error-ignored@asconsum-c",
                                       "asconsum -c: reading the checksum list failed (faults %s, fgets returned NULL with the error flag set) but "
                                       "the loop treats it as end of file: exit status %d, %s; entries after that point are never checked.  The "
                                       "behaviour equals the model of the tree as shipped: Coq theorem C19_sum_list_read_error_refuted."
                                       % (c.faults, r["exit"], "stderr: " + r["err"]), repl)
                    continue
                what = {"crypt": "asconcrypt -%s" % ("e" if getattr(c, "mode", "E") == "E" else "d"), "gen": "asconcrypt -g"}[c.tool]
                kept = "+" in r["fs"]
                self.res.violation("write-error-ignored@%s" % what.replace(" ", ""),
                                   "%s: write(2) failed (faults %s) but the exit status is %d%s; stderr: %s.  C19 requires a non-zero "
                                   "status and no partial output.  The behaviour equals the model of the tree as shipped "
                                   "(safe_file_write returns -1, callers test !safe_file_write(...)): Coq theorem C19_faults_write_refuted."
                                   % (what, c.faults, r["exit"], " and an output file is left behind" if kept else "", r["err"]), repl)
            else:
                st["mismatch"] += 1
                self.mismatch += 1
                diff = [k for k in KEYS if r[k] != a["F"].get(k)]
                self.res.violation("model-mismatch@%s-%s" % (c.tool, c.stream),
                                   "%s (%s), faults %s: the program and the proved model disagree on %s: program exit=%s err=%s cnt=%s fs=%s ; "
                                   "model exit=%s err=%s cnt=%s fs=%s" % (c.tool, c.stream, c.faults, ",".join(diff), r["exit"], r["err"], r["cnt"],
                                                                          r["fs"][:120], a["F"].get("exit"), a["F"].get("err"), a["F"].get("cnt"),
                                                                          str(a["F"].get("fs"))[:120]), repl)
        return real


def out_file(real, name):
    """content of file `name` created/changed in a real run, or None"""
    for tok in real["fs"].split(","):
        if tok.startswith("+" + name.hex() + "="):
            h = tok.split("=", 1)[1]
            return b"" if h == "-" else bytes.fromhex(h)
    return None


def counts_of(real):
    c = [int(x) for x in real["cnt"].split(",")]
    return c[0], c[1], c[2], c[3]


# --------------------------------------------------------------------------

def build_tools(res, sc):
    bdir = os.path.join(sc, "b")
    ok, log = common.build_repo(bdir, "default", targets=("asconcrypt", "asconsum"))
    if not ok:
        res.violation("build-failed@apps", "/repo no longer builds asconcrypt/asconsum:\n" + log[-1500:], {"log_tail": log[-6000:]}, no_input=True)
        return None
    exes = {"asconcrypt": os.path.join(bdir, "apps", "asconcrypt", "asconcrypt"), "asconsum": os.path.join(bdir, "apps", "asconsum", "asconsum")}
    shim = os.path.join(sc, "shim_c19.so")
    common.sh(["gcc", "-shared", "-fPIC", "-O1", "-Wall", "-o", shim, os.path.join(H, "shim_c19.c"), "-ldl"], check=True)
    oracle = os.path.join(sc, "c19_oracle")
    common.sh(["gcc", "-O1", "-w", "-I" + os.path.join(common.REPO, "src"), "-I" + bdir, "-DHAVE_CONFIG_H", os.path.join(H, "c19_oracle.c"),
               os.path.join(bdir, "src", "libascon_static.a"), "-o", oracle], check=True)
    bs = os.path.join(sc, "bufsiz")
    open(bs + ".c", "w").write('#include <stdio.h>\nint main(void){printf("%d\\n",(int)BUFSIZ);return 0;}\n')
    common.sh(["gcc", "-o", bs, bs + ".c"], check=True)
    B = int(common.sh([bs], check=True)[1].strip())
    # the shim only sees calls that go through the PLT: check that the tools still import them
    rc, nm1 = common.sh(["nm", "-D", "--undefined-only", exes["asconcrypt"]])
    rc, nm2 = common.sh(["nm", "-D", "--undefined-only", exes["asconsum"]])
    need1 = [s for s in ("open", "read", "write", "unlink", "getrandom") if not re.search(r"\b%s(64)?@" % s, nm1)]
    need2 = [s for s in ("fopen", "fread", "fgets") if not re.search(r"\b%s(64)?@" % s, nm2)]
    if need1 or need2:
        raise common.Infra("the tools no longer import %s dynamically: the LD_PRELOAD shim cannot inject faults" % (need1 + need2))
    return exes, shim, oracle, B


def run(res, tier, seed, replay=None):
    t0 = time.time()
    rng = random.Random(seed)
    pr = stdflow.prove(res, "C19")
    driver = common.build_driver()
    with common.Scratch() as sc:
        got = build_tools(res, sc)
        if not got:
            return "proof"
        exes, shim, oracle, B = got
        R = Runner(res, driver, exes, shim, oracle, B, sc)
        if replay:
            c = case_from_json(json.load(open(replay))["replay"]["case"])
            R.batch([c])
        else:
            explore(R, rng, tier, B)
        res.cov.update({
            "evaluations": R.n_eval,
            "distinct_nontrivial": len(R.nontrivial),
            "rule": "one evaluation = one execution of the real asconcrypt/asconsum under the shim + the extracted model on the same "
                    "scenario (file system, arguments, fault selectors, random seed); compared: exit status, stderr message classes, "
                    "stdout bytes, every created/changed/removed file byte for byte, number of open/read/write/random/fgets calls. "
                    "distinct = distinct model operation line; non-trivial = the model performs at least one read or write call",
            "samples": R.samples,
            "per_stream": R.per_stream,
            "bufsiz": B,
            "crypto_oracle": "harness/c19_oracle.c linked with libascon_static.a built from the working tree: ascon_pbkdf2, "
                             "ascon80pq_siv_*, ascon80pq_aead_* (incremental), ascon_hash/hasha/xof/xofa (incremental), ascon_random over the "
                             "shim's deterministic source. The Coq crypto models are not used by this check; the encrypted file is "
                             "predicted byte for byte by the Coq I/O model calling this oracle.",
            "model_mismatches": R.mismatch,
            "cases_also_run_in_shipped_model": R.model_s_needed,
            "wall_model_s": round(R.t_model, 1), "wall_real_s": round(R.t_real, 1),
            "input_distribution": {"file_sizes": sizes(B, tier), "passwords": "1, 8, 1023 bytes on the command line; key files with LF, CRLF, no EOL, "
                                   "1023 bytes; bad: 1024 bytes, NUL, missing, empty", "fault_classes": "o<k> r<k>f r<k>s<n> w<k>f w<k>s<n> g<k> l<k> "
                                   "for every k of the fault-free run (+1), ENOSPC = short write then failure, short transfers on all calls"},
        })
    res.assumptions += [
        "the cryptographic primitives behave as crypto_good states (C01-C06 are the checks for that); here they are taken from the library under test",
        "Model/Clim.v mirrors apps/asconcrypt/*.c and apps/asconsum/asconsum.c (checked by the differential run above on every scenario, not proved)",
        "the file system is a map from names to contents; '-' (stdin/stdout), interactive passwords, option parsing, output-name derivation for names "
        "shorter than 6 characters, close(2) results, EINTR retries and the 1 TiB limit are outside the model (EINTR and close failures are observed only)",
        "faults are injected at the PLT boundary (LD_PRELOAD); stdio-internal reads of asconsum are faulted at fread/fgets/fopen level",
        "file sizes < 2^31, BUFSIZ > 16",
    ]
    res.cov["wall_total"] = round(time.time() - t0, 1)
    return "proof"


# --------------------------------------------------------------------------

def explore(R, rng, tier, B):
    pws = pw_variants(rng)
    # ---- A. encrypt every size, then decrypt what the program wrote -------
    enc_cases = []
    for n, sz in enumerate(sizes(B, tier)):
        pw, extra = pws[n % len(pws)]
        fs = {b"plain.bin": C(patterned(rng, sz))}
        fs.update(extra)
        enc_cases.append(crypt("encrypt-sizes", "E", pw, b"plain.bin", b"cipher.enc", fs, rseed=rng.randrange(1, 1 << 30)))
    enc_real = R.batch(enc_cases)
    dec_cases = []
    for c, r in zip(enc_cases, enc_real):
        img = out_file(r, b"cipher.enc")
        if img is None:
            continue
        fs = {b"cipher.enc": C(img)}
        fs.update({k: v for k, v in c.fs.items() if k != b"plain.bin"})
        dec_cases.append((c, crypt("decrypt-sizes", "D", c.pw, b"cipher.enc", b"plain.out", fs)))
    dec_real = R.batch([d for _, d in dec_cases])
    for (c, d), r in zip(dec_cases, dec_real):
        want = c.fs[b"plain.bin"].bytes(R.blobs)
        if r["exit"] != 0 or out_file(r, b"plain.out") != want:
            if not (len(want) == 0 and r["exit"] == 0 and out_file(r, b"plain.out") == b""):
                R.res.violation("roundtrip@asconcrypt", "decrypting what asconcrypt encrypted does not give back the file (size %d): exit %s, stderr %s"
                                % (len(want), r["exit"], r["err"]), {"encrypt": c.describe(R.blobs), "decrypt": d.describe(R.blobs), "real": {k: str(r[k])[:300] for k in r}})
    # ---- B. a bit flip at every byte, truncation at every length -----------
    pwx = ("P", b"correct horse")
    bases = {}
    for name, sz in ((("S", 100), ("L", B + 5)) if tier == "quick" else (("S", 100), ("L", B + 5), ("X", 2 * B + 17))):
        c = crypt("encrypt-base", "E", pwx, b"plain.bin", b"cipher.enc", {b"plain.bin": C(patterned(rng, sz))}, rseed=rng.randrange(1, 1 << 30))
        r = R.batch([c])[0]
        img = out_file(r, b"cipher.enc")
        if img is not None:
            R.blobs[name] = img
            bases[name] = (c, img)
    tam = []
    for name, (c, img) in bases.items():
        for i in range(len(img)):
            bits = [1 << rng.randrange(8)] if (tier == "quick" or name == "X") else sorted(set([1 << rng.randrange(8), 1 << rng.randrange(8), 0x80, 0x01, 0xff]))
            for x in bits:
                tam.append(crypt("flip-every-byte", "D", pwx, b"cipher.enc", b"plain.out", {b"cipher.enc": Content(blob=name, flip=(i, x))}))
        for n in range(len(img)):
            tam.append(crypt("truncate-every-length", "D", pwx, b"cipher.enc", b"plain.out", {b"cipher.enc": Content(blob=name, trunc=n)}))
        for ext in (1, 15, 16, 17, B - 16, B):
            tam.append(crypt("extended", "D", pwx, b"cipher.enc", b"plain.out", {b"cipher.enc": C(img + patterned(rng, ext))}))
        tam.append(crypt("wrong-password", "D", ("P", b"correct horsf"), b"cipher.enc", b"plain.out", {b"cipher.enc": Content(blob=name)}))
        tam.append(crypt("wrong-password", "D", ("P", b""), b"cipher.enc", b"plain.out", {b"cipher.enc": Content(blob=name)}))
        tam.append(crypt("wrong-password", "D", ("K", b"k"), b"cipher.enc", b"plain.out", {b"cipher.enc": Content(blob=name), b"k": C(b"correct horse \n")}))
        tam.append(crypt("right-password-keyfile", "D", ("K", b"k"), b"cipher.enc", b"plain.out", {b"cipher.enc": Content(blob=name), b"k": C(b"correct horse\r\n")}))
    tam_real = R.batch(tam)
    for c, r in zip(tam, tam_real):
        if c.stream in ("flip-every-byte", "truncate-every-length", "extended", "wrong-password"):
            if r["exit"] == 0 or "+" + b"plain.out".hex() in r["fs"]:
                R.res.violation("tamper-accepted@asconcrypt-d", "%s: exit status %s, output %s (C19: must be rejected with non-zero status and no output)"
                                % (c.stream, r["exit"], "left behind" if "+" in r["fs"] else "absent"), {"case": c.describe(R.blobs), "real": {k: str(r[k])[:300] for k in r}})
    # ---- C. every k-th call failing / short, encrypt and decrypt ----------
    fcases = []
    fsz = [100, B + 5] if tier == "quick" else [0, 100, B, B + 5, 2 * B + 1]
    for sz in fsz:
        for (pw, extra) in (pws[1], pws[3]):
            fs = {b"plain.bin": C(patterned(rng, sz))}
            fs.update(extra)
            base = crypt("encrypt-base", "E", pw, b"plain.bin", b"cipher.enc", fs, rseed=rng.randrange(1, 1 << 30))
            r = R.batch([base])[0]
            img = out_file(r, b"cipher.enc")
            for spec in fault_specs(counts_of(r), B, rng, tier):
                fcases.append(crypt("encrypt-faults", "E", pw, b"plain.bin", b"cipher.enc", fs, faults=spec, rseed=base.rseed))
            if img is None:
                continue
            dfs = {b"cipher.enc": C(img)}
            dfs.update(extra)
            dbase = crypt("decrypt-base", "D", pw, b"cipher.enc", b"plain.out", dfs)
            dr = R.batch([dbase])[0]
            for spec in fault_specs(counts_of(dr), B, rng, tier):
                fcases.append(crypt("decrypt-faults", "D", pw, b"cipher.enc", b"plain.out", dfs, faults=spec))
            # EINTR and close failures: outside the model, the result must be that of the fault-free run
            for k in range(0, counts_of(dr)[1]):
                fcases.append(crypt("eintr-observed", "D", pw, b"cipher.enc", b"plain.out", dfs, faults="r%de" % k, observe_only=True))
            for k in range(0, counts_of(r)[2]):
                fcases.append(crypt("eintr-observed", "E", pw, b"plain.bin", b"cipher.enc", fs, faults="w%de" % k, rseed=base.rseed, observe_only=True))
    R.batch(fcases)
    # ---- D. passwords, key files, several files ----------------------------
    misc = []
    small = {b"plain.bin": C(patterned(rng, 40))}
    for pw, extra in pws:
        fs = dict(small); fs.update(extra)
        misc.append(crypt("passwords", "E", pw, b"plain.bin", b"cipher.enc", fs, rseed=rng.randrange(1, 1 << 30)))
    bad_pw = [(("P", password(rng, 1024)), {}), (("P", password(rng, 1500)), {}), (("P", b""), {}),
              (("K", b"nokey"), {}), (("K", b"key.txt"), {b"key.txt": C(b"")}), (("K", b"key.txt"), {b"key.txt": C(b"\n")}),
              (("K", b"key.txt"), {b"key.txt": C(b"ab\0cd\n")}), (("K", b"key.txt"), {b"key.txt": C(b"abcd\n\0")}),
              (("K", b"key.txt"), {b"key.txt": C(b"x" * 1024)}), (("K", b"key.txt"), {b"key.txt": C(b"x" * 1023)}),
              (("K", b"key.txt"), {b"key.txt": C(b"x" * 1023 + b"\n")}), (("K", b"key.txt"), {b"key.txt": C(b"x" * 1024 + b"\n")}),
              (("K", b"key.txt"), {b"key.txt": C(b"x" * 3000)}), (("K", b"key.txt"), {b"key.txt": C(b"x" * 500 + b"\r" + b"y" * 2000)})]
    for pw, extra in bad_pw:
        fs = dict(small); fs.update(extra)
        misc.append(crypt("passwords", "E", pw, b"plain.bin", b"cipher.enc", fs, rseed=rng.randrange(1, 1 << 30)))
        for spec in ("o0", "r0f", "r1f", "r0s3"):
            if pw[0] == "K":
                misc.append(crypt("passwords", "E", pw, b"plain.bin", b"cipher.enc", fs, faults=spec, rseed=7))
    misc.append(crypt("missing-input", "E", ("P", b"pw"), b"absent.bin", b"cipher.enc", {}, rseed=3))
    misc.append(crypt("missing-input", "D", ("P", b"pw"), b"absent.enc", b"plain.out", {b"plain.out": C(b"precious")}))
    misc.append(crypt("existing-output", "D", ("P", b"pw"), b"bad.enc", b"plain.out", {b"plain.out": C(b"precious"), b"bad.enc": C(b"ASCONcrypt\0\1" + bytes(90))}))
    # several inputs, derived output names (names of 6 or more characters only: shorter ones are C12's business)
    multi = {b"first.data": C(patterned(rng, 10)), b"second.data": C(patterned(rng, B + 1)), b"third.data": C(b"")}
    mfiles = [(n, n + b".ascon") for n in sorted(multi)]
    mc = crypt("several-files", "E", ("P", b"pw"), None, None, multi, rseed=11, explicit_out=False, files=mfiles)
    misc.append(mc)
    misc.append(crypt("several-files", "E", ("P", b"pw"), None, None, multi, rseed=11, explicit_out=False, faults="w7f",
                      files=mfiles))
    misc.append(crypt("several-files", "E", ("P", b"pw"), None, None, {k: v for k, v in multi.items() if k != b"second.data"}, rseed=11,
                      explicit_out=False, files=mfiles))
    mreal = R.batch(misc)
    encd = {}
    for tok in mreal[misc.index(mc)]["fs"].split(","):
        if tok.startswith("+"):
            n, h = tok[1:].split("=")
            encd[bytes.fromhex(n)] = C(b"" if h == "-" else bytes.fromhex(h))
    if len(encd) == 3:
        dfiles = [(n, n[:-6]) for n in sorted(encd)]
        more = [crypt("several-files", "D", ("P", b"pw"), None, None, encd, explicit_out=False, files=dfiles),
                crypt("several-files", "D", ("P", b"pw"), None, None, dict(list(encd.items())[:2] + [(b"junk00.ascon", C(b"junk"))]),
                      explicit_out=False, files=sorted(dfiles[:2] + [(b"junk00.ascon", b"junk00")])),
                crypt("several-files", "D", ("P", b"pw"), None, None, {n[:-6] + b".stored": c for n, c in encd.items()}, explicit_out=False,
                      files=[(n[:-6] + b".stored", n[:-6] + b".stored.decrypted") for n in sorted(encd)])]
        R.batch(more)
    # ---- E. asconcrypt -g --------------------------------------------------
    gen = [Case("gen", "generate", {}, ".", rng.randrange(1, 1 << 30), kf=b"new.key"),
           Case("gen", "generate", {b"new.key": C(b"old contents\n")}, ".", 5, kf=b"new.key")]
    for spec in ["o0", "o1", "g0", "g1", "w0f", "w1f", "w2f", "w3f", "w4f", "w0s5", "w0s5,w1f", "w0s38", "w2s0"]:
        gen.append(Case("gen", "generate-faults", {}, spec, 5, kf=b"new.key"))
    greal = R.batch(gen)
    kf = out_file(greal[0], b"new.key")
    if kf is not None:
        R.batch([crypt("generated-key", "E", ("K", b"new.key"), b"plain.bin", b"cipher.enc", {b"plain.bin": C(b"hello"), b"new.key": C(kf)}, rseed=9)])
    # ---- F. asconsum -------------------------------------------------------
    sums = []
    ssz = [0, 1, B - 1, B, B + 1, 2 * B, 3 * B + 7] if tier == "quick" else [0, 1, 7, 8, 9, 31, 32, 33, B - 1, B, B + 1, 2 * B - 1, 2 * B, 2 * B + 1, 3 * B + 7, 6 * B]
    names = [("f%d.dat" % s).encode() for s in ssz]
    sfs = {n: C(patterned(rng, s)) for n, s in zip(names, ssz)}
    sfs[b"with space.txt"] = C(b"spaces in the name\n")
    sfs[b"caf\xc3\xa9.bin"] = C(b"\xff\x00\x80")
    allnames = sorted(sfs)
    for alg in range(4):
        sums.append(Case("sum", "sum-hash", sfs, alg=alg, check=False, files=allnames))
        sums.append(Case("sum", "sum-hash", sfs, alg=alg, check=False, files=[allnames[0], b"missing.dat", allnames[1]]))
    sreal = R.batch(sums)
    chk = []
    for alg in range(4):
        listing = bytes.fromhex(sreal[2 * alg]["out"]) if sreal[2 * alg]["out"] != "-" else b""
        if not listing:
            continue
        lines_ = listing.split(b"\n")[:-1]
        base = dict(sfs)
        def ck(stream, lst, fs=base, faults=".", files=(b"sums.txt",)):
            f = dict(fs); f[b"sums.txt"] = C(lst)
            return Case("sum", stream, f, faults, alg=alg, check=True, files=list(files))
        chk.append(ck("check-ok", listing))
        chk.append(ck("check-ok", listing.replace(b"\n", b"\r\n")))
        chk.append(ck("check-ok", b"\n\n" + listing.upper().replace(b".DAT", b".dat").replace(b"WITH SPACE.TXT", b"with space.txt")
                      .replace(b"CAF\xc3\xa9.BIN", b"caf\xc3\xa9.bin") + b"\n"))
        chk.append(ck("check-ok", listing[:-1]))                                    # last line without newline
        for victim in (allnames[0], allnames[3], allnames[-1]):
            mod = dict(base)
            b = bytearray(mod[victim].bytes(R.blobs));
            if len(b):
                b[rng.randrange(len(b))] ^= 1 << rng.randrange(8)
            else:
                b = bytearray(b"x")
            mod[victim] = C(bytes(b))
            chk.append(ck("check-modified", listing, mod))
            gone = {k: v for k, v in base.items() if k != victim}
            chk.append(ck("check-missing", listing, gone))
        l0 = lines_[0]
        # every hex digit of a listed digest changed in turn: must be reported FAILED
        for pos in (range(64) if (alg == 0 or tier == "thorough") else (0, 31, 62, 63)):
            dg = bytearray(lines_[3])
            dg[pos] = ord("0") if dg[pos] != ord("0") else ord("f")
            chk.append(ck("check-listed-digest-changed", lines_[2] + b"\n" + bytes(dg) + b"\n"))
        bad_lines = [l0[:63] + b" " + l0[64:], l0[:64] + l0[65:].lstrip(b" "), l0[:10] + b"g" + l0[11:], l0[:62] + l0[64:], l0[:64],
                     l0[:64] + b"  ", l0[:64] + b" ", b"  " + l0, l0[:66], b"not a checksum line", b"00" * 33 + b"  " + names[0],
                     l0[:64] + b"\t" + l0[66:], l0[:64] + b"    " + l0[66:], l0[:64] + b" *" + l0[66:], b"\0" + l0, l0[:70] + b"\0" + l0[70:],
                     l0[:64] + b"  " + b"n" * 1500, b"\r\r\n", b" ", l0 + b"\r\r"]
        for bl in bad_lines:
            chk.append(ck("check-malformed", bl + b"\n"))
            chk.append(ck("check-malformed", lines_[1] + b"\n" + bl + b"\n" + lines_[2] + b"\n"))
        chk.append(ck("check-malformed", b""))
        chk.append(ck("check-malformed", b"\n\n\n"))
        chk.append(ck("check-missing", listing, base, files=(b"nolist.txt",)))
        chk.append(ck("check-ok", listing, base, files=(b"sums.txt", b"sums.txt")))
        # faults
        nf = len(lines_)
        for k in list(range(0, nf + 3)):
            chk.append(ck("sum-faults", listing, faults="o%d" % k))
            chk.append(ck("sum-faults", listing, faults="l%d" % k))
        for k in range(0, nf + 6, 1 if tier == "thorough" else 2):
            chk.append(ck("sum-faults", listing, faults="r%df" % k))
            chk.append(ck("sum-faults", listing, faults="r%ds%d" % (k, rng.choice([0, 5, B - 2]))))
        for k in range(0, nf + 6, 3):
            chk.append(Case("sum", "sum-faults", sfs, "r%df" % k, alg=alg, check=False, files=allnames))
            chk.append(Case("sum", "sum-faults", sfs, "o%d" % k, alg=alg, check=False, files=allnames))
            chk.append(Case("sum", "sum-faults", sfs, "r%ds%d" % (k, rng.choice([0, 5, B - 2])), alg=alg, check=False, files=allnames))
    R.batch(chk)
