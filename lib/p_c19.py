"""C19 - the command-line tools asconcrypt and asconsum.

Prove (coq/Props/Properties_C19.v), then tie the model to /repo's working tree:
asconcrypt and asconsum are built from the tree and run in scratch directories
under the LD_PRELOAD shim harness/shim_c19.c (deterministic system random
source, k-th open/read/write/random/fgets call failing or short); the
extracted model coq/Model/Clim.v (ocaml/drv_clim.ml) is run on the same
scenario.  The cryptography that the model leaves abstract is supplied to it
by harness/c19_oracle.c, i.e. by the library built from the same tree (its
correctness is the business of C01-C06, not of C19).

Every scenario is evaluated in the model of the FIXED tree (cfg F; proved to
satisfy C19) and, when a write fault is injected, also in the model of the
tree as shipped (cfg S).  real == F: fine.  real != F but == S: the tree has
the known write-error defect -> VIOLATION with the concrete scenario.
real matches neither: the model no longer describes the code -> VIOLATION.

main() of asconcrypt (tool "args": direction detection, -p with -k, -o with several
inputs, "-", typed passwords, close(2) of an output descriptor) is evaluated in the
model of the tree with the two proposed patches (cfg P: fixes/C19-close-errors.patch,
fixes/C19-typed-password-length.patch; proved to fail loudly) and, where the two
differ, in the model of the tree as it is (cfg A).  real == P: fine.  real == A != P:
the tree ignores a failing close of an output file / silently cuts a typed password
-> VIOLATION with the scenario.  Case families for which the model has no prediction
are judged by a rule written next to them and are listed as such in the evidence."""
import os, re, sys, json, time, random, shutil, subprocess, hashlib, threading
from concurrent.futures import ThreadPoolExecutor
import common, stdflow

H = os.path.join(common.VERIF, "harness")


def hx(b):
    return b.hex() if len(b) else "-"


# --------------------------------------------------------------------------
# scenarios

class Content:
    """File content: raw bytes, or a named blob with one byte xor-ed / truncated."""

    def __init__(self, raw=None, blob=None, flip=None, trunc=None):
        self.raw, self.blob, self.flip, self.trunc = raw, blob, flip, trunc

    def bytes(self, blobs):
        if self.blob is None:
            return self.raw
        b = bytearray(blobs[self.blob])
        if self.flip is not None:
            b[self.flip[0]] ^= self.flip[1]
        if self.trunc is not None:
            b = b[:self.trunc]
        return bytes(b)

    def token(self):
        if self.blob is None:
            return self.raw.hex()
        if self.flip is not None:
            return "@%s^%d:%02x" % (self.blob, self.flip[0], self.flip[1])
        if self.trunc is not None:
            return "@%s<%d" % (self.blob, self.trunc)
        return "@" + self.blob

    def js(self, blobs):
        return self.bytes(blobs).hex()


def C(raw):
    return Content(raw=raw)


class Case:
    def __init__(self, tool, stream, fs, faults=".", rseed=1, **kw):
        self.tool, self.stream, self.fs, self.faults, self.rseed = tool, stream, fs, faults, rseed
        self.dirs = ()                     # names that are directories in the real run (empty files in the model)
        self.model_extra = ""              # fault selectors given to the model only (what a directory does to read/open)
        self.stdin = None                  # bytes fed to standard input (None: /dev/null)
        self.tty = None                    # None: no terminal; list of getpass answers (bytes or None) under C19_TTY/C19_GETPASS
        self.pty = False                   # answers typed into a real pseudo-terminal, the C library's getpass reads them
        self.rule = None                   # no model prediction: name of the rule in RULES that judges the run
        self.raw_argv = None               # rule cases: the argument vector as given
        self.__dict__.update(kw)           # crypt: mode pw files ; gen: kf ; sum: alg check files ; args: mode pw out inputs
        self.observe_only = kw.get("observe_only", False)

    def fs_token(self):
        if not self.fs:
            return "."
        return ",".join("%s=%s" % (n.hex(), c.token()) for n, c in self.fs.items())

    def model_faults(self):
        """fault selectors the model knows (EINTR 'e' and close 'c' selectors are outside its oracle)"""
        keep = [f for f in (self.faults.split(",") + self.model_extra.split(",")) if f and f != "." and not f.endswith("e") and not f.startswith("c")]
        return ",".join(keep) if keep else "."

    def closes(self):
        ks = [f[2:] for f in self.faults.split(",") if f.startswith("cw")]
        return ",".join(ks) if ks else "."

    def long_typed(self):
        return bool(self.tty) and any(a is not None and len(a.split(b"\0")[0]) >= 1024 for a in self.tty)

    def cfgs(self):
        """model variants: the first is the one C19 demands, the second (if any) a known way of falling short"""
        if self.tool == "args" or (self.tool == "gen" and self.closes() != "."):
            return ("P", "A") if (self.closes() != "." or self.long_typed()) else ("P",)
        return ("F", "S") if re.search(r"w\d+f|l\d+", self.faults) else ("F",)

    def uses_stdio(self):
        if self.tool == "args":
            return b"-" in self.inputs or self.out == b"-" or (self.pw[0] in "KB" and self.pw[-1] == b"-")
        if self.tool == "sum":
            return not self.files or b"-" in self.files or self.stdin is not None
        return False

    def keys(self, real):
        """what is compared with the model"""
        if self.observe_only:
            return ("exit", "out", "fs")
        if self.uses_stdio():
            # no open call is made for "-" and reads of descriptor 0 are not counted: no cnt; a failed run that
            # had already written to standard output: the model keeps no record of those bytes
            if self.tool == "args" and real["exit"] != 0:
                return ("exit", "err", "fs")
            return ("exit", "err", "out", "fs")
        return KEYS

    def line(self, cfg, bufsiz):
        if self.tool == "crypt":
            pw = ("P:" if self.pw[0] == "P" else "K:") + hx(self.pw[1])
            files = ",".join("%s:%s" % (i.hex(), o.hex()) for i, o in self.files)
            return "CRYPT %s %d %s %s %s %s %s %d" % (cfg, bufsiz, self.mode, pw, files, self.fs_token(), self.model_faults(), self.rseed)
        if self.tool == "gen":
            if cfg in "PA":
                return "GENC F %s %s %s %s %s %d" % ("1" if cfg == "P" else "0", self.closes(), self.kf.hex(), self.fs_token(), self.model_faults(), self.rseed)
            return "GEN %s %s %s %s %d" % (cfg, self.kf.hex(), self.fs_token(), self.model_faults(), self.rseed)
        if self.tool == "args":
            pw = {"P": lambda: "P:" + hx(self.pw[1]), "K": lambda: "K:" + hx(self.pw[1]),
                  "B": lambda: "B:%s:%s" % (hx(self.pw[1]), hx(self.pw[2])), "T": lambda: "T"}[self.pw[0]]()
            tty = "N" if self.tty is None else "T:" + ",".join("NULL" if a is None else hx(a) for a in self.tty)
            return "ARGS F %d %s %s %s %s %s %s %s %s %s %s %d" % (
                bufsiz, "11" if cfg == "P" else "00", self.closes(), self.mode, pw, "." if self.out is None else "O:" + hx(self.out),
                ",".join(hx(i) for i in self.inputs) if self.inputs else ".", tty, hx(self.stdin or b""), self.fs_token(), self.model_faults(), self.rseed)
        fs = self.fs_token()
        if self.uses_stdio():
            # standard input is the file "-" of the model's file system
            ent = "%s=%s" % (b"-".hex(), hx(self.stdin or b"") if self.stdin else "")
            fs = ent if fs == "." else fs + "," + ent
            return "SUMV %s %d %d %s %s %s %s" % (cfg, bufsiz, self.alg, "C" if self.check else "H",
                                               ",".join(f.hex() for f in self.files) if self.files else ".", fs, self.model_faults())
        return "SUM %s %d %d %s %s %s %s" % (cfg, bufsiz, self.alg, "C" if self.check else "H",
                                          ",".join(f.hex() for f in self.files), fs, self.model_faults())

    def argv(self, exes):
        if self.raw_argv is not None:
            return [exes[self.raw_argv[0]]] + list(self.raw_argv[1:])
        if self.tool == "crypt":
            a = [exes["asconcrypt"], "-e" if self.mode == "E" else "-d"]
            a += (["-p", self.pw[1]] if self.pw[0] == "P" else ["-k", self.pw[1]])
            if self.explicit_out:
                a += ["-o", self.files[0][1]]
            return a + [i for i, _ in self.files]
        if self.tool == "gen":
            return [exes["asconcrypt"], "-g", self.kf]
        if self.tool == "args":
            a = [exes["asconcrypt"]] + {"E": ["-e"], "D": ["-d"], "N": []}[self.mode]
            if self.pw[0] in "PB":
                a += ["-p", self.pw[1]]
            if self.pw[0] in "KB":
                a += ["-k", self.pw[-1]]
            if self.out is not None:
                a += ["-o", self.out]
            return a + list(self.inputs)
        return [exes["asconsum"], "-" + "haxy"[self.alg]] + (["-c"] if self.check else []) + list(self.files)

    def env(self):
        e = {"C19_RSEED": str(self.rseed)}
        if self.faults != ".":
            e["C19_FAULTS"] = self.faults
        if self.tty is not None and not self.pty:
            e["C19_TTY"] = "1"
            e["C19_GETPASS"] = ",".join("NULL" if a is None else hx(a) for a in self.tty)
        return e

    def blobs_used(self):
        return sorted(set(c.blob for c in self.fs.values() if c.blob))

    def describe(self, blobs, exes=None):
        d = {"tool": self.tool, "stream": self.stream, "faults": self.faults, "rseed": self.rseed,
             "fs": {n.decode("latin1"): (c.js(blobs) if len(c.bytes(blobs)) <= 64 else
                                        {"len": len(c.bytes(blobs)), "sha256": hashlib.sha256(c.bytes(blobs)).hexdigest(),
                                         "hex": c.js(blobs)}) for n, c in self.fs.items()}}
        for k in ("mode", "alg", "check", "explicit_out", "model_extra", "pty", "rule", "observe_only"):
            if hasattr(self, k) and getattr(self, k) not in (None, "", False):
                d[k] = getattr(self, k)
        if self.dirs:
            d["dirs"] = [n.decode("latin1") for n in self.dirs]
        if self.stdin is not None:
            d["stdin"] = self.stdin.hex()
        if self.tty is not None:
            d["tty"] = [None if a is None else a.hex() for a in self.tty]
        if self.raw_argv is not None:
            d["raw_argv"] = [x.decode("latin1") if isinstance(x, bytes) else x for x in self.raw_argv]
        if self.tool == "crypt":
            d["pw"] = [self.pw[0], self.pw[1].hex()]
            d["files"] = [[i.decode("latin1"), o.decode("latin1")] for i, o in self.files]
        elif self.tool == "gen":
            d["kf"] = self.kf.decode("latin1")
        elif self.tool == "args":
            d["pw"] = [self.pw[0]] + [x.hex() for x in self.pw[1:]]
            d["out"] = None if self.out is None else self.out.decode("latin1")
            d["inputs"] = [i.decode("latin1") for i in self.inputs]
        else:
            d["files"] = [f.decode("latin1") for f in self.files]
        return d


def case_from_json(d):
    fs = {}
    for n, c in d["fs"].items():
        h = c if isinstance(c, str) else c["hex"]
        fs[n.encode("latin1")] = C(bytes.fromhex(h))
    kw = {}
    if d["tool"] == "crypt":
        kw = dict(mode=d["mode"], pw=(d["pw"][0], bytes.fromhex(d["pw"][1])), explicit_out=d.get("explicit_out", True),
                  files=[(i.encode("latin1"), o.encode("latin1")) for i, o in d["files"]])
    elif d["tool"] == "gen":
        kw = dict(kf=d["kf"].encode("latin1"))
    elif d["tool"] == "args":
        kw = dict(mode=d["mode"], pw=tuple([d["pw"][0]] + [bytes.fromhex(x) for x in d["pw"][1:]]),
                  out=None if d["out"] is None else d["out"].encode("latin1"), inputs=[i.encode("latin1") for i in d["inputs"]])
    else:
        kw = dict(alg=d["alg"], check=d["check"], files=[f.encode("latin1") for f in d["files"]])
    c = Case(d["tool"], d["stream"], fs, d["faults"], d["rseed"], **kw)
    c.dirs = tuple(n.encode("latin1") for n in d.get("dirs", ()))
    c.model_extra = d.get("model_extra", "")
    c.stdin = bytes.fromhex(d["stdin"]) if "stdin" in d else None
    c.tty = [None if a is None else bytes.fromhex(a) for a in d["tty"]] if "tty" in d else None
    c.pty = d.get("pty", False)
    c.rule = d.get("rule")
    c.observe_only = d.get("observe_only", False)
    if "raw_argv" in d:
        c.raw_argv = [d["raw_argv"][0]] + [x.encode("latin1") for x in d["raw_argv"][1:]]
    return c


# --------------------------------------------------------------------------
# the implementation side

ERR_PATTERNS = [
    (re.compile(rb"^FATAL: system random number generator"), "fatal-random"),
    (re.compile(rb": unrecognized encrypted file format$"), "bad-format"),
    (re.compile(rb": password is incorrect$"), "bad-password"),
    (re.compile(rb": encrypted data is truncated$"), "truncated"),
    (re.compile(rb": file is corrupt and failed to decrypt$"), "corrupt"),
    (re.compile(rb"password is too long, maximum is \d+ bytes$"), "pw-too-long"),
    (re.compile(rb"^Usage: "), "usage"),
    (re.compile(rb": cannot specify both -p and -k$"), "both-p-k"),
    (re.compile(rb": only one input file allowed with -o$"), "one-input"),
    (re.compile(rb": cannot determine direction; specify -e or -d$"), "direction"),
    (re.compile(rb": cannot prompt for a password without a terminal$"), "no-terminal"),
    (re.compile(rb": passwords do not match$"), "pw-mismatch"),
    (re.compile(rb": password value contains a NUL$"), "pw-nul"),
    (re.compile(rb": no properly formatted checksum lines found$"), "no-lines"),
    (re.compile(rb"^WARNING: (\d+) lines? (?:is|are) improperly formatted$"), "warn-format"),
    (re.compile(rb"^WARNING: (\d+) computed checksums? did not match$"), "warn-mismatch"),
    (re.compile(rb"^WARNING: (\d+) listed files? could not be read$"), "warn-read"),
]
STRERR = re.compile(rb": (No such file or directory|Permission denied|Input/output error|No space left on device|"
                    rb"Is a directory|Bad file descriptor|Interrupted system call|Success|[A-Z][A-Za-z /-]+)$")


USAGE_REST = re.compile(rb"^(   or: |-[edpkog] |-[haxyc]  )")       # the other lines of the usage text
SAN_RE = re.compile(rb"(ERROR: AddressSanitizer[^\n]*|ERROR: LeakSanitizer[^\n]*|[^\n]*runtime error:[^\n]*|AddressSanitizer:DEADLYSIGNAL)")
ASAN_ENV = {"ASAN_OPTIONS": "detect_leaks=0:abort_on_error=0:verify_asan_link_order=0:detect_stack_use_after_return=0",
            "UBSAN_OPTIONS": "print_stacktrace=1:halt_on_error=1"}


def classify_stderr(err):
    out = []
    for ln in err.split(b"\n"):
        if not ln or USAGE_REST.search(ln):
            continue
        for pat, name in ERR_PATTERNS:
            m = pat.search(ln)
            if m:
                out.append(name + (":%d" % int(m.group(1)) if m.groups() else ""))
                break
        else:
            out.append("perror" if STRERR.search(ln) else "other(%s)" % ln[:60].decode("latin1"))
    return ",".join(out) if out else "."


def run_pty(argv, cwd, env, answers, timeout=60):
    """Run argv with a fresh pseudo-terminal as controlling terminal, standard input and standard output;
    type answers[k] + newline after the k-th password prompt.  -> (exit status, terminal output, stderr)"""
    import pty, termios, fcntl, select
    m, sl = pty.openpty()

    def pre():
        fcntl.ioctl(0, termios.TIOCSCTTY, 0)
    p = subprocess.Popen(argv, cwd=cwd, env=env, stdin=sl, stdout=sl, stderr=subprocess.PIPE, start_new_session=True, preexec_fn=pre)
    os.close(sl)
    seen, sent, deadline = b"", 0, time.time() + timeout
    while True:
        r, _, _ = select.select([m], [], [], 0.1)
        if r:
            try:
                d = os.read(m, 65536)
            except OSError:
                d = b""
            if not d:
                break
            seen += d
            while sent < len(answers) and seen.count(b"assword: ") > sent:
                time.sleep(0.05)            # getpass switches echo off and flushes the input queue before it reads
                os.write(m, answers[sent] + b"\n")
                sent += 1
        elif p.poll() is not None:
            break
        if time.time() > deadline:
            p.kill()
            break
    err = p.stderr.read()
    rc = p.wait()
    os.close(m)
    return rc, seen, err


def run_real(case, blobs, exes, shim, workdir, timeout=60, extra_env=None):
    """Run the real program on the scenario; returns the canonical answer line
    (same format as the model's) plus details."""
    shutil.rmtree(workdir, ignore_errors=True)
    os.makedirs(workdir)
    fs0 = {}
    for n, c in case.fs.items():
        b = c.bytes(blobs)
        if n in case.dirs:
            os.mkdir(os.path.join(workdir.encode(), n))
            continue
        fs0[n] = b
        with open(os.path.join(workdir.encode(), n), "wb") as f:
            f.write(b)
    rep = workdir + ".rep"
    env = dict(os.environ)
    for k in ("C19_FAULTS", "C19_TTY", "C19_GETPASS"):
        env.pop(k, None)
    env.update({"LD_PRELOAD": shim, "C19_REPORT": rep, "LC_ALL": "C", "LANG": "C"})
    env.update(case.env())
    if extra_env:
        env.update(extra_env)
    try:
        if case.pty:
            rc, out, err = run_pty(case.argv(exes), workdir, env, [a for a in case.tty if a is not None], timeout)
            out = b""                      # the prompts; the tools under test write no data to a terminal here
        else:
            p = subprocess.run(case.argv(exes), cwd=workdir, env=env, stdin=subprocess.DEVNULL if case.stdin is None else None,
                               input=case.stdin, stdout=subprocess.PIPE, stderr=subprocess.PIPE, timeout=timeout)
            rc, out, err = p.returncode, p.stdout, p.stderr
    except subprocess.TimeoutExpired:
        rc, out, err = -999, b"", b"TIMEOUT"
    final, dirs_now = {}, set()
    for n in os.listdir(workdir.encode()):
        full = os.path.join(workdir.encode(), n)
        if os.path.isdir(full):
            dirs_now.add(n)
            continue
        with open(full, "rb") as f:
            final[n] = f.read()
    changes = []
    for n, b in final.items():
        if fs0.get(n) != b:
            changes.append("+%s=%s" % (hx(n), hx(b)))
    for n in fs0:
        if n not in final:
            changes.append("-" + hx(n))
    for n in set(case.dirs) ^ dirs_now:
        changes.append(("-" if n in case.dirs else "+") + hx(n) + "/")
    changes.sort()
    cnt = {}
    try:
        for tok in open(rep).read().split():
            k, v = tok.split("=")
            cnt[k] = int(v)
        os.remove(rep)
    except OSError:
        pass
    shutil.rmtree(workdir, ignore_errors=True)
    counts = "%d,%d,%d,%d,%d" % tuple(cnt.get(k, -1) for k in ("open", "read", "write", "rand", "gets"))
    san = SAN_RE.search(err)
    return {"exit": rc, "err": classify_stderr(err) if not san else "sanitizer", "out": hx(out), "fs": ",".join(changes) if changes else ".",
            "cnt": counts, "closes": (cnt.get("closew", -1), cnt.get("closer", -1)), "getpass": cnt.get("getpass", -1),
            "stderr_text": err.decode("latin1")[:600] if not san else err.decode("latin1")[:3000]}


def parse_answer(s):
    d = {}
    for tok in s.split():
        if "=" in tok:
            k, v = tok.split("=", 1)
            d[k] = v
    if "exit" not in d:
        return {"exit": None, "err": "?", "out": "?", "fs": "?", "cnt": "?", "flg": "?", "raw": s[:300]}
    d["exit"] = int(d["exit"])
    return d


KEYS = ("exit", "err", "out", "fs", "cnt")


def same(real, model, keys=KEYS):
    if keys is True:                       # exit status, standard output and files only
        keys = ("exit", "out", "fs")
    return all(real[k] == model.get(k) for k in keys)


# ---- rules for the case families the model does not predict ------------------------------------
# each: (what C19 / the documentation demands of such a run, predicate over the real result)
def _nothing_touched(r):
    return r["exit"] not in (0, -999) and r["exit"] > 0 and r["fs"] == "."


RULES = {
    "usage-error": ("an argument vector that getopt or main() rejects: status 1, no file created, changed or removed", lambda c, r: r["exit"] == 1 and r["fs"] == "."),
    "fails-nothing-touched": ("non-zero status, no file created, changed or removed", lambda c, r: _nothing_touched(r)),
    "fails-no-output": ("non-zero status and no new file", lambda c, r: r["exit"] > 0 and "+" not in r["fs"]),
    "stdin-list-names-stdin": ("asconsum -c reading the list from standard input: an entry named \"-\" is a format error: status 1",
                               lambda c, r: r["exit"] == 1 and "warn-format" in r["err"]),
}


# --------------------------------------------------------------------------
# generators

def patterned(rng, n):
    kind = rng.choice(["rand", "rand", "rand", "zero", "ff", "ramp", "text"])
    if kind == "zero":
        return bytes(n)
    if kind == "ff":
        return b"\xff" * n
    if kind == "ramp":
        return bytes(i & 255 for i in range(n))
    if kind == "text":
        return bytes(rng.choice(b"abcdefghij klmnop\n") for _ in range(n))
    return common.rnd_bytes(rng, n)


def password(rng, n):
    return bytes(rng.randrange(1, 256) for _ in range(n))


def sizes(B, tier):
    s = [0, 1, 15, 16, 17] + list(range(B - 17, B + 18)) + [2 * B - 1, 2 * B, 2 * B + 1, 3 * B]
    s += [2 * (B - 16) - 1, 2 * (B - 16), 2 * (B - 16) + 1, 3 * (B - 16)]        # decrypt_file reads BUFSIZ-16 bytes at a time
    if tier == "thorough":
        s += list(range(2 * B - 17, 2 * B + 18)) + [3 * B - 16, 3 * B - 1, 3 * B + 1, 3 * B + 16, 5 * B + 3, 8 * B]
    return sorted(set(s))


def pw_variants(rng):
    """(password source, extra files) choices."""
    p8 = password(rng, 8).replace(b"\n", b"x").replace(b"\r", b"y")
    return [
        (("P", password(rng, 1)), {}),
        (("P", p8), {}),
        (("P", password(rng, 1023)), {}),
        (("K", b"key.txt"), {b"key.txt": C(p8 + b"\n")}),
        (("K", b"key.txt"), {b"key.txt": C(p8)}),                         # no end of line
        (("K", b"key.txt"), {b"key.txt": C(p8 + b"\r\nsecond line\n")}),
        (("K", b"key.txt"), {b"key.txt": C(password(rng, 1023).replace(b"\n", b"x").replace(b"\r", b"y") + b"\n")}),
    ]


def crypt(stream, mode, pw, i, o, fs, faults=".", rseed=1, explicit_out=True, observe_only=False, files=None):
    return Case("crypt", stream, fs, faults, rseed, mode=mode, pw=pw, files=files or [(i, o)], explicit_out=explicit_out,
                observe_only=observe_only)


def args(stream, mode, pw, inputs, fs, out=None, faults=".", rseed=1, tty=None, stdin=None, pty=False, dirs=(), model_extra=""):
    """asconcrypt through main(): mode E/D/N (neither -e nor -d), pw ("P", bytes) / ("K", name) / ("B", bytes, name) / ("T",)"""
    c = Case("args", stream, fs, faults, rseed, mode=mode, pw=pw, out=out, inputs=list(inputs))
    c.tty, c.stdin, c.pty, c.dirs, c.model_extra = tty, stdin, pty, tuple(dirs), model_extra
    return c


def sumc(stream, alg, check, files, fs, faults=".", stdin=None, dirs=(), model_extra=""):
    c = Case("sum", stream, fs, faults, alg=alg, check=check, files=list(files))
    c.stdin, c.dirs, c.model_extra = stdin, tuple(dirs), model_extra
    return c


def ruled(stream, exe, argv, fs, rule, stdin=None, dirs=()):
    """a run the model does not predict, judged by RULES[rule]"""
    c = Case("crypt" if exe == "asconcrypt" else "sum", stream, fs)
    c.raw_argv, c.rule, c.stdin, c.dirs = [exe] + list(argv), rule, stdin, tuple(dirs)
    return c


def fault_specs(cls_counts, B, rng, tier):
    """Every k of every class for a run whose fault-free call counts are given
    (open, read, write, rand): FAIL for every k (and one beyond), short
    transfers, ENOSPC = short write followed by a failing write."""
    o, r, w, g = cls_counts
    specs = []
    specs += ["o%d" % k for k in range(o + 1)]
    specs += ["g%d" % k for k in range(g + 1)]
    specs += ["r%df" % k for k in range(r + 1)]
    specs += ["w%df" % k for k in range(w + 1)]
    for k in range(r):
        specs.append("r%ds%d" % (k, rng.choice([0, 1, 15, 16, 17, B // 2])))
    for k in range(w):
        n = rng.choice([0, 1, 15, 16, 17, B // 2])
        specs.append("w%ds%d" % (k, n))
        specs.append("w%ds%d,w%df" % (k, n, k + 1))           # ENOSPC: partial write, then the error
    if tier == "thorough":
        specs += ["r%ds%d" % (k, n) for k in range(r) for n in (0, 7, B - 2)]
        specs += ["w%ds%d" % (k, n) for k in range(w) for n in (0, 7, B - 2)]
        specs += ["r%df,w%df" % (k, j) for k in range(0, r, 2) for j in range(0, w, 3)]
    # short transfers on every call at once
    specs.append(",".join("r%ds%d" % (k, rng.choice([0, 3, 100])) for k in range(min(r * 40, 60))))
    specs.append(",".join("w%ds%d" % (k, rng.choice([0, 3, 100])) for k in range(min(w * 40, 60))))
    return [s for s in specs if s]


# --------------------------------------------------------------------------
# running a batch of cases through both sides

class Runner:
    def __init__(self, res, driver, exes, shim, oracle, bufsiz, scratch):
        self.res, self.driver, self.exes, self.shim, self.oracle, self.B, self.scratch = res, driver, exes, shim, oracle, bufsiz, scratch
        self.blobs = {}
        self.n_eval = 0
        self.distinct = set()
        self.nontrivial = set()
        self.per_stream = {}
        self.samples = []
        self.mismatch = 0
        self.model_s_needed = 0
        self.rule_cases = {}
        self.extra = {}
        self.typed_cases = []
        self.t_model = self.t_real = 0.0

    def model(self, cases, cfgs):
        """cfgs[i] in ('F',) or ('F','S'); returns list of dict cfg -> answer."""
        lines, sessions, owner = [], [], []
        chunk = max(1, min(400, (len(cases) + 63) // 64))
        for a in range(0, len(cases), chunk):
            part = list(range(a, min(a + chunk, len(cases))))
            start = len(lines)
            names = sorted(set(b for i in part for b in cases[i].blobs_used()))
            for b in names:
                lines.append("C19DEF %s %s" % (b, hx(self.blobs[b])))
                owner.append(None)
            for i in part:
                for cfg in cfgs[i]:
                    lines.append(cases[i].line(cfg, self.B))
                    owner.append((i, cfg))
            sessions.append((start, len(lines)))
        t0 = time.time()
        rc, outs, err = common.run_parallel(self.driver, lines, sessions=sessions, env={"C19_ORACLE": self.oracle}, timeout=7200)
        self.t_model += time.time() - t0
        ans = [dict() for _ in cases]
        for o, own in zip(outs, owner):
            if own:
                ans[own[0]][own[1]] = parse_answer(o)
        return ans, lines

    def real(self, cases, exes=None, extra_env=None):
        t0 = time.time()
        exes = exes or self.exes

        def work(ic):
            i, c = ic
            return run_real(c, self.blobs, exes, self.shim, os.path.join(self.scratch, "run", "w%d" % i), extra_env=extra_env)
        par = [(i, c) for i, c in enumerate(cases) if not c.pty]
        with ThreadPoolExecutor(max_workers=common.NPROC) as ex:
            got = dict(zip([i for i, _ in par], ex.map(work, par)))
        for i, c in enumerate(cases):              # pseudo-terminal runs fork with a preexec function: one at a time
            if c.pty:
                got[i] = work((i, c))
        self.t_real += time.time() - t0
        return [got[i] for i in range(len(cases))]

    def replay_of(self, c, r, a):
        clip = lambda d: {k: (v if len(str(v)) < 400 else str(v)[:400] + "...") for k, v in d.items()}
        repl = {"case": c.describe(self.blobs), "real": clip(r),
                "how": "cd /verif && ./check C19 --replay <this file>   (rebuilds asconcrypt/asconsum from the working tree, runs "
                       "argv under LD_PRELOAD=shim_c19.so with the recorded environment in a directory holding the files of `case.fs`, "
                       "and the model on the same scenario)",
                "argv": [x.decode("latin1") if isinstance(x, bytes) else os.path.basename(x) for x in c.argv(self.exes)],
                "env": c.env()}
        for cfg, ans in a.items():
            repl["model_" + {"F": "fixed", "S": "shipped", "P": "patched", "A": "as_is"}[cfg]] = clip(ans)
        return repl

    def judge_rule(self, c, r, st):
        what, pred = RULES[c.rule]
        self.rule_cases[c.stream] = self.rule_cases.get(c.stream, 0) + 1
        if r["err"] == "sanitizer" or r["exit"] < 0:
            st["mismatch"] += 1
            self.res.violation("crash@%s-%s" % (c.tool, c.stream), "%s: the program was killed or a sanitizer reported (exit %s): %s"
                               % (c.stream, r["exit"], r["stderr_text"][:600]), self.replay_of(c, r, {}))
        elif pred(c, r):
            st["agree_rule"] = st.get("agree_rule", 0) + 1
        else:
            st["mismatch"] += 1
            self.res.violation("rule-broken@%s-%s" % (c.tool, c.stream),
                               "%s (no model prediction; rule: %s): exit=%s err=%s fs=%s" % (c.stream, what, r["exit"], r["err"], r["fs"][:200]),
                               self.replay_of(c, r, {}))

    def batch(self, cases):
        """Runs the cases on both sides, compares, records; returns the real results."""
        if not cases:
            return []
        mcases = [c for c in cases if not c.rule]
        cfgs = [c.cfgs() for c in mcases]
        self.model_s_needed += sum(1 for c in cfgs if len(c) == 2)
        ans_m, lines = self.model(mcases, cfgs)
        ans = {id(c): a for c, a in zip(mcases, ans_m)}
        real = self.real(cases)
        for c, r in zip(cases, real):
            self.n_eval += 1
            st = self.per_stream.setdefault(c.stream, {"cases": 0, "agree_fixed_model": 0, "agree_only_shipped_model": 0,
                                                       "mismatch": 0, "exit0": 0, "exit_nonzero": 0})
            st["cases"] += 1
            st["exit0" if r["exit"] == 0 else "exit_nonzero"] += 1
            if c.rule:
                self.judge_rule(c, r, st)
                continue
            a = ans[id(c)]
            req = c.cfgs()[0]
            key = c.line(req, self.B)
            mf = a[req]
            if key not in self.distinct:
                self.distinct.add(key)
                cnt = mf.get("cnt", "0,0,0,0,0").split(",")
                if len(cnt) == 5 and cnt[0].isdigit() and int(cnt[1]) + int(cnt[2]) > 0:
                    self.nontrivial.add(key)
            keys = c.keys(r)
            if keys != KEYS:
                st["compared"] = ",".join(keys)
            if len(self.samples) < 14 and st["cases"] == 1:
                self.samples.append({"case": c.describe(self.blobs) if sum(len(x.bytes(self.blobs)) for x in c.fs.values()) < 300
                                     else {"tool": c.tool, "stream": c.stream, "argv": [x.decode("latin1")[:40] if isinstance(x, bytes) else os.path.basename(x) for x in c.argv(self.exes)],
                                           "faults": c.faults}, "model": {k: mf.get(k) if k != "fs" else mf.get(k, "")[:80] for k in KEYS},
                                     "real": {k: (r[k] if k != "fs" else r[k][:80]) for k in KEYS}})
            if r["err"] == "sanitizer" or (r["exit"] < 0):
                st["mismatch"] += 1
                self.res.violation("crash@%s-%s" % (c.tool, c.stream), "%s (%s): the program was killed or a sanitizer reported (exit %s): %s"
                                   % (c.tool, c.stream, r["exit"], r["stderr_text"][:600]), self.replay_of(c, r, a))
                continue
            if same(r, mf, keys):
                st["agree_fixed_model"] += 1
                continue
            repl = self.replay_of(c, r, a)
            alt = c.cfgs()[1] if len(c.cfgs()) > 1 else None
            if alt and same(r, a[alt], keys):
                st["agree_only_shipped_model"] += 1
                if same(r, mf, tuple(k for k in ("exit", "out", "fs") if k in keys)):
                    # same exit status, stdout and files as the fixed model: only the stderr text / call count differs
                    st["shipped_differs_in_stderr_only"] = st.get("shipped_differs_in_stderr_only", 0) + 1
                    continue
                if alt == "A":
                    self.as_is_violation(c, r, repl)
                    continue
                if c.tool == "sum":
                    self.res.violation("list-read-error-ignored@asconsum-c",
                                       "asconsum -c: reading the checksum list failed (faults %s, fgets returned NULL with the error flag set) but "
                                       "the loop treats it as end of file: exit status %d, %s; entries after that point are never checked.  The "
                                       "behaviour equals the model of the tree as shipped: Coq theorem C19_sum_list_read_error_refuted."
                                       % (c.faults, r["exit"], "stderr: " + r["err"]), repl)
                    continue
                what = {"crypt": "asconcrypt -%s" % ("e" if getattr(c, "mode", "E") == "E" else "d"), "gen": "asconcrypt -g"}[c.tool]
                kept = "+" in r["fs"]
                self.res.violation("write-error-ignored@%s" % what.replace(" ", ""),
                                   "%s: write(2) failed (faults %s) but the exit status is %d%s; stderr: %s.  C19 requires a non-zero "
                                   "status and no partial output.  The behaviour equals the model of the tree as shipped "
                                   "(safe_file_write returns -1, callers test !safe_file_write(...)): Coq theorem C19_faults_write_refuted."
                                   % (what, c.faults, r["exit"], " and an output file is left behind" if kept else "", r["err"]), repl)
            else:
                st["mismatch"] += 1
                self.mismatch += 1
                diff = [k for k in keys if r[k] != mf.get(k)]
                self.res.violation("model-mismatch@%s-%s" % (c.tool, c.stream),
                                   "%s (%s), faults %s: the program and the proved model disagree on %s: program exit=%s err=%s cnt=%s fs=%s ; "
                                   "model exit=%s err=%s cnt=%s fs=%s" % (c.tool, c.stream, c.faults, ",".join(diff), r["exit"], r["err"], r["cnt"],
                                                                          r["fs"][:120], mf.get("exit"), mf.get("err"), mf.get("cnt"),
                                                                          str(mf.get("fs"))[:120]), repl)
        return real

    def as_is_violation(self, c, r, repl):
        """the run equals the model of the tree as it is and differs from the model that fails loudly"""
        argv = " ".join(repl["argv"][:1] + [x if len(x) < 30 else x[:12] + "...(%d)" % len(x) for x in repl["argv"][1:]])
        if c.closes() != ".":
            what = "asconcrypt -g" if c.tool == "gen" else "asconcrypt -%s" % {"E": "e", "D": "d", "N": "(direction from the names)"}[c.mode]
            kept = [bytes.fromhex(t[1:].split("=")[0]).decode("latin1") for t in r["fs"].split(",") if t.startswith("+")]
            self.res.violation("close-error-ignored@%s" % ("asconcrypt-g" if c.tool == "gen" else "asconcrypt-" + {"E": "e", "D": "d", "N": "e"}[c.mode]),
                               "%s: close(2) of the OUTPUT file reported an error (selector %s: EIO after the descriptor was really closed - "
                               "what NFS, a quota or a full disk report when the data written before could not be stored) but the exit status is %d, "
                               "nothing is printed and the output file%s is kept: %s.  C19: \"exits non-zero without leaving a partial output file "
                               "if ... any read or write fails\" / \"fail loudly on I/O errors\"; close(2) is where a deferred write failure is "
                               "delivered.  apps/asconcrypt/fileops.c safe_file_close() discards the result of close().  The run equals the model "
                               "of the tree as it is (Coq: C19_close_ignored, C19_close_ignored_refuted); with fixes/C19-close-errors.patch the "
                               "model (C19_close_faults, C19_close_fail_clean) gives status 1, a message and no output."
                               % (what, c.faults, r["exit"], "s" if len(kept) > 1 else "", ", ".join(kept)[:200]), repl)
        else:
            n = max(len(a.split(b"\0")[0]) for a in c.tty if a is not None)
            self.res.violation("typed-password-truncated@asconcrypt",
                               "%s with a typed password of %d bytes (getpass -> apps/asconcrypt/readpass.c read_password): exit status %d; the "
                               "password is silently cut to 1023 bytes, so every password with the same first 1023 bytes opens the file - C19: "
                               "\"it rejects a wrong password ... with a non-zero exit status\" over all passwords; -p and -k refuse 1024 bytes "
                               "(\"password is too long\").  %s.  Coq: C19_tty_truncation, C19_tty_wrong_password_refuted; with "
                               "fixes/C19-typed-password-length.patch: C19_tty_long_rejected."
                               % (argv, n, r["exit"], "Stream " + c.stream), repl)


def out_file(real, name):
    """content of file `name` created/changed in a real run, or None"""
    for tok in real["fs"].split(","):
        if tok.startswith("+" + name.hex() + "="):
            h = tok.split("=", 1)[1]
            return b"" if h == "-" else bytes.fromhex(h)
    return None


def counts_of(real):
    c = [int(x) for x in real["cnt"].split(",")]
    return c[0], c[1], c[2], c[3]


# --------------------------------------------------------------------------

def build_tools(res, sc):
    bdir = os.path.join(sc, "b")
    ok, log = common.build_repo(bdir, "default", targets=("asconcrypt", "asconsum"))
    if not ok:
        res.violation("build-failed@apps", "/repo no longer builds asconcrypt/asconsum:\n" + log[-1500:], {"log_tail": log[-6000:]}, no_input=True)
        return None
    exes = {"asconcrypt": os.path.join(bdir, "apps", "asconcrypt", "asconcrypt"), "asconsum": os.path.join(bdir, "apps", "asconsum", "asconsum")}
    shim = os.path.join(sc, "shim_c19.so")
    common.sh(["gcc", "-shared", "-fPIC", "-O1", "-Wall", "-o", shim, os.path.join(H, "shim_c19.c"), "-ldl"], check=True)
    oracle = os.path.join(sc, "c19_oracle")
    common.sh(["gcc", "-O1", "-w", "-I" + os.path.join(common.REPO, "src"), "-I" + bdir, "-DHAVE_CONFIG_H", os.path.join(H, "c19_oracle.c"),
               os.path.join(bdir, "src", "libascon_static.a"), "-o", oracle], check=True)
    bs = os.path.join(sc, "bufsiz")
    open(bs + ".c", "w").write('#include <stdio.h>\nint main(void){printf("%d\\n",(int)BUFSIZ);return 0;}\n')
    common.sh(["gcc", "-o", bs, bs + ".c"], check=True)
    B = int(common.sh([bs], check=True)[1].strip())
    # the shim only sees calls that go through the PLT: check that the tools still import them
    rc, nm1 = common.sh(["nm", "-D", "--undefined-only", exes["asconcrypt"]])
    rc, nm2 = common.sh(["nm", "-D", "--undefined-only", exes["asconsum"]])
    need1 = [s for s in ("open", "read", "write", "unlink", "getrandom") if not re.search(r"\b%s(64)?@" % s, nm1)]
    need2 = [s for s in ("fopen", "fread", "fgets") if not re.search(r"\b%s(64)?@" % s, nm2)]
    if need1 or need2:
        raise common.Infra("the tools no longer import %s dynamically: the LD_PRELOAD shim cannot inject faults" % (need1 + need2))
    return exes, shim, oracle, B


def build_san(sc, box):
    """asconcrypt with -fsanitize=address,undefined (for the typed-password runs); in the background"""
    bdir = os.path.join(sc, "bsan")
    try:
        ok, log = common.build_repo(bdir, "default", san=True, targets=("asconcrypt",))
        box["exe"] = os.path.join(bdir, "apps", "asconcrypt", "asconcrypt") if ok else None
        box["log"] = log[-1500:]
    except Exception as e:                                          # reported as a note, never as a violation
        box["exe"], box["log"] = None, str(e)[:500]


def sanitized_typed(R, box, thr):
    """the typed-password cases (readpass.c: getpass result of 0 ... 5000 bytes handed out in a heap block of exactly
    strlen+1 bytes) once more on the sanitized build: no report, and the same result as the plain build"""
    thr.join()
    if not box.get("exe"):
        R.res.notes.append("sanitized asconcrypt not built, typed-password runs not repeated under ASan: " + box.get("log", "")[-300:])
        return {"runs": 0}
    cases = R.typed_cases
    plain = R.real(cases)
    san = R.real(cases, exes={"asconcrypt": box["exe"], "asconsum": R.exes["asconsum"]}, extra_env=ASAN_ENV)
    bad = 0
    for c, p_, s_ in zip(cases, plain, san):
        if s_["err"] == "sanitizer" or s_["exit"] < 0:
            bad += 1
            R.res.violation("sanitizer@readpass", "typed password (%s bytes): the sanitized asconcrypt reports (this is the memory-safety clause "
                            "of C12 for readpass.c, met while running C19's typed-password cases): %s"
                            % ([None if a is None else len(a) for a in c.tty], s_["stderr_text"][:800]), R.replay_of(c, s_, {}))
        elif not same(s_, p_, ("exit", "err", "out", "fs")):
            bad += 1
            R.res.violation("sanitized-differs@readpass", "typed password: the sanitized build and the plain build disagree: %s vs %s"
                            % ({k: str(s_[k])[:80] for k in KEYS}, {k: str(p_[k])[:80] for k in KEYS}), R.replay_of(c, s_, {}))
    return {"runs": len(cases), "reports_or_differences": bad, "getpass_lengths": sorted(set(len(a) for c in cases for a in c.tty if a is not None))}


def run(res, tier, seed, replay=None):
    t0 = time.time()
    rng = random.Random(seed)
    pr = stdflow.prove(res, "C19")
    driver = common.build_driver()
    with common.Scratch() as sc:
        box = {}
        thr = threading.Thread(target=build_san, args=(sc, box))
        if not replay:
            thr.start()
        got = build_tools(res, sc)
        if not got:
            if not replay:
                thr.join()
            return "proof"
        exes, shim, oracle, B = got
        R = Runner(res, driver, exes, shim, oracle, B, sc)
        san_stats = None
        if replay:
            c = case_from_json(json.load(open(replay))["replay"]["case"])
            R.batch([c])
        else:
            explore(R, rng, tier, B)
            san_stats = sanitized_typed(R, box, thr)
        ruled_streams = sorted(R.rule_cases)
        res.cov.update({
            "evaluations": R.n_eval,
            "distinct_nontrivial": len(R.nontrivial),
            "rule": "one evaluation = one execution of the real asconcrypt/asconsum under the shim + the extracted model on the same "
                    "scenario (file system, arguments, standard input, typed passwords, fault selectors, random seed); compared: exit status, "
                    "stderr message classes, stdout bytes, every created/changed/removed file byte for byte, number of "
                    "open/read/write/random/fgets calls (per_stream[...].compared names the streams where fewer items are compared: "
                    "runs through standard input/output make no open call for \"-\" and their reads of descriptor 0 are not counted). "
                    "distinct = distinct model operation line; non-trivial = the model performs at least one read or write call. "
                    "Streams in observed_by_rule_only have no model prediction and are judged by the rule quoted there",
            "samples": R.samples,
            "per_stream": R.per_stream,
            "observed_by_rule_only": {st: {"cases": R.rule_cases[st]} for st in ruled_streams},
            "rules": {k: v[0] for k, v in RULES.items()},
            "bufsiz": B,
            "crypto_oracle": "harness/c19_oracle.c linked with libascon_static.a built from the working tree: ascon_pbkdf2, "
                             "ascon80pq_siv_*, ascon80pq_aead_* (incremental), ascon_hash/hasha/xof/xofa (incremental), ascon_random over the "
                             "shim's deterministic source. The Coq crypto models are not used by this check; the encrypted file is "
                             "predicted byte for byte by the Coq I/O model calling this oracle.",
            "model_mismatches": R.mismatch,
            "cases_also_run_in_shipped_model": R.model_s_needed,
            "typed_passwords_under_asan": san_stats,
            "wall_model_s": round(R.t_model, 1), "wall_real_s": round(R.t_real, 1),
            "input_distribution": {
                "file_sizes": sizes(B, tier),
                "passwords": "1, 8, 1023 bytes on the command line; key files with LF, CRLF, no EOL, 1023 bytes; bad: 1024 bytes, NUL, missing, empty",
                "fault_classes": "o<k> r<k>f r<k>s<n> w<k>f w<k>s<n> g<k> l<k> for every k of the fault-free run (+1), ENOSPC = short write then "
                                 "failure, short transfers on all calls",
                "close-output-fails": "cw<k>: the k-th close(2) of a descriptor opened for writing returns -1/EIO after really closing, for every "
                                      "such close of the fault-free encrypt and decrypt runs (+1), of a three-file run (also two at once, and with a "
                                      "write fault), of -g; predicted by the model with and without fixes/C19-close-errors.patch",
                "close-input-fails": "cr<k>: the same for read-only descriptors / streams (key file, input, asconsum's files and lists): must equal "
                                     "the fault-free run (model: no fault)",
                "asconsum-faults": "every fopen, fgets and fread of the fault-free hash-mode and check-mode runs fails once (+1 beyond), every fread "
                                   "is short with the error flag once; the counts are read from the fault-free run (asconsum_fault_free_counts)",
                "detect-direction": "no -e/-d: names with / without the .ascon suffix (also .ASCON, .asco, .ascon.bak, 1-5 character names, "
                                    "x.ascon.ascon), several of one kind, one of each in both orders, -o, -e on an .ascon name, wrong password, "
                                    "missing file, existing output",
                "p-with-k / o-with-several-inputs / no-input / no-terminal": "each with -e, -d and neither; the order in which main() reports them",
                "existing-longer-output": "the output path already holds a longer file (decrypting over it, re-encrypting over an older image): only the new bytes may remain",
                "duplicate-names": "the same input twice / three times (second encryption replaces the first), output = input, the same "
                                   "encrypted file twice; asconsum: a name given twice, a list naming a file twice",
                "stdio": "\"-\" as input, as -o, as -k for asconcrypt (empty, 40 bytes, BUFSIZ+5 bytes, /dev/null; modified and truncated "
                         "streams); asconsum without FILE arguments, with \"-\", \"-\" between files, a list on standard input, a list entry named \"-\"",
                "directory": "a directory as input, as -o, as key file, between files (asconcrypt); as a file, as a list, as a listed file "
                             "(asconsum); the model sees an empty file whose first read / whose open fails",
                "typed-password": "getpass answers of 0, 1, 8, 1023, 1024, 5000 bytes (shim: C19_TTY, C19_GETPASS), twice to encrypt, once to "
                                  "decrypt, cross-checked with -p; confirmation differs / is a prefix / NULL / missing; wrong passwords, also wrong "
                                  "only beyond byte 1023; all of them repeated on an ASan+UBSan build",
                "typed-password-pty": "0, 1, 12, 1023, 1024 printable bytes typed into a pseudo-terminal that is the controlling terminal, "
                                      "standard input and output of the process; the C library's getpass",
                "check-several-lists": "two lists, a missing list and a malformed list between them, a listed file missing",
                "rejected-options (rule)": "unknown option, missing option argument, -g with inputs, no arguments",
            },
        })
        res.cov.update(R.extra)
    res.assumptions += [
        "the cryptographic primitives behave as crypto_good states (C01-C06 are the checks for that); here they are taken from the library under test",
        "Model/Clim.v mirrors apps/asconcrypt/*.c and apps/asconsum/asconsum.c (checked by the differential run above on every scenario, not proved)",
        "the file system is a map from names to contents; standard input and output are files with reserved names; getopt itself, \"-\" given "
        "more than once, the 1 TiB limit and EINTR retries are outside the model (EINTR is observed only); a directory is modelled as an empty "
        "file whose first read (or whose open for writing) fails",
        "close(2): a failing close of an OUTPUT descriptor is taken to be a failed write in the sense of C19 (that is where NFS, quotas and "
        "full disks deliver it); a failing close of a read descriptor must not change the run",
        "typed passwords: getpass is replaced by the shim (any bytes, any length) and, for printable passwords up to 1024 bytes, exercised "
        "through a real pseudo-terminal; the terminal line discipline limits what a person can type to 4095 bytes",
        "runs judged by rule only (no model prediction): argument vectors rejected by getopt, an empty derived output name, a list on standard "
        "input naming standard input; the bytes a failing decryption had already written to standard output are observed, not predicted",
        "faults are injected at the PLT boundary (LD_PRELOAD); stdio-internal reads of asconsum are faulted at fread/fgets/fopen level",
        "file sizes < 2^31, BUFSIZ > 16",
    ]
    res.cov["wall_total"] = round(time.time() - t0, 1)
    return "proof"


# --------------------------------------------------------------------------

def explore(R, rng, tier, B):
    pws = pw_variants(rng)
    # ---- A. encrypt every size, then decrypt what the program wrote -------
    enc_cases = []
    for n, sz in enumerate(sizes(B, tier)):
        pw, extra = pws[n % len(pws)]
        fs = {b"plain.bin": C(patterned(rng, sz))}
        fs.update(extra)
        enc_cases.append(crypt("encrypt-sizes", "E", pw, b"plain.bin", b"cipher.enc", fs, rseed=rng.randrange(1, 1 << 30)))
    enc_real = R.batch(enc_cases)
    dec_cases = []
    for c, r in zip(enc_cases, enc_real):
        img = out_file(r, b"cipher.enc")
        if img is None:
            continue
        fs = {b"cipher.enc": C(img)}
        fs.update({k: v for k, v in c.fs.items() if k != b"plain.bin"})
        dec_cases.append((c, crypt("decrypt-sizes", "D", c.pw, b"cipher.enc", b"plain.out", fs)))
    dec_real = R.batch([d for _, d in dec_cases])
    for (c, d), r in zip(dec_cases, dec_real):
        want = c.fs[b"plain.bin"].bytes(R.blobs)
        if r["exit"] != 0 or out_file(r, b"plain.out") != want:
            if not (len(want) == 0 and r["exit"] == 0 and out_file(r, b"plain.out") == b""):
                R.res.violation("roundtrip@asconcrypt", "decrypting what asconcrypt encrypted does not give back the file (size %d): exit %s, stderr %s"
                                % (len(want), r["exit"], r["err"]), {"encrypt": c.describe(R.blobs), "decrypt": d.describe(R.blobs), "real": {k: str(r[k])[:300] for k in r}})
    # ---- B. a bit flip at every byte, truncation at every length -----------
    pwx = ("P", b"correct horse")
    bases = {}
    for name, sz in ((("S", 100), ("L", B + 5)) if tier == "quick" else (("S", 100), ("L", B + 5), ("X", 2 * B + 17))):
        c = crypt("encrypt-base", "E", pwx, b"plain.bin", b"cipher.enc", {b"plain.bin": C(patterned(rng, sz))}, rseed=rng.randrange(1, 1 << 30))
        r = R.batch([c])[0]
        img = out_file(r, b"cipher.enc")
        if img is not None:
            R.blobs[name] = img
            bases[name] = (c, img)
    tam = []
    for name, (c, img) in bases.items():
        for i in range(len(img)):
            bits = [1 << rng.randrange(8)] if (tier == "quick" or name == "X") else sorted(set([1 << rng.randrange(8), 1 << rng.randrange(8), 0x80, 0x01, 0xff]))
            for x in bits:
                tam.append(crypt("flip-every-byte", "D", pwx, b"cipher.enc", b"plain.out", {b"cipher.enc": Content(blob=name, flip=(i, x))}))
        for n in range(len(img)):
            tam.append(crypt("truncate-every-length", "D", pwx, b"cipher.enc", b"plain.out", {b"cipher.enc": Content(blob=name, trunc=n)}))
        for ext in (1, 15, 16, 17, B - 16, B):
            tam.append(crypt("extended", "D", pwx, b"cipher.enc", b"plain.out", {b"cipher.enc": C(img + patterned(rng, ext))}))
        tam.append(crypt("wrong-password", "D", ("P", b"correct horsf"), b"cipher.enc", b"plain.out", {b"cipher.enc": Content(blob=name)}))
        tam.append(crypt("wrong-password", "D", ("P", b""), b"cipher.enc", b"plain.out", {b"cipher.enc": Content(blob=name)}))
        tam.append(crypt("wrong-password", "D", ("K", b"k"), b"cipher.enc", b"plain.out", {b"cipher.enc": Content(blob=name), b"k": C(b"correct horse \n")}))
        tam.append(crypt("right-password-keyfile", "D", ("K", b"k"), b"cipher.enc", b"plain.out", {b"cipher.enc": Content(blob=name), b"k": C(b"correct horse\r\n")}))
    tam_real = R.batch(tam)
    for c, r in zip(tam, tam_real):
        if c.stream in ("flip-every-byte", "truncate-every-length", "extended", "wrong-password"):
            if r["exit"] == 0 or "+" + b"plain.out".hex() in r["fs"]:
                R.res.violation("tamper-accepted@asconcrypt-d", "%s: exit status %s, output %s (C19: must be rejected with non-zero status and no output)"
                                % (c.stream, r["exit"], "left behind" if "+" in r["fs"] else "absent"), {"case": c.describe(R.blobs), "real": {k: str(r[k])[:300] for k in r}})
    # ---- C. every k-th call failing / short, encrypt and decrypt ----------
    fcases = []
    fsz = [100, B + 5] if tier == "quick" else [0, 100, B, B + 5, 2 * B + 1]
    for sz in fsz:
        for (pw, extra) in (pws[1], pws[3]):
            fs = {b"plain.bin": C(patterned(rng, sz))}
            fs.update(extra)
            base = crypt("encrypt-base", "E", pw, b"plain.bin", b"cipher.enc", fs, rseed=rng.randrange(1, 1 << 30))
            r = R.batch([base])[0]
            img = out_file(r, b"cipher.enc")
            for spec in fault_specs(counts_of(r), B, rng, tier):
                fcases.append(crypt("encrypt-faults", "E", pw, b"plain.bin", b"cipher.enc", fs, faults=spec, rseed=base.rseed))
            if img is None:
                continue
            dfs = {b"cipher.enc": C(img)}
            dfs.update(extra)
            dbase = crypt("decrypt-base", "D", pw, b"cipher.enc", b"plain.out", dfs)
            dr = R.batch([dbase])[0]
            for spec in fault_specs(counts_of(dr), B, rng, tier):
                fcases.append(crypt("decrypt-faults", "D", pw, b"cipher.enc", b"plain.out", dfs, faults=spec))
            # EINTR and close failures: outside the model, the result must be that of the fault-free run
            for k in range(0, counts_of(dr)[1]):
                fcases.append(crypt("eintr-observed", "D", pw, b"cipher.enc", b"plain.out", dfs, faults="r%de" % k, observe_only=True))
            for k in range(0, counts_of(r)[2]):
                fcases.append(crypt("eintr-observed", "E", pw, b"plain.bin", b"cipher.enc", fs, faults="w%de" % k, rseed=base.rseed, observe_only=True))
            # close(2) reporting an error, every close of the two runs (and one beyond): of the output descriptor
            # (cw<k>: the patched model fails the run, the model of the tree as it is does not), of a read descriptor
            # (cr<k>: key file, input - nothing can be lost, the run must be the fault-free one)
            for (mode_, inp_, out_, fs_, rr, seed_) in (("E", b"plain.bin", b"cipher.enc", fs, r, base.rseed), ("D", b"cipher.enc", b"plain.out", dfs, dr, 1)):
                for k in range(rr["closes"][0] + 1):
                    fcases.append(args("close-output-fails", mode_, pw, [inp_], fs_, out=out_, faults="cw%d" % k, rseed=seed_))
                for k in range(rr["closes"][1] + 1):
                    fcases.append(args("close-input-fails", mode_, pw, [inp_], fs_, out=out_, faults="cr%d" % k, rseed=seed_))
    R.batch(fcases)
    # ---- D. passwords, key files, several files ----------------------------
    misc = []
    small = {b"plain.bin": C(patterned(rng, 40))}
    for pw, extra in pws:
        fs = dict(small); fs.update(extra)
        misc.append(crypt("passwords", "E", pw, b"plain.bin", b"cipher.enc", fs, rseed=rng.randrange(1, 1 << 30)))
    bad_pw = [(("P", password(rng, 1024)), {}), (("P", password(rng, 1500)), {}), (("P", b""), {}),
              (("K", b"nokey"), {}), (("K", b"key.txt"), {b"key.txt": C(b"")}), (("K", b"key.txt"), {b"key.txt": C(b"\n")}),
              (("K", b"key.txt"), {b"key.txt": C(b"ab\0cd\n")}), (("K", b"key.txt"), {b"key.txt": C(b"abcd\n\0")}),
              (("K", b"key.txt"), {b"key.txt": C(b"x" * 1024)}), (("K", b"key.txt"), {b"key.txt": C(b"x" * 1023)}),
              (("K", b"key.txt"), {b"key.txt": C(b"x" * 1023 + b"\n")}), (("K", b"key.txt"), {b"key.txt": C(b"x" * 1024 + b"\n")}),
              (("K", b"key.txt"), {b"key.txt": C(b"x" * 3000)}), (("K", b"key.txt"), {b"key.txt": C(b"x" * 500 + b"\r" + b"y" * 2000)})]
    for pw, extra in bad_pw:
        fs = dict(small); fs.update(extra)
        misc.append(crypt("passwords", "E", pw, b"plain.bin", b"cipher.enc", fs, rseed=rng.randrange(1, 1 << 30)))
        for spec in ("o0", "r0f", "r1f", "r0s3"):
            if pw[0] == "K":
                misc.append(crypt("passwords", "E", pw, b"plain.bin", b"cipher.enc", fs, faults=spec, rseed=7))
    misc.append(crypt("missing-input", "E", ("P", b"pw"), b"absent.bin", b"cipher.enc", {}, rseed=3))
    misc.append(crypt("missing-input", "D", ("P", b"pw"), b"absent.enc", b"plain.out", {b"plain.out": C(b"precious")}))
    misc.append(crypt("existing-output", "D", ("P", b"pw"), b"bad.enc", b"plain.out", {b"plain.out": C(b"precious"), b"bad.enc": C(b"ASCONcrypt\0\1" + bytes(90))}))
    # several inputs, derived output names (names of 6 or more characters only: shorter ones are C12's business)
    multi = {b"first.data": C(patterned(rng, 10)), b"second.data": C(patterned(rng, B + 1)), b"third.data": C(b"")}
    mfiles = [(n, n + b".ascon") for n in sorted(multi)]
    mc = crypt("several-files", "E", ("P", b"pw"), None, None, multi, rseed=11, explicit_out=False, files=mfiles)
    misc.append(mc)
    misc.append(crypt("several-files", "E", ("P", b"pw"), None, None, multi, rseed=11, explicit_out=False, faults="w7f",
                      files=mfiles))
    misc.append(crypt("several-files", "E", ("P", b"pw"), None, None, {k: v for k, v in multi.items() if k != b"second.data"}, rseed=11,
                      explicit_out=False, files=mfiles))
    for spec in ("cw0", "cw1", "cw2", "cw3", "cw0,cw2", "cr0", "cr2", "cw1,w7f"):
        misc.append(args("close-output-fails" if "cw" in spec else "close-input-fails", "E", ("P", b"pw"), sorted(multi), multi, faults=spec, rseed=11))
    mreal = R.batch(misc)
    encd = {}
    for tok in mreal[misc.index(mc)]["fs"].split(","):
        if tok.startswith("+"):
            n, h = tok[1:].split("=")
            encd[bytes.fromhex(n)] = C(b"" if h == "-" else bytes.fromhex(h))
    if len(encd) == 3:
        dfiles = [(n, n[:-6]) for n in sorted(encd)]
        more = [crypt("several-files", "D", ("P", b"pw"), None, None, encd, explicit_out=False, files=dfiles),
                crypt("several-files", "D", ("P", b"pw"), None, None, dict(list(encd.items())[:2] + [(b"junk00.ascon", C(b"junk"))]),
                      explicit_out=False, files=sorted(dfiles[:2] + [(b"junk00.ascon", b"junk00")])),
                crypt("several-files", "D", ("P", b"pw"), None, None, {n[:-6] + b".stored": c for n, c in encd.items()}, explicit_out=False,
                      files=[(n[:-6] + b".stored", n[:-6] + b".stored.decrypted") for n in sorted(encd)])]
        R.batch(more)
    # ---- E. asconcrypt -g --------------------------------------------------
    gen = [Case("gen", "generate", {}, ".", rng.randrange(1, 1 << 30), kf=b"new.key"),
           Case("gen", "generate", {b"new.key": C(b"old contents\n")}, ".", 5, kf=b"new.key")]
    for spec in ["o0", "o1", "g0", "g1", "w0f", "w1f", "w2f", "w3f", "w4f", "w0s5", "w0s5,w1f", "w0s38", "w2s0"]:
        gen.append(Case("gen", "generate-faults", {}, spec, 5, kf=b"new.key"))
    for spec in ["cw0", "cw1", "cw0,g0", "cw0,w0s5"]:
        gen.append(Case("gen", "close-output-fails", {}, spec, 5, kf=b"new.key"))
    gen.append(Case("gen", "close-output-fails", {b"new.key": C(b"old contents\n")}, "cw0", 5, kf=b"new.key"))
    greal = R.batch(gen)
    kf = out_file(greal[0], b"new.key")
    if kf is not None:
        R.batch([crypt("generated-key", "E", ("K", b"new.key"), b"plain.bin", b"cipher.enc", {b"plain.bin": C(b"hello"), b"new.key": C(kf)}, rseed=9)])
    # ---- G. main() of asconcrypt: direction from the names, option combinations, "-" ------------
    P = ("P", b"pw")
    doc = patterned(rng, 40)
    c1 = args("detect-direction", "N", P, [b"report.txt"], {b"report.txt": C(doc)}, rseed=rng.randrange(1, 1 << 30))
    img = out_file(R.batch([c1])[0], b"report.txt.ascon")
    big = patterned(rng, B + 5)
    c2 = args("stdio", "E", P, [b"-"], {}, stdin=big, rseed=rng.randrange(1, 1 << 30))
    r2 = R.batch([c2])[0]
    bigimg = bytes.fromhex(r2["out"]) if r2["exit"] == 0 and r2["out"] != "-" else None
    g = []
    if img is not None:
        enc = C(img)
        g += [args("detect-direction", "N", P, [b"report.txt.ascon"], {b"report.txt.ascon": enc}),                       # -> report.txt
              args("detect-direction", "N", P, [b"report.txt.ascon"], {b"report.txt.ascon": enc, b"report.txt": C(b"older version")}),
              # the output file already exists and is LONGER than what is written: it must be truncated, not overwritten in place
              args("existing-longer-output", "N", P, [b"report.txt.ascon"], {b"report.txt.ascon": enc, b"report.txt": C(patterned(rng, 300))}),
              args("existing-longer-output", "D", P, [b"a.ascon"], {b"a.ascon": enc, b"result.bin": C(patterned(rng, 5000))}, out=b"result.bin"),
              args("existing-longer-output", "E", P, [b"notes.txt"], {b"notes.txt": C(doc), b"notes.txt.ascon": C(patterned(rng, 4000))}, rseed=rng.randrange(1, 1 << 30)),
              args("existing-longer-output", "E", P, [b"notes.txt"], {b"notes.txt": C(b""), b"out.enc": C(patterned(rng, B + 77))}, out=b"out.enc", rseed=rng.randrange(1, 1 << 30)),
              args("detect-direction", "D", P, [b"stored.bin"], {b"stored.bin": enc}),                                   # -> stored.bin.decrypted
              args("detect-direction", "N", P, [b"a.ascon", b"b.ascon"], {b"a.ascon": enc, b"b.ascon": enc}),
              args("detect-direction", "N", P, [b"a.ascon", b"notes.txt"], {b"a.ascon": enc, b"notes.txt": C(doc)}),     # one of each: refused
              args("detect-direction", "N", P, [b"notes.txt", b"a.ascon"], {b"a.ascon": enc, b"notes.txt": C(doc)}),
              args("detect-direction", "N", P, [b"notes.txt", b"more.txt", b"a.ascon", b"last.txt"], {b"a.ascon": enc, b"notes.txt": C(doc)}),
              args("detect-direction", "N", P, [b"x.ascon.ascon"], {b"x.ascon.ascon": enc}),                             # -> x.ascon
              args("detect-direction", "N", P, [b"a.ascon"], {b"a.ascon": enc}, out=b"result.bin"),
              args("detect-direction", "E", P, [b"a.ascon"], {b"a.ascon": enc}, rseed=4),                                # -e wins: a.ascon.ascon
              args("detect-direction", "N", P, [b"x.ascon"], {b"x.ascon": C(b"not an encrypted file")}),
              args("detect-direction", "N", ("P", b"other"), [b"a.ascon"], {b"a.ascon": enc}),
              args("detect-direction", "N", P, [b"gone.ascon"], {}),
              args("duplicate-names", "D", P, [b"a.ascon", b"a.ascon"], {b"a.ascon": enc}),
              args("stdio", "D", P, [b"a.ascon"], {b"a.ascon": enc}, out=b"-"),
              args("stdio", "N", P, [b"a.ascon"], {b"a.ascon": enc}, out=b"-"),
              args("stdio", "D", P, [b"-"], {}, stdin=img),
              args("stdio", "D", P, [b"-"], {}, stdin=img, out=b"from-stdin.txt"),
              args("stdio", "D", ("K", b"-"), [b"a.ascon"], {b"a.ascon": enc}, stdin=b"pw\nrest of standard input\n"),
              args("stdio", "D", ("K", b"-"), [b"a.ascon"], {b"a.ascon": enc}, stdin=b"pW\n")]
    for nm in (b"file.ASCON", b"file.asco", b"file.ascon.bak", b"ascon", b"readme", b"abc", b"a", b".asconx", b"ascon.ascon.txt"):
        g.append(args("detect-direction", "N", P, [nm], {nm: C(doc)}, rseed=rng.randrange(1, 1 << 30)))
    g.append(args("detect-direction", "N", P, [b"one.txt", b"two.txt", b"abc"], {b"one.txt": C(doc), b"two.txt": C(b""), b"abc": C(big)}, rseed=12))
    two = {b"one.txt": C(doc), b"two.txt": C(patterned(rng, 3)), b"key.txt": C(b"pw\n")}
    for mode in "EDN":
        g.append(args("p-with-k", mode, ("B", b"pw", b"key.txt"), [b"one.txt"], two, rseed=3))
        g.append(args("p-with-k", mode, ("B", b"pw", b"absent.key"), [b"one.txt", b"two.txt"], two, rseed=3))
        g.append(args("o-with-several-inputs", mode, P, [b"one.txt", b"two.txt"], two, out=b"out.bin", rseed=3))
        g.append(args("o-with-several-inputs", mode, ("K", b"key.txt"), [b"one.txt", b"two.txt", b"one.txt"], two, out=b"-", rseed=3))
        g.append(args("no-input", mode, P, [], two, rseed=3))
        g.append(args("no-input", mode, ("K", b"key.txt"), [], two, out=b"out.bin", rseed=3))
        g.append(args("no-terminal", mode, ("T",), [b"one.txt"], two, rseed=3))
    g.append(args("o-with-several-inputs", "E", P, [b"one.txt"], two, out=b"out.bin", rseed=3))                          # one input: fine
    g.append(args("p-with-k", "E", ("B", b"pw", b"key.txt"), [], two, rseed=3))                                         # usage comes first
    g.append(args("p-with-k", "E", ("B", b"pw", b"key.txt"), [b"one.txt", b"two.txt"], two, out=b"out.bin", rseed=3))   # -p/-k comes before -o
    g.append(args("duplicate-names", "E", P, [b"one.txt", b"one.txt"], two, rseed=rng.randrange(1, 1 << 30)))
    g.append(args("duplicate-names", "E", P, [b"one.txt", b"two.txt", b"one.txt"], two, rseed=rng.randrange(1, 1 << 30), faults="w9f"))
    g.append(args("duplicate-names", "E", P, [b"one.txt"], two, out=b"one.txt", rseed=6))                               # output = input: O_TRUNC empties it first
    # "-"
    g += [args("stdio", "N", P, [b"-"], {}, stdin=doc, rseed=8), args("stdio", "E", P, [b"-"], {}, stdin=b"", rseed=8),
          args("stdio", "E", P, [b"-"], {}, stdin=None, rseed=8), args("stdio", "E", P, [b"-"], {}, stdin=doc, out=b"from-stdin.enc", rseed=8),
          args("stdio", "E", P, [b"one.txt"], two, out=b"-", rseed=8), args("stdio", "N", P, [b"one.txt"], two, out=b"-", rseed=8),
          args("stdio", "E", ("K", b"-"), [b"one.txt"], two, stdin=b"typed into a pipe\n", rseed=8),
          args("stdio", "E", ("K", b"-"), [b"one.txt"], two, stdin=b"", rseed=8),
          args("stdio", "E", ("K", b"-"), [b"one.txt"], two, stdin=b"x" * 1024, rseed=8),
          args("stdio", "D", P, [b"-"], {}, stdin=b""), args("stdio", "D", P, [b"-"], {}, stdin=b"ASCONcrypt\0\1" + bytes(100))]
    if bigimg is not None:
        g.append(args("stdio", "D", P, [b"-"], {}, stdin=bigimg))
        # a modified / truncated stream decrypted to standard output: must fail; what had been written before the tag
        # was checked cannot be taken back (observed, reported in the evidence as stdout_bytes_before_rejection)
        t = bytearray(bigimg); t[-1] ^= 1
        g.append(args("stdio-tampered", "D", P, [b"-"], {}, stdin=bytes(t)))
        t = bytearray(bigimg); t[200] ^= 0x10
        g.append(args("stdio-tampered", "D", P, [b"-"], {}, stdin=bytes(t)))
        g.append(args("stdio-tampered", "D", P, [b"-"], {}, stdin=bigimg[:-7]))
        g.append(args("stdio-tampered", "D", P, [b"big.enc"], {b"big.enc": C(bytes(t))}, out=b"-"))
    # directories where files are expected (the model sees an empty file whose first read / whose open fails)
    g += [args("directory", "E", P, [b"somedir"], {b"somedir": C(b"")}, dirs=[b"somedir"], model_extra="r0f", rseed=9),
          args("directory", "D", P, [b"somedir.ascon"], {b"somedir.ascon": C(b"")}, dirs=[b"somedir.ascon"], model_extra="r0f"),
          args("directory", "N", P, [b"somedir"], {b"somedir": C(b"")}, dirs=[b"somedir"], model_extra="r0f", rseed=9),
          args("directory", "E", P, [b"one.txt"], {**two, b"outdir": C(b"")}, out=b"outdir", dirs=[b"outdir"], model_extra="o1", rseed=9),
          args("directory", "E", ("K", b"keydir"), [b"one.txt"], {**two, b"keydir": C(b"")}, dirs=[b"keydir"], model_extra="r0f", rseed=9),
          args("directory", "E", P, [b"one.txt", b"somedir", b"two.txt"], {**two, b"somedir": C(b"")}, dirs=[b"somedir"], model_extra="r2f", rseed=9)]
    # argument vectors that getopt / main() refuse and the model has no word for: judged by rule
    for av in ([b"-z", b"one.txt"], [b"-p"], [b"-e", b"-p", b"pw", b"-k"], [b"-o"], [b"-g"], [b"-g", b"new.key", b"one.txt"], [],
               [b"-e"], [b"-d", b"-p", b"pw"], [b"-e", b"-p", b"pw", b"-x", b"one.txt"], [b"--help"], [b"-g", b"new.key", b"-e", b"one.txt"]):
        g.append(ruled("rejected-options", "asconcrypt", av, two, "usage-error"))
    g.append(ruled("empty-output-name", "asconcrypt", [b"-p", b"pw", b".ascon"], {b".ascon": C(img or b"x")}, "fails-nothing-touched"))
    g.append(ruled("empty-output-name", "asconcrypt", [b"-d", b"-p", b"pw", b"-o", b"", b"a.ascon"], {b"a.ascon": C(img or b"x")}, "fails-nothing-touched"))
    greal2 = R.batch(g)
    R.extra["stdout_bytes_before_rejection"] = [len(r["out"]) // 2 if r["out"] != "-" else 0 for c, r in zip(g, greal2) if c.stream == "stdio-tampered"]
    for c, r in zip(g, greal2):
        if c.stream == "stdio-tampered" and r["exit"] == 0:
            R.res.violation("tamper-accepted@asconcrypt-d", "%s: exit status 0 for a modified stream" % c.stream, R.replay_of(c, r, {}))
    # ---- H. typed passwords (readpass.c) ---------------------------------------------------------
    T = ("T",)
    typed, rt = [], []
    tfs = {b"plain.bin": C(doc)}
    for n in (0, 1, 8, 1023, 1024, 5000):
        pwb = password(rng, n)
        typed.append(args("typed-password", "E", T, [b"plain.bin"], tfs, out=b"cipher.enc", tty=[pwb, pwb], rseed=100 + n))
        typed.append(args("typed-password", "N", T, [b"plain.bin"], tfs, tty=[pwb, pwb, pwb], rseed=100 + n))
        rt.append((n, pwb))
    pwb = password(rng, 12)
    typed += [args("typed-password", "E", T, [b"plain.bin"], tfs, tty=[pwb, pwb + b"x"], rseed=5),
              args("typed-password", "E", T, [b"plain.bin"], tfs, tty=[pwb, pwb[:-1]], rseed=5),
              args("typed-password", "E", T, [b"plain.bin"], tfs, tty=[pwb, None], rseed=5),
              args("typed-password", "E", T, [b"plain.bin"], tfs, tty=[pwb], rseed=5),
              args("typed-password", "E", T, [b"plain.bin"], tfs, tty=[None], rseed=5),
              args("typed-password", "E", T, [b"plain.bin"], tfs, tty=[], rseed=5),
              args("typed-password", "D", T, [b"plain.bin"], tfs, tty=[None]),
              args("typed-password", "E", T, [b"plain.bin", b"absent.bin"], tfs, tty=[pwb, pwb], rseed=5),
              args("typed-password", "E", T, [b"plain.bin"], tfs, out=b"cipher.enc", tty=[pwb, pwb], faults="cw0", rseed=5),
              # 1023 bytes typed twice and a 1024-byte one that starts with them: the confirmation "matches" in the tree as it is
              args("typed-password", "E", T, [b"plain.bin"], tfs, tty=[rt[3][1], rt[3][1] + b"Z"], rseed=5)]
    treal = R.batch(typed)
    dtyped = []
    for (n, pwb), c, r in zip(rt, typed[0::2], treal[0::2]):
        e = out_file(r, b"cipher.enc")
        if e is None:
            continue
        dfs = {b"cipher.enc": C(e)}
        dtyped.append(args("typed-password", "D", T, [b"cipher.enc"], dfs, out=b"plain.out", tty=[pwb]))
        # what was typed and -p must be the same password (up to 1023 bytes)
        if 0 < n <= 1023 and b"," not in pwb:
            dtyped.append(args("typed-password", "D", ("P", pwb), [b"cipher.enc"], dfs, out=b"plain.out"))
        wrong = bytes([pwb[0] ^ 1 or 2]) + pwb[1:] if n else b"x"
        dtyped.append(args("typed-wrong-password", "D", T, [b"cipher.enc"], dfs, out=b"plain.out", tty=[wrong]))
        if n >= 1024:
            # wrong only beyond byte 1023: C19 demands a rejection
            w2 = pwb[:1023] + bytes([pwb[1023] ^ 1 or 2]) + pwb[1024:]
            dtyped.append(args("typed-wrong-password", "D", T, [b"cipher.enc"], dfs, out=b"plain.out", tty=[w2]))
            dtyped.append(args("typed-wrong-password", "D", T, [b"cipher.enc"], dfs, out=b"plain.out", tty=[pwb[:1023]]))
    R.batch(dtyped)
    R.typed_cases = [c for c in typed + dtyped if c.tty is not None]
    # the same through a real pseudo-terminal and the C library's getpass (printable passwords)
    ptys = []
    for n in (0, 1, 12, 1023, 1024):
        pwb = bytes(rng.choice(b"abcdefghijklmnopqrstuvwxyzABCDEFGHIJKLMNOPQRSTUVWXYZ0123456789 !#%+,-./:=?@_~") for _ in range(n))
        ptys.append(args("typed-password-pty", "E", T, [b"plain.bin"], tfs, out=b"cipher.enc", tty=[pwb, pwb], rseed=200 + n, pty=True))
    ptys.append(args("typed-password-pty", "E", T, [b"plain.bin"], tfs, tty=[b"one thing", b"another"], rseed=5, pty=True))
    preal = R.batch(ptys)
    pd = []
    for c, r in zip(ptys[:5], preal[:5]):
        e = out_file(r, b"cipher.enc")
        if e is not None:
            pd.append(args("typed-password-pty", "D", T, [b"cipher.enc"], {b"cipher.enc": C(e)}, out=b"plain.out", tty=[c.tty[0]], pty=True))
            pd.append(args("typed-password-pty", "D", T, [b"cipher.enc"], {b"cipher.enc": C(e)}, out=b"plain.out", tty=[c.tty[0] + b"x"], pty=True))
    R.batch(pd)
    # ---- F. asconsum -------------------------------------------------------
    sums = []
    ssz = [0, 1, B - 1, B, B + 1, 2 * B, 3 * B + 7] if tier == "quick" else [0, 1, 7, 8, 9, 31, 32, 33, B - 1, B, B + 1, 2 * B - 1, 2 * B, 2 * B + 1, 3 * B + 7, 6 * B]
    names = [("f%d.dat" % s).encode() for s in ssz]
    sfs = {n: C(patterned(rng, s)) for n, s in zip(names, ssz)}
    sfs[b"with space.txt"] = C(b"spaces in the name\n")
    sfs[b"caf\xc3\xa9.bin"] = C(b"\xff\x00\x80")
    allnames = sorted(sfs)
    for alg in range(4):
        sums.append(Case("sum", "sum-hash", sfs, alg=alg, check=False, files=allnames))
        sums.append(Case("sum", "sum-hash", sfs, alg=alg, check=False, files=[allnames[0], b"missing.dat", allnames[1]]))
    sreal = R.batch(sums)
    chk = []
    for alg in range(4):
        listing = bytes.fromhex(sreal[2 * alg]["out"]) if sreal[2 * alg]["out"] != "-" else b""
        if not listing:
            continue
        lines_ = listing.split(b"\n")[:-1]
        base = dict(sfs)
        def ck(stream, lst, fs=base, faults=".", files=(b"sums.txt",)):
            f = dict(fs); f[b"sums.txt"] = C(lst)
            return Case("sum", stream, f, faults, alg=alg, check=True, files=list(files))
        chk.append(ck("check-ok", listing))
        chk.append(ck("check-ok", listing.replace(b"\n", b"\r\n")))
        chk.append(ck("check-ok", b"\n\n" + listing.upper().replace(b".DAT", b".dat").replace(b"WITH SPACE.TXT", b"with space.txt")
                      .replace(b"CAF\xc3\xa9.BIN", b"caf\xc3\xa9.bin") + b"\n"))
        chk.append(ck("check-ok", listing[:-1]))                                    # last line without newline
        for victim in (allnames[0], allnames[3], allnames[-1]):
            mod = dict(base)
            b = bytearray(mod[victim].bytes(R.blobs));
            if len(b):
                b[rng.randrange(len(b))] ^= 1 << rng.randrange(8)
            else:
                b = bytearray(b"x")
            mod[victim] = C(bytes(b))
            chk.append(ck("check-modified", listing, mod))
            gone = {k: v for k, v in base.items() if k != victim}
            chk.append(ck("check-missing", listing, gone))
        l0 = lines_[0]
        # every hex digit of a listed digest changed in turn: must be reported FAILED
        for pos in (range(64) if (alg == 0 or tier == "thorough") else (0, 31, 62, 63)):
            dg = bytearray(lines_[3])
            dg[pos] = ord("0") if dg[pos] != ord("0") else ord("f")
            chk.append(ck("check-listed-digest-changed", lines_[2] + b"\n" + bytes(dg) + b"\n"))
        bad_lines = [l0[:63] + b" " + l0[64:], l0[:64] + l0[65:].lstrip(b" "), l0[:10] + b"g" + l0[11:], l0[:62] + l0[64:], l0[:64],
                     l0[:64] + b"  ", l0[:64] + b" ", b"  " + l0, l0[:66], b"not a checksum line", b"00" * 33 + b"  " + names[0],
                     l0[:64] + b"\t" + l0[66:], l0[:64] + b"    " + l0[66:], l0[:64] + b" *" + l0[66:], b"\0" + l0, l0[:70] + b"\0" + l0[70:],
                     l0[:64] + b"  " + b"n" * 1500, b"\r\r\n", b" ", l0 + b"\r\r"]
        for bl in bad_lines:
            chk.append(ck("check-malformed", bl + b"\n"))
            chk.append(ck("check-malformed", lines_[1] + b"\n" + bl + b"\n" + lines_[2] + b"\n"))
        chk.append(ck("check-malformed", b""))
        chk.append(ck("check-malformed", b"\n\n\n"))
        chk.append(ck("check-missing", listing, base, files=(b"nolist.txt",)))
        chk.append(ck("check-ok", listing, base, files=(b"sums.txt", b"sums.txt")))
        # faults: every open, fgets and fread of the fault-free run fails once (and one beyond), every fread is short once
        okc = ck("check-ok", listing)
        co, cr_, _, _, cg = [int(x) for x in R.batch([okc])[0]["cnt"].split(",")]
        for k in range(co + 1):
            chk.append(ck("sum-faults", listing, faults="o%d" % k))
        for k in range(cg + 1):
            chk.append(ck("sum-faults", listing, faults="l%d" % k))
        for k in range(cr_ + 1):
            chk.append(ck("sum-faults", listing, faults="r%df" % k))
            chk.append(ck("sum-faults", listing, faults="r%ds%d" % (k, rng.choice([0, 5, B - 2]))))
        ho, hr = [int(x) for x in sreal[2 * alg]["cnt"].split(",")[:2]]
        for k in range(hr + 1):
            chk.append(Case("sum", "sum-faults", sfs, "r%df" % k, alg=alg, check=False, files=allnames))
            chk.append(Case("sum", "sum-faults", sfs, "r%ds%d" % (k, rng.choice([0, 5, B - 2])), alg=alg, check=False, files=allnames))
        for k in range(ho + 1):
            chk.append(Case("sum", "sum-faults", sfs, "o%d" % k, alg=alg, check=False, files=allnames))
        # fclose reporting an error (read streams only: nothing to lose): the run must be the fault-free one
        for k in range(0, sreal[2 * alg]["closes"][1] + 1, 3):
            chk.append(Case("sum", "close-input-fails", sfs, "cr%d" % k, alg=alg, check=False, files=allnames))
            chk.append(ck("close-input-fails", listing, faults="cr%d" % k))
        R.extra.setdefault("asconsum_fault_free_counts", {})["haxy"[alg]] = {"check": {"open": co, "fread": cr_, "fgets": cg}, "hash": {"open": ho, "fread": hr}}
        # ---- several files, missing ones, directories, the same name twice, "-" -------------------------------
        reads = lambda n: len(sfs[n].bytes(R.blobs)) // B + 1            # fread calls asconsum makes for that file
        d0, d1, d2 = allnames[0], allnames[4], allnames[-1]
        withdir = dict(sfs); withdir[b"adir"] = C(b"")
        chk += [sumc("sum-several", alg, False, [d0, b"missing.dat", d1, b"also-missing", d2], sfs),
                sumc("sum-several", alg, False, [b"missing.dat"], sfs),
                sumc("duplicate-names", alg, False, [d1, d1, d0, d1], sfs),
                sumc("directory", alg, False, [b"adir", d0], withdir, dirs=[b"adir"], model_extra="r0f"),
                sumc("directory", alg, False, [d1, d0, b"adir", d2], withdir, dirs=[b"adir"], model_extra="r%df" % (reads(d1) + reads(d0))),
                sumc("directory", alg, False, [b"adir"], withdir, dirs=[b"adir"], model_extra="r0f"),
                sumc("directory", alg, True, [b"adir"], withdir, dirs=[b"adir"], model_extra="l0")]
        l_of = {n: l for n, l in zip(allnames, lines_)}
        two_lists = dict(base)
        two_lists[b"first.lst"] = C(l_of[d0] + b"\n" + l_of[d1] + b"\n")
        two_lists[b"second.lst"] = C(l_of[d2] + b"\n")
        two_lists[b"bad.lst"] = C(l_of[d2][:20] + b"\n")
        chk += [Case("sum", "check-several-lists", two_lists, alg=alg, check=True, files=[b"first.lst", b"second.lst"]),
                Case("sum", "check-several-lists", two_lists, alg=alg, check=True, files=[b"first.lst", b"nolist.txt", b"second.lst"]),
                Case("sum", "check-several-lists", two_lists, alg=alg, check=True, files=[b"first.lst", b"bad.lst", b"second.lst"]),
                Case("sum", "check-several-lists", two_lists, alg=alg, check=True, files=[b"nolist.txt"]),
                Case("sum", "check-several-lists", {k: v for k, v in two_lists.items() if k != d2}, alg=alg, check=True, files=[b"first.lst", b"second.lst"]),
                ck("duplicate-names", l_of[d0] + b"\n" + l_of[d1] + b"\n" + l_of[d0] + b"\n"),
                ck("duplicate-names", l_of[d0] + b"\n" + l_of[d0].upper().replace(d0.upper(), d0) + b"\n")]
        wd = dict(base); wd[b"adir"] = C(b"")
        f = dict(wd); f[b"sums.txt"] = C(l_of[d0] + b"\n" + l_of[d0][:66] + b"adir\n" + l_of[d1] + b"\n")
        chk.append(sumc("directory", alg, True, [b"sums.txt"], f, dirs=[b"adir"], model_extra="r%df" % reads(d0)))
        f = dict(base); f[b"sums.txt"] = C(l_of[d0] + b"\n" + l_of[d0][:66] + b"sums.txt\n")                     # the list lists itself
        chk.append(sumc("check-modified", alg, True, [b"sums.txt"], f))
        data = base[d1].bytes(R.blobs)
        chk += [sumc("stdio", alg, False, [], sfs, stdin=data), sumc("stdio", alg, False, [b"-"], sfs, stdin=data),
                sumc("stdio", alg, False, [d0, b"-", d2], sfs, stdin=data), sumc("stdio", alg, False, [], sfs, stdin=b""),
                sumc("stdio", alg, False, [], sfs, stdin=None),
                sumc("stdio", alg, True, [], sfs, stdin=listing), sumc("stdio", alg, True, [b"-"], sfs, stdin=listing),
                sumc("stdio", alg, True, [b"-"], {k: v for k, v in sfs.items() if k != d0}, stdin=listing),
                sumc("stdio", alg, True, [], sfs, stdin=b""), sumc("stdio", alg, True, [], sfs, stdin=b"garbage\n")]
        f = dict(base); f[b"sums.txt"] = C(l_of[d0] + b"\n" + l_of[d1][:66] + b"-\n")                                # an entry named "-": standard input
        chk.append(sumc("stdio", alg, True, [b"sums.txt"], f, stdin=data))
        chk.append(sumc("stdio", alg, True, [b"sums.txt"], f, stdin=data + b"!"))
        chk.append(ruled("stdio-list-names-stdin", "asconsum", [b"-" + b"haxy"[alg:alg + 1], b"-c"], sfs, "stdin-list-names-stdin", stdin=l_of[d0] + b"\n" + l_of[d1][:66] + b"-\n"))
        for av in ([b"-q", d0], [b"-c", b"-z"], [b"--version"]):
            chk.append(ruled("rejected-options", "asconsum", av, sfs, "usage-error"))
    R.batch(chk)
