"""C14 - session nonces advance by exactly one per packet, big-endian, with full carry."""
import os, random, re, time, collections
import common, diffrun, gen, stdflow
from common import hx, rnd_bytes


def gen_cases(rng, tier, corr, stats, driver):
    # every carry-chain length 0..16, incl. the wrap at 2^128, plus random nonces
    for j in range(17):
        for _ in range(2 if tier == "quick" else 20):
            n = rnd_bytes(rng, 16 - j) + b"\xff" * j
            if j < 16 and n[15 - j] == 0xff:
                n = n[:15 - j] + b"\x7e" + n[16 - j:]
            corr.one("NINC %s" % hx(n)); stats["ops"]["increment-chain-%d" % j] += 1
    for _ in range(20 if tier == "quick" else 400):
        corr.one("NINC %s" % hx(rnd_bytes(rng, 16))); stats["ops"]["increment-random"] += 1
    for c in [0, 1, 255, 256, 2 ** 32 - 1, 2 ** 32, 2 ** 63, 2 ** 64 - 1] + [rng.getrandbits(64) for _ in range(10)]:
        corr.one("NSETCTR %d" % c); stats["ops"]["set_counter"] += 1
    # sessions: 1..6 packets on one incremental object, every packet an encryption, a VALID decryption (ciphertext made by the
    # extracted model under the predicted nonce N+i, so that the accept path of *_decrypt_finalize runs) or a forged one (one tag
    # bit / one body bit of a model-made ciphertext flipped, a random tag, or a genuine ciphertext made under the neighbouring
    # nonce N+i-1 / N+i+1); the nonce field is read back after EVERY packet whatever its kind and verdict, and every packet is
    # also computed one-shot (AE ENC / AE DEC) under the predicted nonce.  `expect` holds what the read-backs and verdicts must be
    # by the property (N+i+1 big-endian; 0 for the genuine packets, -1 for the forged ones): checked on the model's outputs in
    # run() (the implementation is compared with the model line by line)
    plans = []
    for _ in range(60 if tier == "quick" else 800):
        v = rng.choice(["128", "128a", "80pq"])
        klen, rate = gen.AEAD_VARIANTS[v]
        k = rnd_bytes(rng, klen)
        j = rng.randrange(0, 17)
        n = rnd_bytes(rng, 16 - j) + b"\xff" * j
        cur = int.from_bytes(n, "big")
        pk = []
        for _p in range(rng.randrange(1, 7)):
            ad, pt = rnd_bytes(rng, rng.choice([0, 3, 17])), rnd_bytes(rng, rng.choice([0, 1, rate, 2 * rate + 3]))
            kind = rng.choice(["enc", "enc", "enc", "dec-valid", "dec-valid", "dec-valid", "dec-tagbit", "dec-bodybit", "dec-randtag", "dec-neighbour"])
            made_under = cur
            if kind == "dec-neighbour":
                made_under = (cur + rng.choice([-1, 1])) % (1 << 128)
            pk.append((kind, cur, made_under, ad, pt))
            cur = (cur + 1) % (1 << 128)
        plans.append((v, rate, k, n, pk))
    need = [(v, k, mu, ad, pt) for (v, rate, k, n, pk) in plans for (kind, cur, mu, ad, pt) in pk if kind != "enc"]
    lines = ["AE %s ENC %s %s %s %s" % (v, hx(k), hx(mu.to_bytes(16, "big")), hx(ad), hx(pt)) for (v, k, mu, ad, pt) in need]
    cts = []
    if lines:
        rc, out, err = common.run_parallel(driver, lines)
        if rc != 0 or len(out) != len(lines):
            raise common.Infra("model driver failed while making ciphertexts: " + (err or "")[-1000:])
        cts = [bytes.fromhex(o.split()[0]) if o.split()[0] != "-" else b"" for o in out]
    it = iter(cts)
    expect = stats.setdefault("expect", [])
    for (v, rate, k, n, pk) in plans:
        base = len(corr.lines)
        ses = ["AI 1 %s INIT %s %s" % (v, hx(n), hx(k)), "AI 1 NONCE"]
        expect.append((base + 1, hx(n), "nonce-after-init"))
        for (kind, cur, mu, ad, pt) in pk:
            ses.append("AI 1 START %s" % hx(ad))
            nxt = ((cur + 1) % (1 << 128)).to_bytes(16, "big")
            if kind == "enc":
                for c in gen.split_data(pt, gen.partition(rng, len(pt), rate)):
                    ses.append("AI 1 ENCB %s" % hx(c))
                ses.append("AI 1 ENCF")
                ses.append("AI 1 NONCE"); expect.append((base + len(ses) - 1, hx(nxt), "nonce-after-enc"))
                # the same packet one-shot under the nonce the session should have used
                ses.append("AE %s ENC %s %s %s %s" % (v, hx(k), hx(cur.to_bytes(16, "big")), hx(ad), hx(pt)))
            else:
                ct = next(it)
                body, tag = bytearray(ct[:-16]), bytearray(ct[-16:])
                if kind == "dec-bodybit" and not body:
                    kind = "dec-tagbit"
                if kind == "dec-tagbit":
                    bit = rng.randrange(128); tag[bit // 8] ^= 0x80 >> (bit % 8)
                elif kind == "dec-bodybit":
                    bit = rng.randrange(8 * len(body)); body[bit // 8] ^= 0x80 >> (bit % 8)
                elif kind == "dec-randtag":
                    t2 = rnd_bytes(rng, 16)
                    tag = bytearray(t2 if t2 != bytes(tag) else bytes(x ^ 1 for x in t2))
                body, tag = bytes(body), bytes(tag)
                for c in gen.split_data(body, gen.partition(rng, len(body), rate)):
                    ses.append("AI 1 DECB %s%s" % (hx(c), " I" if rng.random() < 0.25 else ""))
                ses.append("AI 1 DECF %s" % hx(tag))
                expect.append((base + len(ses) - 1, "0" if kind == "dec-valid" else "-1", "verdict-" + kind))
                ses.append("AI 1 NONCE"); expect.append((base + len(ses) - 1, hx(nxt), "nonce-after-" + kind))
                # decided like the one-shot decryption under the nonce the session should have used
                ses.append("AE %s DEC %s %s %s %s" % (v, hx(k), hx(cur.to_bytes(16, "big")), hx(ad), hx(body + tag)))
            stats["ops"]["session-packet-" + kind] += 1
        ses.append("AI 1 FREE")
        corr.session(ses, "AI-session-" + v)


def cpp_nonce_lines(rng, tier):
    import p_c17
    lines = p_c17.gen_cpx(rng, tier)[0]
    keep = [l for l in lines if (" SN:" in l or " SC:" in l)]
    rng.shuffle(keep)
    keep = keep[:120 if tier == "quick" else 1500]
    # per class: an empty nonce (NULL,0 and ptr,0) set on an object whose held nonce is not zero any more (after set_nonce / set_counter and
    # a packet) must give the all-zero nonce, and a short nonce must be right-aligned over zeroes whatever was held before
    from common import hx, rnd_bytes
    for cls, (klen, fam) in p_c17.CLASSES.items():
        k = hx(rnd_bytes(rng, klen))
        kt = "KL:%s:%d" % (k, klen) if fam == "isap" else "K:%s" % k
        pkt = lambda: "E:%s:%s" % (hx(rnd_bytes(rng, 3)), hx(rnd_bytes(rng, 9)))
        keep.append("CPX %s %s SN:%s:16 %s SN:NULL:0 %s" % (cls, kt, hx(rnd_bytes(rng, 16)), pkt(), pkt()))
        keep.append("CPX %s %s SC:%x %s SN:-:0 %s SN:%s:5 %s" % (cls, kt, rng.randrange(1, 2 ** 64), pkt(), pkt(), hx(rnd_bytes(rng, 5)), pkt()))
    return keep


def nonces(out):
    return re.findall(r"\bn=([0-9a-f]+)", out) + re.findall(r"\br=(-?\d+)", out)


def run(res, tier, seed, replay=None):
    t0 = time.time()
    rng = random.Random(seed)
    pr = stdflow.prove(res, "C14")
    # concrete counter-examples of the (T) obligations for the nonce helpers (tools/kern_tag.py)
    tj = os.path.join(common.BUILD, "kern", "tag.json")
    if os.path.exists(tj):
        import json as _json
        for k, v in _json.load(open(tj)).items():
            if k.startswith("nonce") and not v.get("concrete_ok", True):
                res.violation("obligation-" + k, "translated %s does not meet its specification: output %s is %s, specified %s" %
                              (v.get("title", k), (v.get("counterexample") or {}).get("output_index"), (v.get("counterexample") or {}).get("got"),
                               (v.get("counterexample") or {}).get("want")),
                              {"function": v.get("title", k), "counterexample": v.get("counterexample"),
                               "how": "python3 tools/kern_tag.py /repo ; inputs are the 16 nonce bytes (then the counter)"})
    driver = common.build_driver()
    stats = {"ops": collections.Counter()}
    corr = diffrun.Corr()
    cpx = []
    if replay:
        import json
        corr.session(json.load(open(replay))["replay"]["ops"])
    else:
        gen_cases(rng, tier, corr, stats, driver)
        cpx = cpp_nonce_lines(rng, tier)
        stats["ops"]["cpp-object-histories"] = len(cpx)
    # what the property demands of the read-backs and verdicts, checked on the proved model's own outputs (python arithmetic N+i+1,
    # accept for model-made packets, reject for the forged ones); the implementation is then compared with these outputs line by line
    accepted = rejected = readbacks = 0
    if stats.get("expect"):
        rc, om, err = common.run_parallel(driver, corr.lines, corr.sessions)
        if rc != 0:
            raise common.Infra("model driver failed: " + (err or "")[-1000:])
        for (i, want, what) in stats["expect"]:
            got = om[i].strip()
            if got != want:
                # excluded by C14_session_mixed / C02_incremental for the model: a generator or driver fault, not a finding about /repo
                raise common.Infra("p_c14 generator/driver fault: model line %r returned %s, the property demands %s (%s)" %
                                   (corr.lines[i][:200], got[:80], want, what))
            elif what.startswith("verdict-"):
                accepted += want == "0"; rejected += want == "-1"
            else:
                readbacks += 1
    configs = ["default", "c32"] if tier == "quick" else ["default", "c64", "c32", "directxor", "generic"]
    per = []
    ncpx = 0
    with common.Scratch() as sc:
        b = stdflow.Builds(res, sc)
        for cfg in configs:
            got = b.get(cfg)
            if not got:
                continue
            per.append(diffrun.compare(res, corr, driver, got[1], got[2]))
            if cpx:
                # C++ objects: the nonce held after every member call and every accept/reject result must equal the model's
                rc, om, _ = common.run_parallel(driver, cpx)
                rc, oi, _ = common.run_parallel(got[1], cpx)
                for l, a, c in zip(cpx, om, oi):
                    ncpx += 1
                    if nonces(a) != nonces(c):
                        res.violation("cpp-nonce-" + l.split()[1] + "@" + got[2],
                                      "C++ object history: nonces / results after the member calls differ from the model: %s\n model: %s\n impl:  %s" % (l[:300], a[:400], c[:400]),
                                      {"config": got[2], "ops": [l], "model": [a], "impl": [c]})
    res.cov.update({
        "evaluations": sum(p["sessions"] for p in per) + ncpx,
        "distinct_nontrivial": max([p["nontrivial"] for p in per] or [0]) + len(set(cpx)),
        "rule": "ascon_aead_increment_nonce on nonces prefix||FF^j for every j = 0..16 (every carry-chain length incl. the wrap) and random nonces; set_counter edge values; "
                "incremental sessions of 1..6 packets, each an encryption, a genuine decryption (ciphertext made by the extracted model under N+i: accept path) or a forged "
                "one (tag bit, body bit, random tag, genuine ciphertext under N+i-1 / N+i+1), chunked, some blocks in place, with the nonce field read back after every "
                "packet (must be N+i+1 whatever the kind and verdict) and every packet recomputed one-shot (AE ENC / AE DEC) under N+i; C++ object histories containing set_nonce (lengths 0..20) / set_counter with the held nonce compared after every member call",
        "samples": corr.lines[:3] + corr.lines[60:63] + cpx[:2],
        "per_config": per,
        "input_distribution": {"ops": dict(stats["ops"])},
        "session_decrypt_accepted": accepted, "session_decrypt_rejected": rejected, "session_nonce_readbacks": readbacks,
    })
    res.assumptions += ["the C++ object behaviour (nonce +1 after encrypt / successful decrypt, unchanged after a failed one) is theorem C17_packet over the model of the .cpp files",
                        "Model/Aeadm.v, Model/Noncem.v mirror the C (differential run)"]
    res.cov["wall_total"] = round(time.time() - t0, 1)
    return "proof"
