"""Input generators shared by the checks.  Every random choice derives from
one random.Random seeded by VERIF_SEED."""
import random
from common import hx, rnd_bytes


def boundary_lengths(rate, maxlen):
    s = {0, 1, rate - 1, rate, rate + 1, 2 * rate - 1, 2 * rate, 2 * rate + 1, 3 * rate, 5 * rate + 3}
    n = 64
    while n <= maxlen:
        s.update([n - 1, n, n + 1])
        n *= 4
    return sorted(x for x in s if 0 <= x <= maxlen)


def patterned(rng, n, kind=None):
    kind = kind or rng.choice(["rand", "rand", "rand", "zero", "ff", "onehot", "count"])
    if kind == "zero":
        return bytes(n)
    if kind == "ff":
        return bytes([255] * n)
    if kind == "onehot" and n > 0:
        b = bytearray(n)
        i = rng.randrange(n * 8)
        b[i // 8] = 0x80 >> (i % 8)
        return bytes(b)
    if kind == "count":
        return bytes((i & 255) for i in range(n))
    return rnd_bytes(rng, n)


def partition(rng, n, rate, maxparts=6):
    """A random split of n into chunk lengths, with empty chunks and chunks
    around the rate."""
    parts = []
    left = n
    while left > 0 and len(parts) < maxparts:
        c = rng.choice([0, 1, rate - 1, rate, rate + 1, 2 * rate + 3, rng.randrange(0, left + 1), left])
        c = min(c, left)
        parts.append(c)
        left -= c
    if left > 0:
        parts.append(left)
    if rng.random() < 0.3:
        parts.insert(rng.randrange(len(parts) + 1), 0)
    return parts


AEAD_VARIANTS = {"128": (16, 8), "128a": (16, 16), "80pq": (20, 8)}


def split_data(data, parts):
    out, i = [], 0
    for p in parts:
        out.append(data[i:i + p])
        i += p
    return out
