"""C09 - results are identical for every build configuration of the library."""
import random, time, collections, json, hashlib, os
import common, diffrun, gen, stdflow
from common import hx, rnd_bytes


class Flex(collections.Counter):
    """statistics sink accepted by every module's generator (counter and list at once)"""
    def append(self, x):
        self["n"] += 1


def workload(rng, tier, driver):
    """One deterministic workload over every public function family, drawn from the generators of the other
    properties' checks; returns (Corr, family sizes)."""
    import p_c01, p_c02, p_c03, p_c04, p_c05, p_c06, p_c07, p_c08, p_c10, p_c14, p_c17, p_c20
    parts = []

    def take(name, fill, cap):
        c = diffrun.Corr()
        fill(c)
        idx = list(range(len(c.sessions)))
        rng.shuffle(idx)
        idx = sorted(idx[:cap])
        parts.append((name, c, idx))

    st = lambda: collections.defaultdict(Flex)
    q = tier == "quick"
    take("aead-encrypt", lambda c: p_c01.gen_cases(rng, "quick", c, st()), 200 if q else 1200)
    take("aead-decrypt", lambda c: p_c02.gen_cases(rng, "quick", driver, c, {"kinds": {}, "ctlen": []}, ["AE"]), 250 if q else 1500)
    take("xof-hash", lambda c: p_c03.gen_cases(rng, "quick", c, st()), 250 if q else 1500)
    take("mac", lambda c: p_c04.gen_cases(rng, "quick", driver, c, st()), 250 if q else 1200)
    take("kdf", lambda c: p_c05.gen_cases(rng, "quick", c, st()), 60 if q else 300)
    take("siv-isap", lambda c: p_c06.gen_cases(rng, "quick", driver, c, st()), 60 if q else 300)

    def hist(c):
        s = {"ops": collections.Counter()}
        for _ in range(120 if q else 800):
            ses, tag = p_c07.xof_history(rng, s); c.session(ses, tag)
            ses, tag = p_c07.aead_history(rng, s); c.session(ses, tag)
    take("object-histories", hist, 240 if q else 1600)
    take("permutation-state", lambda c: p_c08.gen_cases(rng, "quick", c, st()), 500 if q else 2500)
    take("nonces-sessions", lambda c: p_c14.gen_cases(rng, "quick", c, st(), driver), 120 if q else 200)

    def masked(c):
        s = {"ops": collections.Counter(), "valid": [], "mp_steps": collections.Counter()}
        full = diffrun.Corr()
        p_c10.gen_cases(rng, "quick", full, s, 2, 2, "w64")
        p_c10.add_valid_decrypts(driver, full, s)
        for (a, b) in full.sessions:          # only the configuration-independent operations (masked AEAD under every tape behaviour)
            if any(l.startswith("AEM") for l in full.lines[a:b]):
                c.session(full.lines[a:b])
    take("masked-aead", masked, 200 if q else 400)

    def prng(c):
        import p_c15
        s = {"ops": collections.Counter(), "fetch": [], "storage": collections.Counter()}
        for _ in range(40 if q else 150):
            c.session(p_c15.session(rng, "quick", s))
    take("prng", prng, 40 if q else 150)

    def cpp(c):
        for l in p_c17.gen_cpx(rng, "quick")[0]:
            c.one(l)
        for l in p_c17.gen_utl(rng, "quick"):
            c.one(l if isinstance(l, str) else l[0])
    try:
        take("cpp-objects", cpp, 150 if q else 600)
    except Exception as ex:      # generator interface drift must not hide the rest
        parts.append(("cpp-objects-unavailable:" + type(ex).__name__, diffrun.Corr(), []))

    def hexes(c):
        r = p_c20.gen_hex(rng, "quick")
        for l in (r[0] if isinstance(r, tuple) else r):
            c.one(l)
    try:
        take("hex", hexes, 150 if q else 600)
    except Exception as ex:
        parts.append(("hex-unavailable:" + type(ex).__name__, diffrun.Corr(), []))

    corr = diffrun.Corr()
    fam = collections.OrderedDict()
    for name, c, idx in parts:
        fam[name] = len(idx)
        for i in idx:
            a, b = c.sessions[i]
            corr.session(c.lines[a:b], name)
    return corr, fam


# valid: 1 <= data shares <= key shares <= max shares (ascon-masked-config.h rejects anything else at compile time)
SHARES_ALL = [(k, d, m) for m in (2, 3, 4) for k in range(2, m + 1) for d in range(1, k + 1)]
BACKENDS = ["default", "c64", "c32", "directxor", "generic"]


def configs_for(tier, rng):
    if tier == "quick":
        return [("default", None), ("c64", (2, 1, 2)), ("c32", (3, 3, 3)), ("directxor", (4, 4, 4)), ("generic", (3, 2, 4)), ("checkar", None), ("checkar", (2, 2, 3))]
    out = []
    sh = list(SHARES_ALL)
    rng.shuffle(sh)
    for i, s in enumerate(sh):          # every valid share triple on at least one backend, every backend with >= 3 triples
        out.append((BACKENDS[i % 5], s))
    out += [(b, None) for b in BACKENDS]
    out += [("checkar", None), ("checkar", (2, 1, 2)), ("checkar", (3, 3, 3)), ("checkar", (4, 1, 4)), ("checkar", (2, 2, 4))]
    return out


def run(res, tier, seed, replay=None):
    t0 = time.time()
    rng = random.Random(seed)
    pr = stdflow.prove(res, "C09")
    import p_c09_skel
    p_c09_skel.run(res, tier)       # acquire/release clause: (T) skeleton tables + Props/Properties_C09_skel.v
    if replay and json.load(open(replay)).get("signature", "").startswith("ar-"):
        return "proof"              # an acquire/release finding is re-derived by the line above (translator + Coq replay of the path)
    driver = common.build_driver()
    if replay:
        r = json.load(open(replay))["replay"]
        corr = diffrun.Corr(); corr.session(r["ops"]); fam = {"replay": 1}
        cfgs = [c for c in configs_for("thorough", random.Random(0)) if (c[0] + ("-%d%d%d" % c[1] if c[1] else "")) == r.get("config")] or configs_for("quick", rng)
    else:
        corr, fam = workload(rng, tier, driver)
        cfgs = configs_for(tier, rng)
    rc, out_m, err = common.run_parallel(driver, corr.lines, corr.sessions)
    if rc != 0:
        raise common.Infra("model driver failed: " + err[-2000:])
    unsupported = sum(1 for o in out_m if o in ("UNSUPPORTED",))
    digests, per = {}, []
    # C++ object and hex-utility lines are judged through projections in their own checks (C17, C20): here the reference for those
    # families is the default configuration's own output (agreement ACROSS configurations is what C09 states)
    inexact = ("cpp-objects", "hex")
    ref = list(out_m)
    ref_name = "model"
    force = {"c64": ("-DASCON_FORCE_C64",), "c32": ("-DASCON_FORCE_C32",), "directxor": ("-DASCON_FORCE_DIRECT_XOR",), "generic": ("-DASCON_FORCE_GENERIC",),
             "checkar": ("-DASCON_FORCE_GENERIC",)}
    with common.Scratch() as sc:
        b = stdflow.Builds(res, sc)
        for cfg, shares in cfgs:
            got = b.get(cfg, shares=shares, harness_defs=force.get(cfg, ()))
            if not got:
                continue
            name = got[2]
            rc_i, out_i, err_i = common.run_parallel(got[1], corr.lines, corr.sessions)
            nd = 0
            if not per:          # first configuration: becomes the reference for the projection-judged families
                for (a, z), tag in zip(corr.sessions, corr.tags):
                    if tag in inexact:
                        ref[a:z] = out_i[a:z]
            for (a, z), tag in zip(corr.sessions, corr.tags):
                bad = next((i for i in range(a, z) if ref[i] != out_i[i]), None)
                if bad is not None:
                    nd += 1
                    aborted = "acquire" in err_i or "release" in err_i
                    res.violation("%s-%s@%s" % (tag, diffrun.sig_default(corr.lines[bad]), name),
                                  "configuration %s returns a different result from the proved model (and so from the other configurations) on: %s\n model: %s\n impl:  %s%s" %
                                  (name, corr.lines[bad][:300], ref[bad][:300], out_i[bad][:300], ("\n stderr: " + err_i[-300:]) if aborted else ""),
                                  {"config": name, "ops": corr.lines[a:bad + 1], "model": ref[a:bad + 1], "impl": out_i[a:bad + 1],
                                   "reference": "first configuration" if tag in inexact else "proved model"})
            if rc_i != 0 and nd == 0:
                res.violation("harness-crash@" + name, "the workload aborted in configuration %s: %s" % (name, err_i[-1500:]),
                              {"config": name, "stderr": err_i[-4000:]}, no_input=True)
            # configuration-dependent lines (share count and the width of the random draws are in the operation): masked key,
            # masked state and masked permutation histories generated for THIS configuration, compared with the model
            if not replay:
                import p_c10
                ks, ds, ms = shares or (4, 2, 4)
                st2 = {"ops": collections.Counter(), "valid": [], "mp_steps": collections.Counter()}
                full = diffrun.Corr()
                p_c10.gen_cases(random.Random(rng.getrandbits(64)), "quick", full, st2, ks, ms, "w32" if cfg == "c32" else "w64")
                c2 = diffrun.Corr()
                for (a2, b2) in full.sessions:
                    if full.lines[a2].split()[0] in ("MK", "MR", "MP"):
                        c2.session(full.lines[a2:b2], "masked-objects")
                st = diffrun.compare(res, c2, driver, got[1], name)
                nd += st["disagreements"]
                extra_sessions = st["sessions"]
            else:
                extra_sessions = 0
            dg = hashlib.sha256("\n".join(out_i).encode()).hexdigest()
            digests[name] = dg
            per.append({"config": name, "sessions": len(corr.sessions), "lines": len(corr.lines), "disagreements": nd, "digest": dg[:16], "exit": rc_i, "masked_object_sessions": extra_sessions,
                        "stderr_tail": err_i[-200:] if err_i else ""})
            # each build is removed as soon as it has been run: disk is limited
            import shutil
            shutil.rmtree(got[0], ignore_errors=True)
    dm = hashlib.sha256("\n".join(out_m).encode()).hexdigest()
    res.cov.update({
        "evaluations": len(corr.sessions) * len(per),
        "distinct_nontrivial": len(set("\n".join(corr.lines[a:z]) for a, z in corr.sessions)),
        "rule": "one deterministic workload over every public function family (AEAD one-shot/incremental/masked/C++, XOF/hash/cXOF, PRF/MAC/HMAC/KMAC, HKDF/PBKDF2/KDF, SIV, ISAP, "
                "permutation and byte-range state operations, nonce sessions, hex utilities, object histories) run on each configuration and compared line by line with the "
                "proved model; the digest of all outputs is the same for every configuration iff no line differs; the acquire/release-checking build must not abort",
        "samples": [corr.lines[corr.sessions[i][0]][:160] for i in range(0, len(corr.sessions), max(1, len(corr.sessions) // 6))][:6],
        "families": fam,
        "model_digest": dm[:16],
        "all_digests_equal": len(set(digests.values()) | {dm}) == 1,
        "unsupported_by_model": unsupported,
        "per_config": per,
        "configurations": [p["config"] for p in per],
        "input_distribution": {"sessions_per_family": dict(fam)},
    })
    res.assumptions += ["the C kernels are proved per backend (C08) and per share count (C10); the mode-level fast-path macros of ascon-util-snp.h and the share-count dispatch macros "
                        "are tied by this differential run, not by a theorem",
                        "thorough tier covers each of the 16 valid (key,data,max) share triples (data <= key <= max) on one backend and every backend with at least three triples, not the full 5 x 16 product"]
    res.cov["wall_total"] = round(time.time() - t0, 1)
    return "proof"
