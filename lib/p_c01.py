"""C01 - AEAD encryption computes the ASCON v1.2 function for every input."""
import random, time
import common, diffrun, gen, kat, stdflow
from common import hx


def kat_lines(variant, fname, every):
    lines, exp = [], []
    for i, r in enumerate(kat.read_kat(fname)):
        short = len(r["PT"]) // 2 <= 4 and len(r["AD"]) // 2 <= 4
        if not (short or i % every == 0):
            continue
        lines.append("AESPEC %s ENC %s %s %s %s" % (variant, kat.h(r["Key"]), kat.h(r["Nonce"]), kat.h(r["AD"]), kat.h(r["PT"])))
        exp.append(kat.h(r["CT"]))
    return lines, exp


def gen_cases(rng, tier, corr, stats):
    maxlen = 4096 if tier == "quick" else 65536
    for v, (klen, rate) in gen.AEAD_VARIANTS.items():
        pairs = [(a, p) for a in range(0, 2 * rate + 2) for p in range(0, 2 * rate + 2)]
        if tier == "quick":
            rng.shuffle(pairs)
            pairs = pairs[:220]
        bl = gen.boundary_lengths(rate, maxlen)
        pairs += [(rng.choice(bl), p) for p in bl] + [(a, rng.choice(bl)) for a in bl if a <= 4096]
        for (alen, plen) in pairs:
            k, n = gen.patterned(rng, klen), gen.patterned(rng, 16)
            ad, pt = gen.patterned(rng, alen, "rand"), gen.patterned(rng, plen, "rand")
            stats["adlen"].append(alen); stats["ptlen"].append(plen)
            fam = rng.choice(["AE", "AE", "AI", "AEM", "AEC"])
            if fam == "AI" or (plen > 0 and rng.random() < 0.25):
                parts = gen.split_data(pt, gen.partition(rng, plen, rate))
                ses = ["AI 1 %s INIT %s %s" % (v, hx(n), hx(k)), "AI 1 START %s" % hx(ad)]
                for c in parts:
                    ses.append("AI 1 ENCB %s%s" % (hx(c), " I" if rng.random() < 0.4 else ""))
                ses += ["AI 1 ENCF", "AI 1 FREE"]
                corr.session(ses, "AI-%s-ENC" % v)
                stats["ops"]["incremental"] = stats["ops"].get("incremental", 0) + 1
                stats["chunks"].append(len(parts))
            if fam != "AI":
                # C++ classes: key constructor / set_key then set_nonce / set_nonce then set_key, pointer or byte_array overload
                path = (" " + rng.choice(["ctor", "setkey", "setkeylast", "ctor BA", "setkey BA", "setkeylast BA"])) if fam == "AEC" else ""
                corr.one("%s %s ENC %s %s %s %s%s" % (fam, v, hx(k), hx(n), hx(ad), hx(pt), path))
                stats["ops"][fam] = stats["ops"].get(fam, 0) + 1


def gen_corner_cases(rng, corr, stats):
    """every entry point on the empty / one-byte / one-block corner of (adlen, mlen): the empty-AD and empty-message paths are separate code"""
    for v, (klen, rate) in gen.AEAD_VARIANTS.items():
        for fam in ("AE", "AEM", "AEC"):
            for (alen, plen) in ((0, 0), (0, 1), (0, rate), (0, rate + 1), (1, 0), (rate, 0), (rate + 1, 1)):
                k, n = gen.patterned(rng, klen), gen.patterned(rng, 16)
                corr.one("%s %s ENC %s %s %s %s" % (fam, v, hx(k), hx(n), hx(gen.patterned(rng, alen, "rand")), hx(gen.patterned(rng, plen, "rand"))))
                stats["ops"][fam + "-corner"] = stats["ops"].get(fam + "-corner", 0) + 1


def gen_packet_sessions(rng, tier, corr, stats):
    """one incremental object used for several packets (documented: start() again after finalize; the nonce advances by one):
    every packet must be the one-shot ciphertext under N+i - lengths straddling the rate, so that a partial-block position
    left over from the previous packet would show"""
    for v, (klen, rate) in gen.AEAD_VARIANTS.items():
        for lens in ([5, 11], [rate - 1, rate + 1, 1], [1, 0, 2 * rate + 3], [rate + 3, rate - 3, 7]) + (() if tier == "quick" else ([0, 7, 0, 9], [3 * rate + 1, 2, rate])):
            k, n0 = gen.patterned(rng, klen), common.rnd_bytes(rng, 13) + b"\xff\xff" + bytes([rng.randrange(250, 256)])
            ses = ["AI 1 %s INIT %s %s" % (v, hx(n0), hx(k))]
            base = int.from_bytes(n0, "big")
            for i, L in enumerate(lens):
                ad, pt = common.rnd_bytes(rng, rng.choice([0, 3, rate])), common.rnd_bytes(rng, L)
                if i and rng.random() < 0.4:
                    # between packets: re-key keeping the running nonce (the object's own nonce field handed back as the argument)
                    # (the nonce field is the one documented as the application's to read and update; the key field is opaque)
                    k = gen.patterned(rng, klen); ses.append("AI 1 REINIT SELF %s" % hx(k))
                    stats["ops"]["reinit-with-own-field"] = stats["ops"].get("reinit-with-own-field", 0) + 1
                ses.append("AI 1 START %s" % hx(ad))
                ses += ["AI 1 ENCB %s" % hx(c) for c in gen.split_data(pt, gen.partition(rng, L, rate))]
                ses.append("AI 1 ENCF")
                ni = ((base + i) % (1 << 128)).to_bytes(16, "big")
                ses.append("AE %s ENC %s %s %s %s" % (v, hx(k), hx(ni), hx(ad), hx(pt)))    # the same packet one-shot, to be compared by eye in a replay
            ses.append("AI 1 FREE")
            corr.session(ses, "AI-%s-ENC-packets" % v)
            stats["ops"]["multi-packet-session"] = stats["ops"].get("multi-packet-session", 0) + 1


def run(res, tier, seed, replay=None):
    t0 = time.time()
    rng = random.Random(seed)
    pr = stdflow.prove(res, "C01")
    driver = common.build_driver()
    # spec validation on the repository's KAT files
    nk = 0
    for v, f in (("128", "ASCON-128.txt"), ("128a", "ASCON-128a.txt"), ("80pq", "ASCON-80pq.txt")):
        lines, exp = kat_lines(v, f, 8 if tier == "quick" else 1)
        rc, out, err = common.run_parallel(driver, lines)
        for l, o, e in zip(lines, out, exp):
            nk += 1
            if o != e:
                res.violation("spec-kat-" + v, "Spec.Aead.encrypt disagrees with KAT file %s on %s: got %s" % (f, l, o),
                              {"line": l, "spec": o, "kat": e})
    res.cov["kat_vectors_checked_against_spec"] = nk
    stats = {"adlen": [], "ptlen": [], "ops": {}, "chunks": []}
    corr = diffrun.Corr()
    if replay:
        import json
        corr.session(json.load(open(replay))["replay"]["ops"])
    else:
        gen_cases(rng, tier, corr, stats)
        gen_corner_cases(rng, corr, stats)
        gen_packet_sessions(rng, tier, corr, stats)
    configs = ["default", "c32"] if tier == "quick" else ["default", "c64", "c32", "directxor", "generic"]
    # the masked entry points (AEM lines) have share-count-specific code: other (key, data, max) share builds as well
    configs += [("c64", (2, 1, 2)), ("c32", (4, 3, 4))] if tier == "quick" else [("c64", (2, 1, 2)), ("c32", (4, 3, 4)), ("c32", (3, 1, 3)), ("default", (4, 4, 4)), ("c64", (3, 3, 3)), ("default", (4, 3, 4)), ("c64", (3, 2, 3))]
    per = []
    with common.Scratch() as sc:
        b = stdflow.Builds(res, sc)
        for cfg in configs:
            got = b.get(*cfg) if isinstance(cfg, tuple) else b.get(cfg)
            if not got:
                continue
            per.append(diffrun.compare(res, corr, driver, got[1], got[2]))
            if tier == "thorough" and not replay and got[2] in ("default", "c32"):
                # lengths of 2^32 bytes and more: size_t parameters must not be processed modulo 2^32 (harness/x_huge.c)
                res.cov.setdefault("huge_lengths", {})[got[2]] = common.run_huge(res, got[0], got[2], ["aead128a"])
            if not replay and got[2] == ("default" if tier == "quick" else "c64"):
                # associated data of 2^32+5 bytes through each variant's one-shot encryption (zero pages, read only): three processes side by side
                res.cov.setdefault("huge_lengths", {})[got[2] + "-ad"] = common.run_huge(res, got[0], got[2], ["ad128", "ad128a", "ad80pq"], parallel=True)
    res.cov.update({
        "evaluations": sum(p["sessions"] for p in per),
        "distinct_nontrivial": max([p["nontrivial"] for p in per] or [0]),
        "rule": "AEAD encryptions (one-shot, incremental with random partitions incl. empty and in-place chunks, masked, C++) for "
                "all (|AD|,|P|) pairs in 0..2*rate+1 (sampled in quick) plus boundary lengths; distinct = distinct operation "
                "session text; non-trivial = has a payload field and the model returns a value",
        "samples": corr.lines[:3] + corr.lines[-2:],
        "per_config": per,
        "input_distribution": {"adlen": diffrun.histogram(stats["adlen"]), "ptlen": diffrun.histogram(stats["ptlen"]),
                               "ops": stats["ops"], "chunks_per_incremental": diffrun.histogram(stats["chunks"], (1, 2, 3, 5, 8))},
    })
    res.assumptions += ["Spec/Aead.v is a faithful transcription of ASCON v1.2 (validated on %d KAT vectors this run)" % nk,
                        "Model/Aeadm.v mirrors the C (checked by the differential run above, not proved)",
                        "all lengths < 2^31"]
    res.cov["wall_total"] = round(time.time() - t0, 1)
    return "proof"
