"""C07 - incremental APIs are invariant under chunking, aliasing, copying and re-init."""
import random, time, collections
import common, diffrun, gen, stdflow
from common import hx, rnd_bytes


def chunk_sizes(rng, total, rate):
    sizes, left = [], total
    while left > 0:
        c = min(left, rng.choice([0, 1, rate - 1, rate, rate + 1, 2 * rate + 3, 1000]))
        sizes.append(c); left -= c
    if rng.random() < 0.4:
        sizes.insert(rng.randrange(len(sizes) + 1), 0)
    return sizes


def xof_history(rng, stats):
    v = rng.choice(["xof", "xofa", "hash", "hasha", "prf"])
    rate = 32 if v == "prf" else 8
    ses = []

    def init(slot, re):
        pre = "RE" if re else ""
        if v == "prf":
            ses.append("X %d prf %sINITK %s %d" % (slot, pre, hx(rnd_bytes(rng, 16)), rng.choice([0, 16, 40])))
        elif v in ("hash", "hasha"):
            ses.append("X %d %s %sINIT" % (slot, v, pre))
        else:
            k = rng.choice(["INIT", "INITF", "INITC"])
            if k == "INIT":
                ses.append("X %d %s %sINIT" % (slot, v, pre))
            elif k == "INITF":
                ses.append("X %d %s %sINITF %d" % (slot, v, pre, rng.choice([0, 16, 32, 64])))
            else:
                ses.append("X %d %s %sINITC %s %s %d" % (slot, v, pre, rng.choice(["NULL", hx(b"name"), hx(b"N" * 40)]), hx(rnd_bytes(rng, rng.choice([0, 3, 9]))), rng.choice([0, 32, 50])))
    init(1, False)
    live = [1]
    for _ in range(rng.randrange(3, 12)):
        slot = rng.choice(live)
        k = rng.choice(["abs", "abs", "abs", "sqz", "sqz", "copy", "reinit", "pad", "dump"])
        stats["ops"][k] += 1
        if k == "abs":
            for c in chunk_sizes(rng, rng.choice([0, 1, rate - 1, rate, rate + 1, 3 * rate + 1, 200]), rate):
                ses.append("X %d ABS %s" % (slot, hx(rnd_bytes(rng, c))))
        elif k == "sqz":
            outs = chunk_sizes(rng, rng.choice([0, 1, 7, 8, 9, 16, 17, 40]), 16 if v == "prf" else 8)
            for o in outs or [0]:
                ses.append("X %d SQZ %d" % (slot, o if v not in ("hash", "hasha") else 32))
        elif k == "copy" and v != "prf":
            d = max(live) + 1 if len(live) < 3 else rng.choice([s for s in (1, 2, 3) if s != slot])
            ses.append("X %d COPY %d" % (slot, d))
            if d not in live:
                live.append(d)
        elif k == "reinit":
            init(slot, True)
        elif k == "pad" and v in ("xof", "xofa"):
            ses.append("X %d PAD" % slot)
        else:
            ses.append("X %d DUMP" % slot)
    for s in live:
        ses.append("X %d SQZ %d" % (s, 32 if v in ("hash", "hasha") else rng.choice([5, 16, 33])))
        ses.append("X %d FREE" % s)
    return ses, "X-" + v


def aead_history(rng, stats):
    v = rng.choice(["128", "128a", "80pq"])
    klen, rate = gen.AEAD_VARIANTS[v]
    ses = ["AI 1 %s INIT %s %s" % (v, rng.choice(["NULL", hx(rnd_bytes(rng, 16))]), rng.choice(["NULL", hx(rnd_bytes(rng, klen))]))]
    for _p in range(rng.randrange(1, 4)):
        if rng.random() < 0.5:
            ses.append("AI 1 REINIT %s %s" % (rng.choice(["NULL", "SELF", hx(rnd_bytes(rng, 16))]), rng.choice(["NULL", hx(rnd_bytes(rng, klen))])))
            stats["ops"]["aead-reinit"] += 1
        ses.append("AI 1 START %s" % hx(rnd_bytes(rng, rng.choice([0, 1, rate, rate + 1, 40]))))
        enc = rng.random() < 0.6
        for c in chunk_sizes(rng, rng.choice([0, 1, rate - 1, rate, rate + 1, 2 * rate + 3, 100]), rate):
            ses.append("AI 1 %s %s%s" % ("ENCB" if enc else "DECB", hx(rnd_bytes(rng, c)), " I" if rng.random() < 0.5 else ""))
            stats["ops"]["aead-block" + ("-inplace" if ses[-1].endswith(" I") else "")] += 1
        ses.append("AI 1 ENCF" if enc else "AI 1 DECF %s" % hx(rnd_bytes(rng, 16)))
        ses.append("AI 1 NONCE")
    ses.append("AI 1 FREE")
    return ses, "AI-" + v


def mac_lines(rng, stats):
    out = []
    for v in ("hmac", "hmaca"):
        k, m = rnd_bytes(rng, rng.choice([0, 16, 64, 65, 100])), rnd_bytes(rng, rng.choice([0, 1, 31, 32, 33, 100]))
        parts = gen.split_data(m, chunk_sizes(rng, len(m), 8))
        out.append("HM %s %s %s" % (v, hx(k), ",".join(hx(p) for p in parts) or "-"))
        out.append("HMO %s %s %s" % (v, hx(k), hx(m)))
        # the same through <op>_reinit after a prior history on the same object (RE:<seed of the prior history>)
        out.append("HM %s %s %s RE:%d" % (v, hx(k), ",".join(hx(p) for p in parts) or "-", rng.randrange(1, 1 << 30)))
        out.append("HMO %s %s %s" % (v, hx(k), hx(m)))
    for v in ("kmac", "kmaca"):
        k, m, cu = rnd_bytes(rng, 16), rnd_bytes(rng, rng.choice([0, 7, 8, 9, 40])), rnd_bytes(rng, rng.choice([0, 5]))
        n = rng.choice([16, 32, 40])
        parts = gen.split_data(m, chunk_sizes(rng, len(m), 8))
        out.append("KM %s %s %s %d %s %s" % (v, hx(k), hx(cu), n, ",".join(hx(p) for p in parts) or "-", ",".join(map(str, chunk_sizes(rng, n, 8)))))
        out.append("KMO %s %s %s %s %d" % (v, hx(k), hx(m), hx(cu), n))
        out.append("KM %s %s %s %d %s %s RE:%d" % (v, hx(k), hx(cu), rng.choice([n, 0]), ",".join(hx(p) for p in parts) or "-", ",".join(map(str, chunk_sizes(rng, n, 8))), rng.randrange(1, 1 << 30)))
        out.append("KMO %s %s %s %s %d" % (v, hx(k), hx(m), hx(cu), n))
    for v in ("kdf", "kdfa"):
        k, cu, n = rnd_bytes(rng, rng.choice([1, 16, 40])), rnd_bytes(rng, rng.choice([0, 5, 9])), rng.choice([8, 24, 40])
        out.append("KD %s %s %s %d %s RE:%d" % (v, hx(k), hx(cu), rng.choice([n, 0]), ",".join(map(str, chunk_sizes(rng, n, 8))), rng.randrange(1, 1 << 30)))
        out.append("KDO %s %s %s %d" % (v, hx(k), hx(cu), n))
    for v in ("hkdf", "hkdfa"):
        key, salt, info = rnd_bytes(rng, 16), rnd_bytes(rng, 8), rnd_bytes(rng, 3)
        n = rng.choice([10, 64, 100])
        out.append("HK %s %s %s %s %s" % (v, hx(key), hx(salt), hx(info), ",".join(map(str, chunk_sizes(rng, n, 32)))))
        out.append("HKO %s %s %s %s %d" % (v, hx(key), hx(salt), hx(info), n))
    if rng.random() < 0.25:
        # the last legal HKDF block (255) read in several calls: any split of the whole 8160-byte stream must equal the one-shot output
        v = rng.choice(["hkdf", "hkdfa"])
        key, salt, info = rnd_bytes(rng, 16), rnd_bytes(rng, 8), rnd_bytes(rng, 3)
        cut = rng.choice([8129, 8150, 8159, 8128 + rng.randrange(1, 32)])
        tail = 8160 - cut
        out.append("HK %s %s %s %s %s" % (v, hx(key), hx(salt), hx(info), ",".join(map(str, [cut] + chunk_sizes(rng, tail, 8)))))
        out.append("HKO %s %s %s %s %d" % (v, hx(key), hx(salt), hx(info), 8160))
    stats["ops"]["mac-kdf-pairs"] += len(out) // 2
    return out


def run(res, tier, seed, replay=None):
    t0 = time.time()
    rng = random.Random(seed)
    pr = stdflow.prove(res, "C07")
    driver = common.build_driver()
    stats = {"ops": collections.Counter()}
    corr = diffrun.Corr()
    if replay:
        import json
        corr.session(json.load(open(replay))["replay"]["ops"])
    else:
        n = 250 if tier == "quick" else 4000
        for _ in range(n):
            ses, tag = xof_history(rng, stats); corr.session(ses, tag)
            ses, tag = aead_history(rng, stats); corr.session(ses, tag)
        for _ in range(n // 10):
            for l in mac_lines(rng, stats):
                corr.one(l)
    configs = ["default", "c32", "generic"] if tier == "quick" else ["default", "c64", "c32", "directxor", "generic"]
    per = []
    with common.Scratch() as sc:
        b = stdflow.Builds(res, sc)
        for cfg in configs:
            got = b.get(cfg)
            if got:
                per.append(diffrun.compare(res, corr, driver, got[1], got[2]))
    res.cov.update({
        "evaluations": sum(p["sessions"] for p in per),
        "distinct_nontrivial": max([p["nontrivial"] for p in per] or [0]),
        "rule": "random object histories per machine (hash, hasha, xof, xofa, prf; incremental AEAD x3): chunk sizes from {0,1,r-1,r,r+1,2r+3,1000} for absorb, "
                "squeeze and block calls, copies taken at random points with both copies continued, re-init (plain/fixed/custom; AEAD with NULL key, NULL nonce, "
                "nonce aliasing the object's own field) after random histories, every AEAD block call randomly in place or out of place, internal state dumps; "
                "chunked vs one-shot HMAC/KMAC/HKDF; on the three families of fast-path macros (sliced64 asm build, sliced32, generic)",
        "samples": corr.lines[:8],
        "per_config": per,
        "input_distribution": {"ops": dict(stats["ops"])},
    })
    res.assumptions += ["in-place processing is proved for the step-granular buffer model (Proofs/InplaceP.v); that each C macro reads a cell before writing it is observed by the in-place runs",
                        "Model files mirror the C (differential run)"]
    res.cov["wall_total"] = round(time.time() - t0, 1)
    return "proof"
