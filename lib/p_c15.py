"""C15 - PRNG is deterministic in its entropy, forward secure, reseeds and reports status."""
import random, time, collections
import common, diffrun, gen, stdflow
from common import hx, rnd_bytes


def session(rng, tier, stats):
    ops = []
    nsys = [0]

    def sys(ok=None):
        ok = (rng.random() < 0.8) if ok is None else ok
        kind = rng.choice(["rand", "rand", "zero", "ff"])
        b = gen.patterned(rng, 32, kind)
        ops.append("TRNG SYS %s %d" % (hx(b), 1 if ok else 0))
        nsys[0] += 1

    body = ["RN INIT", "RN STATE"]
    need = 1
    counter = 0
    for _ in range(rng.randrange(3, 10)):
        k = rng.choice(["fetch", "fetch", "fetch", "feed", "reseed", "save", "load", "oneshot"])
        stats["ops"][k] += 1
        if k == "fetch":
            n = rng.choice([0, 1, 7, 8, 9, 100, 16383, 16384, 20000] if tier == "thorough" else [0, 1, 7, 8, 9, 100, 16383, 16384, 4000, 12000])
            if counter >= 16384:
                need += 1; counter = 0
            counter = counter + n if n < 16384 else 16384
            body.append("RN FETCH %d" % n); stats["fetch"].append(n)
        elif k == "feed":
            body.append("RN FEED %s" % hx(rnd_bytes(rng, rng.choice([0, 1, 7, 8, 9, 32, 100]))))
        elif k == "reseed":
            body.append("RN RESEED"); need += 1; counter = 0
        elif k in ("save", "load"):
            mode = rng.choice(["ok", "ok", "short", "fail", "small", "null"])
            stats["storage"][k + "-" + mode] += 1
            if mode == "null":
                body.append("RN %s NULL" % k.upper())
            else:
                size = 31 if mode == "small" else rng.choice([32, 64, 4096])
                rr = 32 if mode == "ok" else (rng.choice([0, 5, 31]) if mode == "short" else (-1 if mode == "fail" else 32))
                wr = 32 if mode == "ok" else (rng.choice([0, 31]) if mode == "short" else (-1 if mode == "fail" else 32))
                data = rnd_bytes(rng, 32)
                body.append("RN %s %d %d %s %d" % (k.upper(), size, rr, hx(data), wr))
                if mode not in ("small",):
                    if k == "save":
                        if counter >= 16384:
                            need += 1; counter = 0
                        counter += 32
                    else:
                        need += 1; counter = 32
        else:
            body.append("RN ONESHOT %d" % rng.choice([0, 1, 20, 32, 33, 100])); need += 1
        body.append("RN STATE")
        body.append("RN CALLS")
    body.append("RN FREE")
    ops.append("TRNG SYSCLEAR")
    for _ in range(need + 2):
        sys()
    # SYSCLEAR must come first
    ops = ["TRNG SYSCLEAR"] + ops[1:]
    return ops + body


def run(res, tier, seed, replay=None):
    t0 = time.time()
    rng = random.Random(seed)
    pr = stdflow.prove(res, "C15")
    driver = common.build_driver()
    stats = {"ops": collections.Counter(), "fetch": [], "storage": collections.Counter()}
    corr = diffrun.Corr()
    if replay:
        import json
        corr.session(json.load(open(replay))["replay"]["ops"])
    else:
        for _ in range(60 if tier == "quick" else 600):
            corr.session(session(rng, tier, stats), "RN-session")

    def sig(line):
        t = line.split()
        return "-".join(t[:2])

    configs = ["default", "c32"] if tier == "quick" else ["default", "c64", "c32", "directxor", "generic"]
    per = []
    with common.Scratch() as sc:
        b = stdflow.Builds(res, sc)
        for cfg in configs:
            got = b.get(cfg)
            if got:
                per.append(diffrun.compare(res, corr, driver, got[1], got[2], sigfn=sig))
    res.cov.update({
        "evaluations": sum(p["sessions"] for p in per),
        "distinct_nontrivial": max([p["nontrivial"] for p in per] or [0]),
        "rule": "random histories of init/fetch/feed/reseed/save/load/one-shot with a scripted system source (healthy and failing answers, "
                "all-zero / all-ones seeds) and scripted storage callbacks (full, short, failing, too small, NULL); after every operation the outputs, "
                "status results, the counter, count/mode and the 40 state bytes and the number of system-source calls are compared with the model",
        "samples": corr.lines[:12],
        "per_config": per,
        "input_distribution": {"ops": dict(stats["ops"]), "fetch_sizes": diffrun.histogram(stats["fetch"], (0, 8, 100, 16383, 16384, 20000)),
                               "storage": dict(stats["storage"])},
    })
    res.assumptions += ["'every byte influences all later output' is proved structurally (every entropy byte is absorbed into the sponge and followed by "
                        "the re-key before any output); the diffusion itself is a property of the permutation, only observed",
                        "the library's own TRNG back end is replaced at link time by the scripted source (harness/h_trng.cpp)",
                        "Model/Prngm.v mirrors the C (differential run incl. full internal state)"]
    res.cov["wall_total"] = round(time.time() - t0, 1)
    return "proof"
